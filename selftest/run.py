#!/usr/bin/env python3
import json, os, subprocess, sys, tempfile, shutil, concurrent.futures
here = os.path.dirname(os.path.abspath(__file__))
root = os.path.dirname(here)
env = dict(os.environ, GOFLAGS='-mod=mod', GOPROXY='off', GOSUMDB='off', GOTOOLCHAIN='local', CGO_ENABLED='0')
env.pop('GOWORK', None)
prop = sys.argv[1] if len(sys.argv) > 1 else 'all'
variants = json.load(open(os.environ.get('UAVERIF_VARIANTS') or os.path.join(here, 'variants.json')))
if not os.environ.get('UAVERIF_VARIANTS'):
    import glob
    # the independently seeded breaking changes: each must be reported by the rules recorded in its meta.json
    for mf in sorted(glob.glob(os.path.join(root, 'seeded', '*', 'meta.json'))):
        m = json.load(open(mf))
        rules = m['checked']['caught_by']
        props = sorted(set(r.split('.')[0] for r in rules))
        variants.append({'id': 'seed-' + m['id'], 'kind': 'mutant', 'props': props, 'expect_all': rules,
                         'patch': os.path.join(os.path.dirname(mf), 'patch.diff'), 'edits': []})
    # the behaviour-preserving refactorings: each must stay silent for the property it was written for
    for pf in sorted(glob.glob(os.path.join(root, 'benign', '*', 'refactor*.diff'))):
        pid = os.path.basename(os.path.dirname(pf))
        # UAVERIF_BENIGN_ALL=1: every check must stay silent on it, not only the one of its own property
        props = ['all'] if os.environ.get('UAVERIF_BENIGN_ALL') else [pid]
        # UAVERIF_BENIGN_PROPS=C05,C07: every refactoring against exactly these checks (after a change to their rules)
        if os.environ.get('UAVERIF_BENIGN_PROPS'):
            props = os.environ['UAVERIF_BENIGN_PROPS'].split(',')
        variants.append({'id': 'benign-' + pid + '-' + os.path.basename(pf)[:-5], 'kind': 'benign', 'props': props, 'own': pid, 'patch': pf, 'edits': []})

def run(v):
    d = tempfile.mkdtemp(prefix='uaverif-st-')
    vd = d + '.v'
    try:
        subprocess.check_call(['git', '-C', '/repo', 'worktree', 'add', '-q', '--detach', d, 'HEAD'], stdout=subprocess.DEVNULL, stderr=subprocess.DEVNULL)
        # the variant is built on /repo's current working tree, not on HEAD
        diff = subprocess.run(['git', '-C', '/repo', 'diff', 'HEAD'], capture_output=True).stdout
        if diff.strip():
            subprocess.run(['git', '-C', d, 'apply', '--whitespace=nowarn'], input=diff, check=True)
        if v.get('patch'):
            a = subprocess.run(['git', '-C', d, 'apply', '--whitespace=nowarn', v['patch']], capture_output=True, text=True)
            if a.returncode != 0:
                return v, 'STALE', 'patch does not apply to the tree under analysis'
        for e in v['edits']:
            p = os.path.join(d, e['file'])
            s = open(p).read()
            if e['old'] not in s:
                return v, 'STALE', 'pattern not found in ' + e['file'] + ' (the source moved: update selftest/variants.json)'
            open(p, 'w').write(s.replace(e['old'], e['new'], 1))
        # no separate `go build`: the analyser type-checks every package itself and refuses a tree that does not compile
        os.makedirs(vd, exist_ok=True)
        # recorded findings stay recorded findings in the variant (a moved site is re-reported: keyed by construct)
        shutil.copy(os.path.join(root, 'known_findings.json'), os.path.join(vd, 'known_findings.json'))
        r = subprocess.run([os.environ.get('UAVERIF_BIN') or os.path.join(root, 'bin/uaverif'), '-repo', d, '-verif', vd, '-prop', ','.join(v['props'])], capture_output=True, text=True, env=env)
        out = r.stdout
        if 'ERROR cannot analyse' in out:
            return v, 'NOBUILD', out[-300:]
        viol = [l for l in out.splitlines() if l.startswith('  C') ]
        has = 'VIOLATION' in out
        if v['kind'] == 'mutant':
            if 'expect_all' in v:
                missing = [r for r in v['expect_all'] if not any((' ' + r + ' ') in (l + ' ') for l in viol)]
                if has and not missing:
                    return v, 'KILLED', ''
                return v, 'SURVIVED', 'not reported: ' + ' '.join(missing)
            if has and any(v['expect'] in l for l in viol):
                return v, 'KILLED', ''
            return v, 'SURVIVED', (' | '.join(viol)[:300] or 'no violation reported')
        else:
            if has or r.returncode not in (0,):
                return v, 'FALSE-ALARM', ' | '.join(viol)[:300] + ' rc=%d' % r.returncode
            return v, 'SILENT', ''
    finally:
        subprocess.call(['git', '-C', '/repo', 'worktree', 'remove', '--force', d], stdout=subprocess.DEVNULL, stderr=subprocess.DEVNULL)
        shutil.rmtree(d, ignore_errors=True)
        shutil.rmtree(vd, ignore_errors=True)

sel = [v for v in variants if prop == 'all' or prop in v['props'] or prop == v.get('own')]
# UAVERIF_SKIP=stored|seed|benign (comma separated): leave a group out (long regressions in parts)
skip = set(filter(None, os.environ.get('UAVERIF_SKIP', '').split(',')))
def group(v):
    return 'seed' if v['id'].startswith('seed-') else 'benign' if v['id'].startswith('benign-') else 'stored'
sel = [v for v in sel if group(v) not in skip]
if not sel:
    print('selftest: no stored variants for', prop)
    sys.exit(0)
bad = 0
with concurrent.futures.ThreadPoolExecutor(max_workers=int(os.environ.get('UAVERIF_JOBS', '6'))) as ex:
    for v, verdict, info in ex.map(run, sel):
        # STALE / NOBUILD say the stored edit no longer fits the tree under analysis (it was changed since the
        # variant was recorded): reported, but not a verdict about the checker.
        ok = verdict in ('KILLED', 'SILENT', 'STALE', 'NOBUILD')
        print('selftest %-7s %-28s %-11s %s' % (v['kind'], v['id'], verdict, info))
        if not ok:
            bad += 1
print('selftest: %d variants, %d not as expected' % (len(sel), bad))
sys.exit(1 if bad else 0)
