#!/bin/bash
# selftest/run.sh <prop>|all  — thorough-tier self test: every stored mutant of the property must be reported
# (VIOLATION naming the expected rule) and every stored benign variant must stay silent. Each variant is analysed
# in its own process on its own scratch worktree (removed afterwards); up to 6 run in parallel.
cd "$(dirname "$0")/.." || exit 2
prop="${1:-all}"
exec python3 selftest/run.py "$prop"
