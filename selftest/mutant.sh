#!/bin/bash
# selftest/mutant.sh <prop[,prop]> <file> <old> <new>  — apply one textual change to a scratch worktree of /repo's
# HEAD, require that it still builds, run the property's rules on it and print the verdict. The scratch tree is
# removed afterwards. Exit 0 if the rules report a VIOLATION (mutant killed), 1 otherwise.
set -u
props="$1"; file="$2"; old="$3"; new="$4"
cd "$(dirname "$0")/.." || exit 2
export GOFLAGS=-mod=mod GOPROXY=off GOSUMDB=off GOTOOLCHAIN=local CGO_ENABLED=0; unset GOWORK
dir=$(mktemp -d /tmp/uaverif-mut-XXXXXX)
trap 'git -C /repo worktree remove --force "$dir" >/dev/null 2>&1; rm -rf "$dir" "$dir.v"' EXIT
git -C /repo worktree add -q --detach "$dir" HEAD || exit 2
python3 - "$dir/$file" "$old" "$new" <<'PY' || exit 2
import sys
p, old, new = sys.argv[1:4]
s = open(p).read()
if s.count(old) < 1:
    print("mutant: pattern not found in", p); sys.exit(1)
open(p, 'w').write(s.replace(old, new, 1))
PY
(cd "$dir" && go build ./... ) || { echo "mutant does not build"; exit 2; }
mkdir -p "$dir.v"
out=$(./bin/uaverif -repo "$dir" -verif "$dir.v" -prop "$props" 2>&1)
echo "$out" | grep -E "^  C[0-9]+\.|^PASS|^FAIL|^ERROR" | cut -c1-220
echo "$out" | grep -q "^VIOLATION" && { echo "=> KILLED"; exit 0; }
echo "=> SURVIVED"; exit 1
