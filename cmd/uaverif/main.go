// uaverif: static verification of gopcua/opcua properties (see DESIGN.md).
package main

import (
	"flag"
	"fmt"
	"os"
	"path/filepath"
	"strings"
	"time"

	"verif/internal/core"
	"verif/internal/load"
	"verif/internal/rules"
)

func main() {
	prop := flag.String("prop", "", "property id (C01..C38), comma list, or 'all'")
	tier := flag.String("tier", "quick", "quick|thorough")
	repo := flag.String("repo", "/repo", "repository working tree to analyse")
	verif := flag.String("verif", "", "verif dir (default: dir of the binary's parent)")
	list := flag.Bool("list", false, "list properties with rules")
	flag.Parse()
	if *list {
		for _, p := range rules.Props() {
			fmt.Println(p)
		}
		return
	}
	vd := *verif
	if vd == "" {
		exe, _ := os.Executable()
		vd = filepath.Dir(filepath.Dir(exe))
	}
	var props []string
	if *prop == "all" {
		props = rules.Props()
	} else {
		props = strings.Split(*prop, ",")
	}
	if len(props) == 0 || props[0] == "" {
		fmt.Fprintln(os.Stderr, "usage: uaverif -prop Cnn [-tier quick|thorough]")
		os.Exit(2)
	}
	start := time.Now()
	abs, _ := filepath.Abs(*repo)
	p, err := load.Load(abs, "")
	if err != nil {
		fmt.Printf("ERROR cannot analyse %s: %v\n", abs, err)
		os.Exit(2)
	}
	archs := []string{"linux/amd64"}
	var p386 *load.Program
	if *tier == "thorough" {
		p386, err = load.Load(abs, "386")
		if err != nil {
			fmt.Printf("ERROR cannot analyse %s with GOARCH=386: %v\n", abs, err)
			os.Exit(2)
		}
		archs = append(archs, "linux/386")
	}
	known, err := core.LoadKnown(filepath.Join(vd, "known_findings.json"))
	if err != nil {
		fmt.Printf("ERROR %v\n", err)
		os.Exit(2)
	}
	fmt.Printf("uaverif: loaded %d packages (%d library) from %s in %.1fs\n", len(p.All), len(p.Lib), abs, time.Since(start).Seconds())
	exit := 0
	for _, id := range props {
		r := rules.Lookup(id)
		if r == nil {
			fmt.Printf("ERROR no rules for property %s\n", id)
			exit = 2
			continue
		}
		t0 := time.Now()
		if len(props) == 1 {
			t0 = start
		}
		c := core.NewCtx(id, *tier, p)
		c.P386 = p386
		func() {
			defer func() {
				if rec := recover(); rec != nil {
					c.Fatal("analysis panic: %v", rec)
					if os.Getenv("UAVERIF_DEBUG") != "" {
						panic(rec)
					}
				}
			}()
			r(c)
		}()
		if e := c.Finish(vd, known, t0, archs); e > exit {
			if exit != 1 { // violation (1) wins over error (2) for the exit contract only when present
				exit = e
			}
		}
	}
	os.Exit(exit)
}
