#!/usr/bin/env python3
"""kf.py add <property> <rule> <key> <what>   |  kf.py fixed <property> <rule> <key> <commit> <what>
Editing helper for known_findings.json (used by hand during triage, never by a check)."""
import json, sys, os
p = os.path.join(os.path.dirname(os.path.dirname(os.path.abspath(__file__))), 'known_findings.json')
d = json.load(open(p))
cmd = sys.argv[1]
if cmd == 'add':
    _, _, prop, rule, key, what = sys.argv
    d['findings'] = [f for f in d['findings'] if not (f['property'] == prop and f['rule'] == rule and f['key'] == key)]
    d['findings'].append({"property": prop, "rule": rule, "key": key, "status": "known", "what": what})
elif cmd == 'fixed':
    _, _, prop, rule, key, commit, what = sys.argv
    d['findings'] = [f for f in d['findings'] if not (f['property'] == prop and f['rule'] == rule and f['key'] == key)]
    d['findings'].append({"property": prop, "rule": rule, "key": key, "status": "fixed", "commit": commit, "what": "fixed: property=%s %s %s" % (prop, commit, what)})
d['findings'].sort(key=lambda f: (f['property'], f['rule'], f['key']))
json.dump(d, open(p, 'w'), indent=1, ensure_ascii=False)
