#!/bin/bash
# tools/seed_check.sh <seed-dir-name> [props...] — apply seeded/<name>/patch.diff to /repo, run the checks, undo straight afterwards.
cd "$(dirname "$0")/.." || exit 2
name="$1"; shift
[ -z "$(git -C /repo status --porcelain --untracked-files=no)" ] || { echo "/repo is dirty"; exit 2; }
git -C /repo apply "$PWD/seeded/$name/patch.diff" || exit 2
trap 'git -C /repo checkout -- .' EXIT
if [ $# -eq 0 ]; then
  ./check --all 2>&1 | grep -E "^(VIOLATION|  C[0-9]+\.|FAIL|ERROR)" | head -40
else
  for p in "$@"; do ./check $p 2>&1 | grep -E "^(VIOLATION|  C[0-9]+\.|FAIL|ERROR|PASS)" | head -20; done
fi
