#!/usr/bin/env python3
"""kf_bulk.py <property> <rule> <what>  — triage helper: records every currently failing, unlisted
instance of <rule> (from evidence/<property>.json of the last run) as a known finding with text <what>.
Used by hand after reading each report; never by a check."""
import json, sys, os, subprocess
here = os.path.dirname(os.path.dirname(os.path.abspath(__file__)))
prop, rule, what = sys.argv[1:4]
only = sys.argv[4] if len(sys.argv) > 4 else None
ev = json.load(open(os.path.join(here, 'evidence', prop + '.json')))
n = 0
for o in ev['coverage']['all_instances']:
    if o['rule'] == rule and not o['ok'] and not o.get('info'):
        if only and only not in o['instance']:
            continue
        subprocess.check_call([sys.executable, os.path.join(here, 'tools', 'kf.py'), 'add', prop, rule, o['instance'], what])
        n += 1
print('recorded', n)
