#!/usr/bin/env python3
"""Generates /verif/MANIFEST.json from the table below. A property is listed
under checks only if the analyser has rules registered for it (bin/uaverif -list);
everything else goes to not_applicable with its reason."""
import json, subprocess, os, sys
here = os.path.dirname(os.path.dirname(os.path.abspath(__file__)))
props = [json.loads(l) for l in open(os.path.join(here, 'properties.jsonl'))]
have = set(subprocess.run([os.path.join(here, 'bin/uaverif'), '-list'], capture_output=True, text=True).stdout.split())

NOTE = ("Trusted base: go/types, go/ssa and the VTA call graph of golang.org/x/tools v0.29.0 under Go 1.23.5; the frozen tables in "
        "internal/rules (each confirmed by reading the pinned tree). Mutex identity is per (type, field); call-graph over-approximation may add "
        "callers, never lose them. The check decides the named structural clause for every path/site of /repo's current working tree; it does not "
        "decide the behavioural property.")

# id -> (decided clause, technique, or None + reason when not applicable)
T = {}
def claim(i, text, tech): T[i] = (text, tech, None)
def na(i, reason): T[i] = (None, None, reason)
def extra(i, text):
    t = T[i]
    T[i] = (t[0] + ' Also decided (added after the seeded-change campaign): ' + text, t[1], t[2])

exec(open(os.path.join(here, 'tools', 'claims.py')).read())

checks, nas = [], []
for p in props:
    i = p['id']
    text, tech, reason = T.get(i, (None, None, 'no static rule implemented yet for this property (work in progress; see DESIGN.md)'))
    if text and i in have:
        checks.append({
            "property_id": i,
            "quick_cmd": "./check %s" % i,
            "thorough_cmd": "./check %s --thorough" % i,
            "evidence_file": "evidence/%s.json" % i,
            "replay_cmd_template": "./check %s --explain {path}" % i,
            "engine": "uaverif",
            "level_claimed": {"category": "other", "text": text, "design_ref": "DESIGN.md §4 %s" % i},
            "level_note": NOTE,
            "technique": tech,
        })
    else:
        nas.append({"property_id": i, "reason": reason or 'rules for this property are designed (DESIGN.md §4) but not implemented; not claimed'})

m = {
    "version": 1,
    "setup_cmd": "cd /verif && GOFLAGS=-mod=mod GOPROXY=off GOSUMDB=off GOTOOLCHAIN=local CGO_ENABLED=0 go build -o bin/uaverif ./cmd/uaverif && ./check --smoke",
    "hooks": {
        "guard": "verif",
        "enable": "none needed: the static analyser reads /repo's working tree as it is; no instrumentation is compiled in",
        "baseline_off_cmd": "cd /repo && GOFLAGS=-mod=mod GOPROXY=off GOSUMDB=off GOTOOLCHAIN=local go test -vet=off -count=1 -timeout 25m ./...",
        "source_commits": [],
        "add_only": True,
    },
    "engines": [{
        "name": "uaverif", "path": "cmd/uaverif",
        "serves_properties": [c["property_id"] for c in checks],
        "kind_free_text": "repository-specific static analyser: go/packages type-checked syntax + go/ssa + VTA call graph; per-property rules (dominance / must-pass-through, lockset, who-may-write, table agreement, codec-pair agreement, guard proving on access paths) with per-rule instance floors and object-keyed known findings",
    }],
    "checks": checks,
    "not_applicable": nas,
    "notes": "Technique family: static analysis only. Every check re-analyses /repo's current working tree; nothing from /repo is executed. Level 'other' = a named structural necessary condition is decided for all paths/sites; see DESIGN.md §4 for what each check does not decide. known_findings.json lists genuine defects that are recorded rather than repaired.",
}
json.dump(m, open(os.path.join(here, 'MANIFEST.json'), 'w'), indent=1)
print("checks:", len(checks), "not_applicable:", len(nas))
