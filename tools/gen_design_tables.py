#!/usr/bin/env python3
"""Regenerates the generated parts of DESIGN.md: the disposition table of §10.3 (from known_findings.json) and the
table of §10.4 (from seeded/*/meta.json). Text between the markers is replaced; everything else is left alone."""
import json, os, glob, re, subprocess
root = os.path.dirname(os.path.dirname(os.path.abspath(__file__)))
p = os.path.join(root, 'DESIGN.md')
s = open(p).read()
kf = json.load(open(os.path.join(root, 'known_findings.json')))['findings']
rows = ["| property | rule | instance key (abridged) | disposition | what fails |", "|---|---|---|---|---|"]
for f in kf:
    disp = 'known' if f['status'] == 'known' else 'fixed ' + f.get('commit', '')
    what = f['what'].replace('|', '/')
    if len(what) > 260:
        what = what[:257] + '…'
    rows.append("| %s | %s | `%s` | %s | %s |" % (f['property'], f['rule'], f['key'].replace('|', '/')[:110], disp, what))
t103 = '\n'.join(rows)
metas = [json.load(open(f)) for f in sorted(glob.glob(os.path.join(root, 'seeded', '*', 'meta.json')))]
rows = ["| seed | change (abridged) | needs to manifest | reported by | missed at first? |", "|---|---|---|---|---|"]
for m in metas:
    c = m['checked']
    ch = m['change'] if len(m['change']) < 170 else m['change'][:167] + '…'
    nd = m['needs_to_manifest'] if len(m['needs_to_manifest']) < 150 else m['needs_to_manifest'][:147] + '…'
    rows.append("| %s | %s | %s | %s | %s |" % (m['id'], ch.replace('|', '/'), nd.replace('|', '/'), ', '.join(c['caught_by']), ('yes — ' + c.get('follow_up', '')) if c['missed_at_first'] else 'no'))
t104 = '\n'.join(rows)
def put(s, name, body):
    a, b = '<!-- BEGIN %s -->' % name, '<!-- END %s -->' % name
    if a not in s:
        raise SystemExit('marker %s missing in DESIGN.md' % name)
    i, j = s.index(a) + len(a), s.index(b)
    return s[:i] + '\n' + body + '\n' + s[j:]
s = put(s, 'TABLE-10.3', t103)
s = put(s, 'TABLE-10.4', t104)
open(p, 'w').write(s)
print('10.3 rows:', len(kf), ' 10.4 rows:', len(metas))
