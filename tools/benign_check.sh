#!/bin/bash
# tools/benign_check.sh <patch.diff>... — apply each behaviour-preserving refactoring to /repo, run ALL checks, undo.
# Every FAIL / ERROR / VIOLATION printed here is a false alarm of the checker (or the refactoring is not benign).
cd "$(dirname "$0")/.." || exit 2
./check --smoke >/dev/null || exit 2
rc=0
for p in "$@"; do
  [ -z "$(git -C /repo status --porcelain --untracked-files=no)" ] || { echo "/repo is dirty"; exit 2; }
  ap=$(readlink -f "$p")
  git -C /repo apply "$ap" 2>/dev/null || { echo "benign $p: DOES NOT APPLY"; continue; }
  out=$(./bin/uaverif -repo /repo -prop all 2>&1)
  git -C /repo checkout -- .
  git -C /repo clean -fdq -- . 2>/dev/null
  bad=$(echo "$out" | grep -E "^(  C[0-9]+\.|ERROR|FAIL)" | cut -c1-330)
  if [ -z "$bad" ]; then echo "benign $p: SILENT"; else echo "benign $p: ALARM"; echo "$bad" | sed 's/^/    /'; rc=1; fi
done
exit $rc
