#!/usr/bin/env python3
"""Generates seeded/README.md from seeded/*/meta.json."""
import json, os, glob
root = os.path.dirname(os.path.dirname(os.path.abspath(__file__)))
rows = []
for f in sorted(glob.glob(os.path.join(root, 'seeded', '*', 'meta.json'))):
    rows.append(json.load(open(f)))
out = ["# Independently seeded changes", "",
       "Each directory holds one change to gopcua/opcua written by a sub-agent that saw only the property text and a scratch",
       "worktree (nothing from /verif): `patch.diff`, the demonstration (`zz_seed_demo_test.go.txt`, `demo.md`), the author's `notes.md`,",
       "`confirmed.log` (my own confirmation in a scratch worktree: builds, pinned suite passes, demo fails with / passes without)",
       "and `meta.json`. None is ever committed to /repo. `tools/seed_all.sh` re-applies each to /repo, runs the checks and undoes it.", "",
       "| seed | property | change | needs to manifest | reported by | missed at first? |", "|---|---|---|---|---|---|"]
for m in rows:
    c = m['checked']
    out.append("| %s | %s | %s | %s | %s | %s |" % (m['id'], m['property'], m['change'], m['needs_to_manifest'], ', '.join(c['caught_by']) or '—', ('yes — ' + c.get('follow_up', '')) if c['missed_at_first'] else 'no'))
open(os.path.join(root, 'seeded', 'README.md'), 'w').write('\n'.join(out) + '\n')
print(len(rows), 'seeds')
