#!/bin/bash
# validates MANIFEST.json and every evidence file against the schemas
cd "$(dirname "$0")/.."
python3-vt - <<'PY'
import json, jsonschema, glob, sys
jsonschema.validate(json.load(open('MANIFEST.json')), json.load(open('/root/.vp/MANIFEST.schema.json')))
print('MANIFEST.json valid')
es = json.load(open('/root/.vp/EVIDENCE.schema.json'))
bad = 0
for f in sorted(glob.glob('evidence/*.json')):
    try:
        jsonschema.validate(json.load(open(f)), es)
    except Exception as e:
        print('INVALID', f, str(e)[:200]); bad += 1
print('evidence files checked:', len(glob.glob('evidence/*.json')), 'invalid:', bad)
sys.exit(1 if bad else 0)
PY
