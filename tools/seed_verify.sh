#!/bin/bash
# tools/seed_verify.sh <id> <srcdir> <file:dir[,file:dir...]> <test-regex>
# Confirms a seeded change in a scratch worktree of /repo HEAD: builds, demo passes without / fails with the patch,
# the pinned suite still passes with it (apart from the always-failing uacp TestResolveEndpoint). Writes nothing to /repo.
set -u
id="$1"; src="$2"; files="$3"; re="$4"
export GOFLAGS=-mod=mod GOPROXY=off GOSUMDB=off GOTOOLCHAIN=local; unset GOWORK
wt=/tmp/sv-$id
git -C /repo worktree remove --force $wt 2>/dev/null; rm -rf $wt
git -C /repo worktree add -q --detach $wt HEAD || exit 2
trap 'git -C /repo worktree remove --force '$wt' 2>/dev/null; rm -rf '$wt EXIT
cd $wt
pkgs=""; placed=""
IFS=',' read -ra pairs <<< "$files"
for p in "${pairs[@]}"; do f="${p%%:*}"; d="${p##*:}"; mkdir -p "$d"; cp "$src/$f" "$d/$f"; placed="$placed $d/$f"; pkgs="$pkgs ./$d"; done
echo "[$id] demo without patch:"
go test ${SEED_TEST_FLAGS:-} -timeout 300s -vet=off -count=1 -run "$re" $pkgs 2>&1 | tail -3
without=${PIPESTATUS[0]}
git apply "$src/patch.diff" || { echo "[$id] PATCH DOES NOT APPLY"; exit 2; }
go build ./... || { echo "[$id] DOES NOT BUILD"; exit 2; }
echo "[$id] demo with patch:"
go test ${SEED_TEST_FLAGS:-} -timeout 300s -vet=off -count=1 -run "$re" $pkgs 2>&1 | grep -E "^(---|FAIL|ok|panic|\s+zz_seed)" | head -12
with=${PIPESTATUS[0]}
rm $placed
echo "[$id] suite with patch:"
go test -vet=off -count=1 ./... 2>&1 | grep -E "^(--- FAIL|FAIL|panic)" | head
echo "[$id] RESULT demo_without_rc=$without demo_with_rc=$with"
