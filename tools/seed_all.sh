#!/bin/bash
# tools/seed_all.sh [id...] — regression over the kept seeded changes: each is applied to /repo, the checks of the
# properties named in meta.json (caught_by) are run, the patch is undone straight afterwards. Prints CAUGHT/MISSED per seed.
cd "$(dirname "$0")/.." || exit 2
ids="$@"; [ -z "$ids" ] && ids=$(ls seeded | grep -v README)
bad=0
for id in $ids; do
  [ -f seeded/$id/meta.json ] || continue
  rules=$(python3 -c "import json;print(' '.join(json.load(open('seeded/$id/meta.json'))['checked']['caught_by']))")
  props=$(for r in $rules; do echo ${r%%.*}; done | sort -u | tr '\n' ',' | sed 's/,$//')
  [ -z "$(git -C /repo status --porcelain --untracked-files=no)" ] || { echo "/repo is dirty"; exit 2; }
  git -C /repo apply "$PWD/seeded/$id/patch.diff" || { echo "$id: patch does not apply"; bad=1; continue; }
  out=$(./bin/uaverif -repo /repo -prop "$props" 2>&1)
  git -C /repo checkout -- .
  miss=""
  for r in $rules; do echo "$out" | grep -q "^  $r " || miss="$miss $r"; done
  if [ -z "$miss" ]; then echo "seed $id CAUGHT by $rules"; else echo "seed $id MISSED:$miss"; bad=1; fi
done
exit $bad
