package rules

import (
	"go/token"
	"go/types"

	"golang.org/x/tools/go/ssa"

	"verif/internal/core"
	"verif/internal/ssax"
)

// c06Accept: the frame-size tests of (*uacp.Conn).Receive reject exactly the sizes the peer may not send.
// The sender side may emit chunks of exactly the advertised receive-buffer size (Conn.Send and SetMaximumBodySize are
// bounded by `<=` that size, C06.direction), so a receiver that rejects `MessageSize >= ReceiveBufSize`, or compares
// with any other quantity, refuses conforming chunks. Every branch of Receive that depends on the declared
// MessageSize and leads to an error return is classified.
func c06Accept(c *core.Ctx, rule string) {
	recv := fn(c, "uacp", "Conn", "Receive")
	ackRecv := field(c, "uacp", "Acknowledge", "ReceiveBufSize")
	msgSize := field(c, "uacp", "Header", "MessageSize")
	if recv == nil || ackRecv == nil || msgSize == nil {
		return
	}
	hdr := int64(8)
	if k := constOf(c, "uacp", "hdrlen"); k != nil {
		hdr = *k
	}
	n := 0
	upper := false
	var blocks []*ssa.BasicBlock
	for _, g := range withHelpers(recv) {
		blocks = append(blocks, g.Blocks...)
	}
	for _, b := range blocks {
		iff, ok := b.Instrs[len(b.Instrs)-1].(*ssa.If)
		if !ok {
			continue
		}
		bo, ok := iff.Cond.(*ssa.BinOp)
		if !ok {
			continue
		}
		op := bo.Op
		x, y := bo.X, bo.Y
		if loadedField(ssax.Strip(y)).f == msgSize {
			x, y = y, x
			op = flipOp(op)
		}
		if loadedField(ssax.Strip(x)).f != msgSize {
			continue
		}
		// which edge rejects (leads straight to a return with a non-nil error and a nil slice)?
		tRej, fRej := rejects(b.Succs[0]), rejects(b.Succs[1])
		if tRej == fRej {
			continue
		}
		if fRej {
			op = negOp(op)
		}
		n++
		key := fname(recv) + "·reject MessageSize " + op.String() + " " + ssax.Path(y)
		switch op {
		case token.GTR, token.GEQ:
			isRecv := loadedField(ssax.Strip(y)).f == ackRecv
			ok := op == token.GTR && isRecv
			detail := "rejects only frames larger than the advertised receive buffer"
			if !isRecv {
				detail = "the upper bound is " + ssax.Path(y) + ", not Acknowledge.ReceiveBufSize: frames the peer may send are refused (or frames larger than the buffer accepted)"
			} else if op == token.GEQ {
				detail = "a frame of exactly ReceiveBufSize bytes — which the sender side is allowed to emit — is refused"
			}
			if ok {
				upper = true
			}
			c.Ob(rule, key, pos(c, iff), ok, detail)
		case token.LSS, token.LEQ:
			k, isK := ssax.ConstInt(y)
			lim := k
			if op == token.LEQ {
				lim = k + 1
			}
			ok := isK && lim <= hdr
			c.Ob(rule, key, pos(c, iff), ok, "lower bound rejects only frames shorter than the "+itoa(int(hdr))+"-byte header: "+boolStr(ok))
		default:
			c.Ob(rule, key, pos(c, iff), false, "a frame is rejected by an (in)equality on its size that is not a buffer bound")
		}
	}
	c.Ob(rule, fname(recv)+"·upper size test present", c.P.Pos(recv.Pos()), upper, "Receive rejects MessageSize > Acknowledge.ReceiveBufSize: "+boolStr(upper))
	_ = types.Universe
	_ = n
}

// rejects: block b returns a non-nil error without performing another call on the connection.
func rejects(b *ssa.BasicBlock) bool {
	for i := 0; i < 4 && b != nil; i++ {
		if r, ok := b.Instrs[len(b.Instrs)-1].(*ssa.Return); ok {
			if len(r.Results) == 0 {
				return false
			}
			return !ssax.IsNil(ssax.RetVal(r, len(r.Results)-1))
		}
		if _, ok := b.Instrs[len(b.Instrs)-1].(*ssa.If); ok {
			return false
		}
		if len(b.Succs) != 1 {
			return false
		}
		b = b.Succs[0]
	}
	return false
}

func flipOp(op token.Token) token.Token {
	switch op {
	case token.LSS:
		return token.GTR
	case token.GTR:
		return token.LSS
	case token.LEQ:
		return token.GEQ
	case token.GEQ:
		return token.LEQ
	}
	return op
}

func negOp(op token.Token) token.Token {
	switch op {
	case token.LSS:
		return token.GEQ
	case token.GTR:
		return token.LEQ
	case token.LEQ:
		return token.GTR
	case token.GEQ:
		return token.LSS
	case token.EQL:
		return token.NEQ
	case token.NEQ:
		return token.EQL
	}
	return op
}
