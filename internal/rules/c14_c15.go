package rules

import (
	"go/token"
	"go/types"
	"strings"

	"golang.org/x/tools/go/ssa"

	"verif/internal/core"
	"verif/internal/ssax"
)

func init() { register("C14", c14); register("C15", c15) }

// litFields returns the values stored into the fields of the composite literal
// allocated by al (field name → stored value).
func litFields(al *ssa.Alloc) map[string]ssa.Value {
	out := map[string]ssa.Value{}
	if refs := al.Referrers(); refs != nil {
		for _, r := range *refs {
			fa, ok := r.(*ssa.FieldAddr)
			if !ok {
				continue
			}
			name := fieldNameOf(fa)
			if rr := fa.Referrers(); rr != nil {
				for _, u := range *rr {
					if st, ok := u.(*ssa.Store); ok && st.Addr == fa {
						out[name] = st.Val
					}
				}
			}
		}
	}
	return out
}

func fieldNameOf(fa *ssa.FieldAddr) string {
	if f := ssax.FieldOf(fa.X.Type(), fa.Field); f != nil {
		return f.Name()
	}
	return "?"
}

// algoLiteral finds the &EncryptionAlgorithm{...} literal of a constructor.
func algoLiteral(f *ssa.Function) *ssa.Alloc {
	for _, b := range f.Blocks {
		for _, in := range b.Instrs {
			if al, ok := in.(*ssa.Alloc); ok {
				if n := derefNamed(al.Type()); n != nil && n.Obj().Name() == "EncryptionAlgorithm" {
					return al
				}
			}
		}
	}
	return nil
}

// member resolves an interface-typed member to its literal (type name, fields).
func member(v ssa.Value) (string, map[string]ssa.Value) {
	mi, ok := v.(*ssa.MakeInterface)
	if !ok {
		return "", nil
	}
	al, ok := mi.X.(*ssa.Alloc)
	if !ok {
		return "", nil
	}
	n := derefNamed(al.Type())
	if n == nil {
		return "", nil
	}
	return n.Obj().Name(), litFields(al)
}

// keyRef describes `generateKeys(HMAC{Hash, Secret: secret}, seed, …).<part>`.
type keyRef struct {
	part         string
	call         *ssa.Call
	secret, seed string // parameter names
	hash         int64
}

func resolveKeyRef(v ssa.Value, gen *types.Func) (keyRef, bool) {
	ld := loadedField(v)
	if ld.f == nil {
		return keyRef{}, false
	}
	call, ok := ssax.Strip(ld.base).(*ssa.Call)
	if !ok || ssax.Callee(call) != gen {
		return keyRef{}, false
	}
	kr := keyRef{part: ld.f.Name(), call: call}
	if hal, ok := ssax.Strip(call.Call.Args[0]).(*ssa.Alloc); ok {
		hf := litFields(hal)
		if p, ok := ssax.Strip(hf["Secret"]).(*ssa.Parameter); ok {
			kr.secret = p.Name()
		}
		if k, ok := ssax.ConstInt(hf["Hash"]); ok {
			kr.hash = k
		}
	}
	if p, ok := ssax.Strip(call.Call.Args[1]).(*ssa.Parameter); ok {
		kr.seed = p.Name()
	}
	return kr, true
}

// Part 7 symmetric parameters per policy constructor (bytes; hash as crypto.Hash id: SHA1=3, SHA256=5).
var symTable = map[string]struct {
	sigKey, encKey, block, sigLen, aesBits, hash int64
}{
	"newBasic128Rsa15Symmetric":       {16, 16, 16, 20, 128, 3},
	"newBasic256Symmetric":            {24, 32, 16, 20, 256, 3},
	"newBasic256Rsa256Symmetric":      {32, 32, 16, 32, 256, 5},
	"newAes128Sha256RsaOaepSymmetric": {32, 16, 16, 32, 128, 5},
	"newAes256Sha256RsaPssSymmetric":  {32, 32, 16, 32, 256, 5},
}

func c14(c *core.Ctx) {
	initOwners(c)
	c.P.BuildSSA()
	gen := obj(c, "uapolicy", "", "generateKeys")
	genFn := fn(c, "uapolicy", "", "generateKeys")
	if gen == nil || genFn == nil {
		return
	}
	c.Rule("C14.direction", "in every symmetric constructor the send side (encrypt, signature) takes its keys from generateKeys(HMAC{Secret: remoteNonce}, seed = localNonce) and the receive side (decrypt, verifySignature) from generateKeys(HMAC{Secret: localNonce}, seed = remoteNonce): two different calls with swapped (secret, seed); .signing feeds HMAC secrets, .encryption the AES key, .iv the AES IV", 20)
	c.Rule("C14.table", "per policy, the derived key lengths, block size, signature length, AES key size and the hash used for derivation and for the symmetric signature equal the Part 7 profile table", 5)
	c14FreshMode(c)
	c.Rule("C14.layout", "generateKeys slices the derived bytes at [0:sig], [sig:sig+enc], [sig+enc:sig+enc+iv] in the order signing, encryption, IV, and derives at least sig+enc+iv bytes", 3)

	n := 0
	for _, name := range sortedKeys(symTable) {
		want := symTable[name]
		f := fn(c, "uapolicy", "", name)
		if f == nil {
			continue
		}
		n++
		al := algoLiteral(f)
		if al == nil {
			c.Fatal("C14: no EncryptionAlgorithm literal in %s", name)
			continue
		}
		lf := litFields(al)
		local, remote := f.Params[0].Name(), f.Params[1].Name()
		type exp struct {
			member, field, part, secret, seed string
		}
		for _, e := range []exp{
			{"encrypt", "Secret", "encryption", remote, local}, {"encrypt", "IV", "iv", remote, local},
			{"signature", "Secret", "signing", remote, local},
			{"decrypt", "Secret", "encryption", local, remote}, {"decrypt", "IV", "iv", local, remote},
			{"verifySignature", "Secret", "signing", local, remote},
		} {
			_, mf := member(lf[e.member])
			kr, ok := resolveKeyRef(mf[e.field], gen)
			good := ok && kr.part == e.part && kr.secret == e.secret && kr.seed == e.seed
			detail := "generateKeys(HMAC{Secret: " + kr.secret + "}, seed " + kr.seed + ")." + kr.part
			if !ok {
				detail = "the key does not come from generateKeys"
			}
			c.Ob("C14.direction", "uapolicy."+name+"·"+e.member+"."+e.field, c.P.Pos(f.Pos()), good, detail+"; required: generateKeys(HMAC{Secret: "+e.secret+"}, seed "+e.seed+")."+e.part)
		}
		// the two key sets come from different calls
		_, ef := member(lf["encrypt"])
		_, df := member(lf["decrypt"])
		k1, ok1 := resolveKeyRef(ef["Secret"], gen)
		k2, ok2 := resolveKeyRef(df["Secret"], gen)
		c.Ob("C14.direction", "uapolicy."+name+"·send and receive key sets are distinct", c.P.Pos(f.Pos()), ok1 && ok2 && k1.call != k2.call, "encrypt and decrypt keys come from two different generateKeys calls: "+boolStr(ok1 && ok2 && k1.call != k2.call))
		// table
		var probs []string
		if ok1 {
			args := k1.call.Call.Args
			for i, w := range []int64{want.sigKey, want.encKey, want.block} {
				if k, ok := ssax.ConstInt(args[2+i]); !ok || k != w {
					probs = append(probs, []string{"signing key length", "encryption key length", "IV length"}[i]+" is "+fmtInt(int(k))+", profile says "+fmtInt(int(w)))
				}
			}
			if k1.hash != want.hash || k2.hash != want.hash {
				probs = append(probs, "derivation hash differs from the profile")
			}
		} else {
			probs = append(probs, "key derivation call not found")
		}
		for _, m := range []string{"signature", "verifySignature"} {
			_, mf := member(lf[m])
			if k, ok := ssax.ConstInt(mf["Hash"]); !ok || k != want.hash {
				probs = append(probs, m+" hash differs from the profile")
			}
		}
		for _, m := range []string{"encrypt", "decrypt"} {
			tn, mf := member(lf[m])
			if tn != "AES" {
				probs = append(probs, m+" is not AES")
			}
			if k, ok := ssax.ConstInt(mf["KeyLength"]); !ok || k != want.aesBits || k/8 != want.encKey {
				probs = append(probs, m+" AES key size "+fmtInt(int(k))+" bits does not match the derived key length")
			}
		}
		for _, fl := range []string{"signatureLength", "remoteSignatureLength"} {
			if k, ok := ssax.ConstInt(lf[fl]); !ok || k != want.sigLen {
				probs = append(probs, fl+" is "+fmtInt(int(k))+", profile says "+fmtInt(int(want.sigLen)))
			}
		}
		if k, ok := ssax.ConstInt(lf["blockSize"]); !ok || k != want.block {
			probs = append(probs, "blockSize differs")
		}
		if k, ok := ssax.ConstInt(lf["plainttextBlockSize"]); !ok || k != want.block {
			probs = append(probs, "plaintext block size differs")
		}
		c.Ob("C14.table", "uapolicy."+name+"·Part 7 parameters", c.P.Pos(f.Pos()), len(probs) == 0, orOK(strings.Join(probs, "; "), "all parameters equal the profile table"))
	}
	if n < 5 {
		c.Fatal("C14: only %d of 5 symmetric constructors found", n)
	}
	// layout of generateKeys
	{
		sig, enc, iv := genFn.Params[2], genFn.Params[3], genFn.Params[4]
		want := map[string][2]string{
			"signing":    {"", ssax.Path(sig)},
			"encryption": {ssax.Path(sig), "(" + ssax.Path(sig) + "+" + ssax.Path(enc) + ")"},
			"iv":         {"(" + ssax.Path(sig) + "+" + ssax.Path(enc) + ")", "((" + ssax.Path(sig) + "+" + ssax.Path(enc) + ")+" + ssax.Path(iv) + ")"},
		}
		for _, b := range genFn.Blocks {
			for _, in := range b.Instrs {
				al, ok := in.(*ssa.Alloc)
				if !ok {
					continue
				}
				if n := derefNamed(al.Type()); n == nil || n.Obj().Name() != "derivedKeys" {
					continue
				}
				for name, v := range litFields(al) {
					sl, ok := ssax.Strip(v).(*ssa.Slice)
					lo, hi := "", ""
					if ok {
						if sl.Low != nil {
							lo = ssax.Path(sl.Low)
						}
						if sl.High != nil {
							hi = ssax.Path(sl.High)
						}
					}
					w := want[name]
					good := ok && lo == w[0] && hi == w[1]
					c.Ob("C14.layout", "uapolicy.generateKeys·"+name+" = p["+w[0]+":"+w[1]+"]", c.P.Pos(genFn.Pos()), good, "slice is p["+lo+":"+hi+"]")
				}
			}
		}
		// loop condition: len(p) < sig+enc+iv
		// (in generateKeys or a private helper that receives the total as a parameter; `for len(p) < N` or
		// `for { if len(p) >= N { break } }`, operands in either order)
		okLoop := false
		total := want["iv"][1]
		for _, g := range withHelpers(genFn) {
			for _, cmp := range allCmps(g) {
				x, y, op := cmp.X, cmp.Y, cmp.Op
				if strings.HasPrefix(ssax.Path(y), "len(") {
					x, y, op = y, x, ssax.SwapOp(op)
				}
				if !strings.HasPrefix(ssax.Path(x), "len(") || (op != token.LSS && op != token.GEQ) {
					continue
				}
				if ssax.Path(y) == total {
					okLoop = true
				}
				if p, isP := ssax.Strip(y).(*ssa.Parameter); isP && g != genFn {
					idx := -1
					for i, q := range g.Params {
						if q == p {
							idx = i
						}
					}
					all, any := true, false
					for _, cs := range ssax.Calls(genFn) {
						if cs.Common().StaticCallee() == g && idx >= 0 && idx < len(cs.Common().Args) {
							any = true
							if ssax.Path(cs.Common().Args[idx]) != total {
								all = false
							}
						}
					}
					if all && any {
						okLoop = true
					}
				}
			}
		}
		c.Ob("C14.layout", "uapolicy.generateKeys·derives at least sig+enc+iv bytes", c.P.Pos(genFn.Pos()), okLoop, "loop runs while len(p) < sig+enc+iv: "+boolStr(okLoop))
	}
}

// Part 7 asymmetric parameters (bytes).
var asymTable = map[string]struct {
	min, max, nonce  int64
	encType, sigType string
	encHash, sigHash int64
	padding          string
}{
	"newBasic128Rsa15Asymmetric":       {128, 256, 16, "PKCS1v15", "PKCS1v15", 0, 3, "PKCS1v15MinPadding"},
	"newBasic256Asymmetric":            {128, 256, 32, "RSAOAEP", "PKCS1v15", 3, 3, "RSAOAEPMinPaddingSHA1"},
	"newBasic256Rsa256Asymmetric":      {256, 512, 32, "RSAOAEP", "PKCS1v15", 3, 5, "RSAOAEPMinPaddingSHA1"},
	"newAes128Sha256RsaOaepAsymmetric": {256, 512, 32, "RSAOAEP", "PKCS1v15", 3, 5, "RSAOAEPMinPaddingSHA1"},
	"newAes256Sha256RsaPssAsymmetric":  {256, 512, 32, "RSAOAEP", "RSAPSS", 5, 5, "RSAOAEPMinPaddingSHA256"},
}

func c15(c *core.Ctx) {
	initOwners(c)
	c.P.BuildSSA()
	c.Rule("C15.range", "every asymmetric constructor builds its algorithm only after both the local and the remote key passed `size < min || size > max` with an error return, and min/max equal the Part 7 limits (1024–2048 bit for Basic128Rsa15/Basic256, 2048–4096 bit for the SHA-256 policies)", 10)
	c.Rule("C15.members", "per policy: encrypt uses the remote public key, decrypt and signature the local private key, verifySignature the remote public key; the encryption scheme and hash are the same on both sides and equal the profile, likewise the signature scheme; block size = remote key size, plaintext block = remote key size minus the padding constant that the scheme's Encrypt uses; signature lengths = own / remote key size; nonce length per profile", 5)
	c.Rule("C15.hashfresh", "every digest in package uapolicy is computed with a hash object created in the same call (or Reset first): no hasher is kept in an algorithm object across Signature / Verify calls, where it would accumulate the bytes of earlier messages", 1)
	hashFreshRule(c, "C15.hashfresh")
	c.Rule("C15.blocks", "the block loops of RSAOAEP / PKCS1v15 Encrypt and Decrypt advance by a positive step: the minimum key size of every policy using the scheme exceeds the scheme's padding constant, Decrypt steps by the key size, and each loop assigns start = end", 4)

	pk := c.P.Lib["uapolicy"]
	constVal := func(name string) int64 {
		if k, ok := pk.Types.Scope().Lookup(name).(*types.Const); ok {
			if v, ok := ssax.ConstInt(ssa.NewConst(k.Val(), k.Type())); ok {
				return v
			}
		}
		return -1
	}
	for _, name := range sortedKeys(asymTable) {
		want := asymTable[name]
		f := fn(c, "uapolicy", "", name)
		if f == nil {
			continue
		}
		al := algoLiteral(f)
		if al == nil {
			c.Fatal("C15: no EncryptionAlgorithm literal in %s", name)
			continue
		}
		localKey, remoteKey := f.Params[0], f.Params[1]
		// range checks: facts at the literal allocation
		for _, t := range []struct {
			who string
			p   *ssa.Parameter
		}{{"local", localKey}, {"remote", remoteKey}} {
			lo, hi := int64(-1), int64(-1)
			// find the If blocks comparing Size() of this key and make sure both bound tests lead to an error return
			for _, b := range f.Blocks {
				ifi, ok := b.Instrs[len(b.Instrs)-1].(*ssa.If)
				if !ok {
					continue
				}
				cmp, neg, ok := ssax.AsCmp(ifi.Cond)
				if !ok {
					continue
				}
				// either operand order: `size < min` or `min > size`
				if _, constLeft := ssax.ConstInt(cmp.X); constLeft {
					cmp = ssax.Cmp{Op: ssax.SwapOp(cmp.Op), X: cmp.Y, Y: cmp.X}
				}
				call, ok := ssax.Strip(cmp.X).(*ssa.Call)
				if !ok {
					continue
				}
				cal := ssax.Callee(call)
				if cal == nil || cal.Name() != "Size" || !strings.Contains(ssax.Path(call), t.p.Name()) {
					continue
				}
				k, ok := ssax.ConstInt(cmp.Y)
				if !ok {
					continue
				}
				// an edge through which the literal cannot be reached enforces the negation of what holds on it
				tOp := cmp.Op
				if neg {
					tOp = ssax.NegOp(tOp)
				}
				for i, op := range []token.Token{tOp, ssax.NegOp(tOp)} {
					if len(b.Succs) != 2 || reachesAlloc(f, b, b.Succs[i], al) {
						continue
					}
					switch op {
					case token.LSS: // size < k is rejected: size >= k
						lo = k
					case token.LEQ:
						lo = k + 1
					case token.GTR: // size > k is rejected: size <= k
						hi = k
					case token.GEQ:
						hi = k - 1
					}
				}
			}
			ok := lo == want.min && hi == want.max
			c.Ob("C15.range", "uapolicy."+name+"·"+t.who+" key size limits", c.P.Pos(f.Pos()), ok, "enforced range "+fmtInt(int(lo))+"–"+fmtInt(int(hi))+" bytes; profile "+fmtInt(int(want.min))+"–"+fmtInt(int(want.max)))
		}
		// members
		lf := litFields(al)
		var probs []string
		chk := func(m, wantType, keyField string, wantKey *ssa.Parameter, wantHash int64) {
			tn, mf := member(lf[m])
			if tn != wantType {
				probs = append(probs, m+" is "+tn+", profile says "+wantType)
				return
			}
			if ssax.Strip(mf[keyField]) != ssa.Value(wantKey) {
				probs = append(probs, m+"."+keyField+" is not the "+wantKey.Name())
			}
			if wantHash != 0 {
				if k, ok := ssax.ConstInt(mf["Hash"]); !ok || k != wantHash {
					probs = append(probs, m+" hash differs from the profile")
				}
			}
		}
		chk("encrypt", want.encType, "PublicKey", remoteKey, want.encHash)
		chk("decrypt", want.encType, "PrivateKey", localKey, want.encHash)
		chk("signature", want.sigType, "PrivateKey", localKey, want.sigHash)
		chk("verifySignature", want.sigType, "PublicKey", remoteKey, want.sigHash)
		if k, ok := ssax.ConstInt(lf["nonceLength"]); !ok || k != want.nonce {
			probs = append(probs, "nonce length "+fmtInt(int(k))+", profile says "+fmtInt(int(want.nonce)))
		}
		// sizes
		var isSizeOf func(v ssa.Value, p *ssa.Parameter) bool
		isSizeOf = func(v ssa.Value, p *ssa.Parameter) bool {
			v = ssax.Strip(v)
			if phi, ok := v.(*ssa.Phi); ok {
				// `var n int; if key != nil { n = key.Size() }`
				found := false
				for _, e := range phi.Edges {
					if k, isK := ssax.ConstInt(e); isK && k == 0 {
						continue
					}
					if !isSizeOf(e, p) {
						return false
					}
					found = true
				}
				return found
			}
			s := ssax.Path(v)
			return strings.Contains(s, "Size(") && strings.Contains(s, p.Name())
		}
		if !isSizeOf(lf["blockSize"], remoteKey) {
			probs = append(probs, "blockSize is not the remote key size")
		}
		if !isSizeOf(lf["signatureLength"], localKey) {
			probs = append(probs, "signatureLength is not the local key size")
		}
		if !isSizeOf(lf["remoteSignatureLength"], remoteKey) {
			probs = append(probs, "remoteSignatureLength is not the remote key size")
		}
		if bo, ok := ssax.Strip(lf["plainttextBlockSize"]).(*ssa.BinOp); ok && bo.Op == token.SUB && isSizeOf(bo.X, remoteKey) {
			if k, ok := ssax.ConstInt(bo.Y); !ok || k != constVal(want.padding) {
				probs = append(probs, "plaintext block size subtracts "+fmtInt(int(k))+", the scheme's Encrypt uses "+want.padding+"="+fmtInt(int(constVal(want.padding))))
			}
		} else {
			probs = append(probs, "plaintext block size is not remote key size minus padding")
		}
		c.Ob("C15.members", "uapolicy."+name+"·members and sizes", c.P.Pos(f.Pos()), len(probs) == 0, orOK(strings.Join(probs, "; "), "all members equal the profile"))
		// min key size exceeds padding
		c.Ob("C15.blocks", "uapolicy."+name+"·min key size > "+want.padding, c.P.Pos(f.Pos()), want.min > constVal(want.padding) && constVal(want.padding) >= 0, "minimum key "+fmtInt(int(want.min))+" bytes, padding "+fmtInt(int(constVal(want.padding)))+": the encrypt block step is positive")
	}
	// block loops
	for _, t := range [][2]string{{"RSAOAEP", "Encrypt"}, {"RSAOAEP", "Decrypt"}, {"PKCS1v15", "Encrypt"}, {"PKCS1v15", "Decrypt"}} {
		f := fn(c, "uapolicy", t[0], t[1])
		if f == nil {
			continue
		}
		// the loop-carried `start` is assigned `end`, and end = start + step with step = Size() [- padding]
		good := false
		detail := "no block loop found"
		for _, b := range f.Blocks {
			for _, in := range b.Instrs {
				phi, ok := in.(*ssa.Phi)
				if !ok {
					continue // any loop-carried offset, whatever it is called
				}
				for _, e := range phi.Edges {
					// e is `end`: phi(start+step, len(src))
					ep, ok := e.(*ssa.Phi)
					if !ok {
						continue
					}
					for _, ee := range ep.Edges {
						if bo, ok := ee.(*ssa.BinOp); ok && bo.Op == token.ADD && bo.X == ssa.Value(phi) {
							step := ssax.Path(bo.Y)
							if strings.Contains(step, "Size(") {
								good = true
								detail = "start = end, end = start + " + step
							}
						}
					}
				}
			}
		}
		c.Ob("C15.blocks", "uapolicy.("+t[0]+")."+t[1]+"·block loop advances", c.P.Pos(f.Pos()), good, detail)
	}
}

// reachesAlloc: the allocation al is reachable when leaving block b through edge to.
func reachesAlloc(f *ssa.Function, b, to *ssa.BasicBlock, al *ssa.Alloc) bool {
	if len(to.Instrs) == 0 {
		return false
	}
	first := to.Instrs[0]
	if first == ssa.Instruction(al) {
		return true
	}
	r, _ := ssax.Reach(f, first, func(in ssa.Instruction) bool { return in == ssa.Instruction(al) }, nil, nil)
	return r
}

// pssSaltRule: RSA-PSS signatures are produced with a salt as long as the hash (Part 7, RSA-PSS-SHA2-256): every
// rsa.SignPSS call in uapolicy passes PSSOptions whose SaltLength is the constant rsa.PSSSaltLengthEqualsHash. The zero
// value means "as long as the key allows" in Go; the library's own Verify auto-detects the salt and would not notice,
// a conforming peer rejects the signature.
func pssSaltRule(c *core.Ctx, rule string) {
	var optsOf func(v ssa.Value, d int) []*ssa.Alloc
	optsOf = func(v ssa.Value, d int) []*ssa.Alloc {
		v = ssax.Strip(v)
		if d > 3 {
			return nil
		}
		switch x := v.(type) {
		case *ssa.Alloc:
			return []*ssa.Alloc{x}
		case *ssa.Call:
			if h := x.Call.StaticCallee(); h != nil && len(h.Blocks) > 0 {
				var out []*ssa.Alloc
				for _, r := range ssax.Returns(h) {
					if len(r.Results) > 0 {
						out = append(out, optsOf(ssax.RetVal(r, 0), d+1)...)
					}
				}
				return out
			}
		case *ssa.Phi:
			var out []*ssa.Alloc
			for _, e := range x.Edges {
				out = append(out, optsOf(e, d+1)...)
			}
			return out
		}
		return nil
	}
	n := 0
	for _, f := range libFns(c, "uapolicy") {
		for _, call := range ssax.Calls(f) {
			cal := ssax.Callee(call)
			if cal == nil || cal.Pkg() == nil || cal.Pkg().Path() != "crypto/rsa" || cal.Name() != "SignPSS" {
				continue
			}
			n++
			args := call.Common().Args
			opts := args[len(args)-1]
			allocs := optsOf(opts, 0)
			ok := len(allocs) > 0
			detail := "SaltLength = rsa.PSSSaltLengthEqualsHash"
			if len(allocs) == 0 {
				detail = "PSSOptions are nil or not a literal: Go then uses the maximum salt length, not the hash length"
			}
			for _, al := range allocs {
				v, has := litFields(al)["SaltLength"]
				k, isK := ssax.ConstInt(v)
				if !has || !isK || k != -1 {
					ok = false
					detail = "PSSOptions.SaltLength is not rsa.PSSSaltLengthEqualsHash (unset means PSSSaltLengthAuto = as long as the key allows)"
				}
			}
			c.Ob(rule, fname(f)+"·rsa.SignPSS salt length", pos(c, call), ok, detail)
		}
	}
	if n == 0 {
		c.Ob(rule, "uapolicy·rsa.SignPSS salt length", "-", false, "no rsa.SignPSS call found: the RSA-PSS suite is not implemented with crypto/rsa any more")
	}
}

// hashFreshRule: a digest covers the bytes of this call only. Every Write on a hash.Hash in package uapolicy (also in
// crypto_key's P_SHA helper) goes to a hash object that was created in the same function activation (the result of a
// call such as crypto.Hash.New() or hmac.New(...)) — not to one that lives in a struct field or a package variable across
// calls, unless a Reset() on that value dominates the Write. A hasher kept in the algorithm object makes the second
// signature cover msg1||msg2: it verifies for bytes that were never signed and fails for the bytes that were.
// hashFreshValue: is v, on every path, a hash object made by a constructor call within this call tree? A call of a
// function of this module counts only when each of its own results is fresh (an accessor that hands out a hasher kept
// in a field is not a constructor); a call that leaves the module (crypto.Hash.New, sha256.New, hmac.New) creates one.
func hashFreshValue(v ssa.Value, depth int) (bool, string) {
	fresh := false
	for _, o := range ssax.Origins(v, nil, 0) {
		switch {
		case o.Field != nil || o.Global != nil || o.Param != nil:
			return false, o.String()
		case o.Call != nil || o.CallV != nil:
			var callee *ssa.Function
			if cl, ok := o.CallV.(*ssa.Call); ok {
				callee = cl.Common().StaticCallee()
			}
			if callee != nil && len(callee.Blocks) > 0 && callee.Pkg != nil && strings.HasPrefix(callee.Pkg.Pkg.Path(), "github.com/gopcua/opcua") {
				if depth >= 4 {
					return false, "call " + callee.String() + " (depth)"
				}
				idx := 0
				if ex, ok := ssax.Strip(v).(*ssa.Extract); ok {
					idx = ex.Index
				}
				for _, r := range ssax.Returns(callee) {
					if idx >= len(r.Results) {
						continue
					}
					if ok, w := hashFreshValue(r.Results[idx], depth+1); !ok {
						return false, "result of " + callee.String() + ": " + w
					}
				}
			}
			fresh = true
		}
	}
	return fresh, ""
}

func hashFreshRule(c *core.Ctx, rule string) {
	n := 0
	for _, f := range libFns(c, "uapolicy") {
		for _, call := range ssax.Calls(f) {
			cc := call.Common()
			if !cc.IsInvoke() || cc.Method.Name() != "Write" {
				continue
			}
			nt, ok := cc.Value.Type().(*types.Named)
			if !ok || nt.Obj().Pkg() == nil || nt.Obj().Pkg().Path() != "hash" {
				continue
			}
			n++
			fresh, where := hashFreshValue(cc.Value, 0)
			if where == "" {
				where = ssax.Path(cc.Value)
			}
			reset := false
			for _, c2 := range ssax.Calls(f) {
				if c2.Common().IsInvoke() && c2.Common().Method.Name() == "Reset" && ssax.Path(c2.Common().Value) == ssax.Path(cc.Value) && ssax.Dominates(c2, call) {
					reset = true
				}
			}
			c.Ob(rule, fname(f)+"·hash.Write target", pos(c, call), fresh || reset, "the hash object is created in this call (or Reset before use): "+boolStr(fresh || reset)+" — "+where)
		}
	}
	c.Count("hash.Hash Write sites in uapolicy", n)
}
