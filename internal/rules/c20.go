package rules

import (
	"go/types"

	"golang.org/x/tools/go/ssa"

	"verif/internal/core"
	"verif/internal/ssax"
)

func init() { register("C20", c20) }

// freshBytes: v is storage allocated in this function activation (make, array
// literal, nil, or a slice / append chain rooted at such storage).
func freshBytes(v ssa.Value, seen map[ssa.Value]bool) bool {
	v = ssax.Strip(v)
	if seen[v] {
		return true
	}
	seen[v] = true
	switch x := v.(type) {
	case *ssa.MakeSlice:
		return true
	case *ssa.Alloc:
		return true
	case *ssa.Const:
		return x.Value == nil
	case *ssa.Slice:
		return freshBytes(x.X, seen)
	case *ssa.Phi:
		for _, e := range x.Edges {
			if !freshBytes(e, seen) {
				return false
			}
		}
		return true
	case *ssa.Call:
		if ssax.IsBuiltin(x, "append") {
			return freshBytes(x.Call.Args[0], seen)
		}
		// results of decrypt/encode helpers are new storage produced by the callee
		return false
	case *ssa.UnOp:
		if al, ok := x.X.(*ssa.Alloc); ok {
			// a local variable: every value stored into it must be fresh
			if refs := al.Referrers(); refs != nil {
				any := false
				for _, r := range *refs {
					if st, ok := r.(*ssa.Store); ok && st.Addr == al {
						any = true
						if !freshBytes(st.Val, seen) {
							return false
						}
					}
				}
				return any
			}
		}
	}
	return false
}

func c20(c *core.Ctx) {
	initOwners(c)
	recvFn := fn(c, "uacp", "Conn", "Receive")
	if recvFn == nil {
		return
	}
	c.Rule("C20.fresh", "the frame returned by Conn.Receive is storage allocated in that call and is not retained by package uacp: the buffer is not stored into a field, package variable or channel, and no sync.Pool / reusable buffer exists in uacp, uasc or ua", 3)
	c.Rule("C20.nowrite", "on the receive path (Conn.Receive → readChunk → verifyAndDecrypt → mergeChunks → DecodeService) every write into a byte slice — element store, copy destination, append base, binary.Put*, io.ReadFull destination — targets storage allocated in the same function activation, never a parameter, a field or a received frame", 5)

	// fresh
	{
		var mk *ssa.MakeSlice
		for _, b := range recvFn.Blocks {
			for _, in := range b.Instrs {
				if m, ok := in.(*ssa.MakeSlice); ok && byteSlice(m) {
					mk = m
				}
			}
		}
		c.Ob("C20.fresh", fname(recvFn)+"·buffer is a make() of this call", c.P.Pos(recvFn.Pos()), mk != nil, "per-call allocation: "+boolStr(mk != nil))
		retained := ""
		if mk != nil {
			var walk func(v ssa.Value, d int)
			seen := map[ssa.Value]bool{}
			walk = func(v ssa.Value, d int) {
				if d > 6 || seen[v] {
					return
				}
				seen[v] = true
				refs := v.Referrers()
				if refs == nil {
					return
				}
				for _, r := range *refs {
					switch u := r.(type) {
					case *ssa.Store:
						if u.Val == v {
							switch u.Addr.(type) {
							case *ssa.FieldAddr, *ssa.Global:
								retained = "stored into " + ssax.Path(u.Addr)
							}
						}
					case *ssa.Send:
						if u.X == v {
							retained = "sent on a channel"
						}
					case *ssa.MapUpdate:
						if u.Value == v {
							retained = "stored into a map"
						}
					case *ssa.Slice:
						walk(u, d+1)
					case *ssa.Phi:
						walk(u, d+1)
					}
				}
			}
			walk(mk, 0)
		}
		c.Ob("C20.fresh", fname(recvFn)+"·buffer is not retained", c.P.Pos(recvFn.Pos()), retained == "", orOK(retained, "the buffer only flows to the reads and to the return value"))
		// no pools / byte-slice fields in Conn
		pool := ""
		for _, f := range libFns(c, "uacp", "uasc", "ua") {
			for _, call := range ssax.Calls(f) {
				if cal := ssax.Callee(call); cal != nil && cal.Pkg() != nil && cal.Pkg().Path() == "sync" {
					if sig, ok := cal.Type().(*types.Signature); ok && sig.Recv() != nil {
						if n := derefNamed(sig.Recv().Type()); n != nil && n.Obj().Name() == "Pool" {
							pool = fname(f) + " uses sync.Pool"
						}
					}
				}
			}
		}
		connT := c.P.Named("uacp", "Conn")
		if st, ok := connT.Underlying().(*types.Struct); ok {
			for i := 0; i < st.NumFields(); i++ {
				if sl, ok := st.Field(i).Type().Underlying().(*types.Slice); ok {
					if b, ok := sl.Elem().Underlying().(*types.Basic); ok && b.Kind() == types.Uint8 {
						pool = "uacp.Conn has a []byte field " + st.Field(i).Name() + " (a reusable buffer)"
					}
				}
			}
		}
		c.Ob("C20.fresh", "uacp/uasc/ua·no pooled or per-connection receive buffer", "-", pool == "", orOK(pool, "no sync.Pool and no []byte field on the connection"))
	}
	// nowrite
	{
		fns := recvPathFns(c)
		if !containsFn(fns, recvFn) {
			fns = append(fns, recvFn)
		}
		n := 0
		for _, f := range fns {
			for _, b := range f.Blocks {
				for _, in := range b.Instrs {
					var target ssa.Value
					what := ""
					switch x := in.(type) {
					case *ssa.Store:
						if ia, ok := x.Addr.(*ssa.IndexAddr); ok && byteSlice(ia.X) {
							target, what = ia.X, "element store"
						}
					case *ssa.Call:
						switch {
						case ssax.IsBuiltin(x, "copy") && byteSlice(x.Call.Args[0]):
							target, what = x.Call.Args[0], "copy destination"
						case ssax.IsBuiltin(x, "append") && byteSlice(x.Call.Args[0]):
							target, what = x.Call.Args[0], "append base"
						default:
							if cal := ssax.Callee(x); cal != nil && cal.Pkg() != nil {
								full := cal.Pkg().Path() + "." + cal.Name()
								args := x.Call.Args
								switch {
								case cal.Pkg().Path() == "encoding/binary" && len(cal.Name()) > 3 && cal.Name()[:3] == "Put":
									target, what = args[len(args)-2], "binary."+cal.Name()+" destination"
								case full == "io.ReadFull":
									target, what = args[1], "io.ReadFull destination"
								}
							}
						}
					}
					if target == nil {
						continue
					}
					n++
					ok := freshBytes(target, map[ssa.Value]bool{})
					c.Ob("C20.nowrite", fname(f)+"·"+what+" "+ssax.Path(target), pos(c, in), ok, "target is storage allocated in this activation: "+boolStr(ok)+" — a write into a received frame (or a caller's buffer) changes bytes that already-delivered messages alias")
				}
			}
		}
		c.Count("byte-slice write sites on the receive path", n)
	}
}

func containsFn(fs []*ssa.Function, f *ssa.Function) bool {
	for _, x := range fs {
		if x == f {
			return true
		}
	}
	return false
}
