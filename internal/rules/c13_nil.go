package rules

import (
	"go/token"
	"go/types"
	"sort"

	"golang.org/x/tools/go/ssa"

	"verif/internal/core"
	"verif/internal/ssax"
)

// c13Nil: state of the channel that may be absent is tested before it is used on the receive path.
//
// "May be absent" is taken from the code, not from a list: a pointer-typed field of SecureChannel, channelInstance or
// uacp.Conn that some library function sets to nil or compares with nil. The rule is Engler's contradiction rule,
// applied per function: a receive-path function that itself tests such a field for nil states the belief that it can
// be nil there (readChunk is shared by client channels, whose openingInstance is reset after Open, and server
// channels, where it never is — a function without the test, like the server-only handleOpenSecureChannelRequest,
// states no such belief and is not judged). In such a function every dereference of a load of that field (field access
// through it, call of a method that uses its receiver) must be dominated by a comparison that excludes nil — of the
// same load or of another load of the same access path. A test placed after the first use is the violation. The rule
// floor keeps the tests themselves from being deleted unnoticed.
func c13Nil(c *core.Ctx, fns []*ssa.Function) {
	c.Rule("C13.nil", "on the uasc/uacp receive path every dereference of a channel field that the library itself resets to nil or tests for nil (SecureChannel.openingInstance, activeInstance, …) is dominated by a test that excludes nil: a peer that sends a message in an unexpected state (an OPN after the channel is open) gets an error, not a nil-pointer panic in the dispatcher goroutine", 2)
	owners := map[*types.Named]bool{}
	for _, n := range [][2]string{{"uasc", "SecureChannel"}, {"uasc", "channelInstance"}, {"uacp", "Conn"}} {
		if t := c.P.Named(n[0], n[1]); t != nil {
			owners[t] = true
		}
	}
	// nil-able fields
	nilable := map[*types.Var]string{}
	for _, f := range libFns(c, "uasc", "uacp") {
		for _, b := range f.Blocks {
			for _, in := range b.Instrs {
				switch x := in.(type) {
				case *ssa.Store:
					fa, ok := x.Addr.(*ssa.FieldAddr)
					if !ok || !ssax.IsNil(x.Val) {
						continue
					}
					if o := derefNamed(fa.X.Type()); o != nil && owners[o] {
						fl := fieldOf(fa)
						if _, isPtr := fl.Type().Underlying().(*types.Pointer); isPtr {
							nilable[fl] = "set to nil in " + fname(f)
						}
					}
				case *ssa.BinOp:
					if x.Op != token.EQL && x.Op != token.NEQ {
						continue
					}
					v := x.X
					if ssax.IsNil(v) {
						v = x.Y
					} else if !ssax.IsNil(x.Y) {
						continue
					}
					ld := loadedField(ssax.Strip(v))
					if ld.f == nil {
						continue
					}
					if _, isPtr := ld.f.Type().Underlying().(*types.Pointer); !isPtr {
						continue
					}
					if o := derefNamed(ld.base.Type()); o != nil && owners[o] {
						if _, have := nilable[ld.f]; !have {
							nilable[ld.f] = "compared with nil in " + fname(f)
						}
					}
				}
			}
		}
	}
	var names []string
	for f, why := range nilable {
		names = append(names, ssax.FieldString(f)+" ("+why+")")
	}
	sort.Strings(names)
	c.Note("nil-able channel fields: " + joinS(names))
	n := 0
	for _, f := range fns {
		// the fields this very function tests for nil (directly or through a local copy of the load)
		tested := map[*types.Var]bool{}
		for _, b := range f.Blocks {
			for _, in := range b.Instrs {
				bo, ok := in.(*ssa.BinOp)
				if !ok || (bo.Op != token.EQL && bo.Op != token.NEQ) {
					continue
				}
				v := bo.X
				if ssax.IsNil(v) {
					v = bo.Y
				} else if !ssax.IsNil(bo.Y) {
					continue
				}
				if ld := loadedField(ssax.Strip(v)); ld.f != nil {
					tested[ld.f] = true
				}
			}
		}
		// a private helper inherits the beliefs of its callers: the test may sit in front of the call
		for _, k := range ipCallers(f) {
			if o := f.Object(); o == nil || o.Exported() {
				break
			}
			for _, b := range k.Blocks {
				for _, in := range b.Instrs {
					bo, ok := in.(*ssa.BinOp)
					if !ok || (bo.Op != token.EQL && bo.Op != token.NEQ) {
						continue
					}
					v := bo.X
					if ssax.IsNil(v) {
						v = bo.Y
					} else if !ssax.IsNil(bo.Y) {
						continue
					}
					if ld := loadedField(ssax.Strip(v)); ld.f != nil {
						tested[ld.f] = true
					}
				}
			}
		}
		for _, b := range f.Blocks {
			for _, in := range b.Instrs {
				// a dereference: FieldAddr / method call whose base is a load of a nil-able field
				var base ssa.Value
				how := ""
				switch x := in.(type) {
				case *ssa.FieldAddr:
					base, how = x.X, "field "+fieldOf(x).Name()
				case ssa.CallInstruction:
					cc := x.Common()
					if cc.IsInvoke() || len(cc.Args) == 0 {
						continue
					}
					sf := cc.StaticCallee()
					if sf == nil || sf.Signature.Recv() == nil {
						continue
					}
					if _, isPtr := sf.Signature.Recv().Type().(*types.Pointer); !isPtr {
						continue
					}
					if !derefsReceiver(sf) {
						continue
					}
					base, how = cc.Args[0], "method "+sf.Name()
				default:
					continue
				}
				ld := loadedField(ssax.Strip(base))
				if ld.f == nil {
					continue
				}
				if _, is := nilable[ld.f]; !is || !tested[ld.f] {
					continue
				}
				n++
				path := ssax.Path(ssax.Strip(base))
				ok := false
				for _, fact := range ssax.FactsAt(in) {
					if fact.Op != token.NEQ {
						continue
					}
					v := fact.X
					if ssax.IsNil(v) {
						v = fact.Y
					} else if !ssax.IsNil(fact.Y) {
						continue
					}
					if ssax.Strip(v) == ssax.Strip(base) || ssax.Path(ssax.Strip(v)) == path {
						ok = true
					}
				}
				detail := "dominated by a nil test of " + path
				if !ok {
					detail = path + " (" + nilable[ld.f] + ") is dereferenced (" + how + ") on a path where no comparison has excluded nil"
				}
				c.Ob("C13.nil", fname(f)+"·"+path+"·"+how, pos(c, in), ok, detail)
			}
		}
	}
	c.Count("dereferences of nil-able channel fields on the receive path", n)
}

// derefsReceiver: the method reads or writes through its receiver on some path (it is not nil-receiver safe).
func derefsReceiver(f *ssa.Function) bool {
	if len(f.Params) == 0 {
		return false
	}
	recv := f.Params[0]
	refs := recv.Referrers()
	if refs == nil {
		return false
	}
	for _, r := range *refs {
		switch x := r.(type) {
		case *ssa.FieldAddr:
			if x.X == recv {
				return true
			}
		case *ssa.UnOp:
			if x.X == recv && x.Op == token.MUL {
				return true
			}
		case ssa.CallInstruction:
			return true // passed on: assume used
		case *ssa.Store:
			// spilled receiver (captured by a closure): assume used
			return true
		}
	}
	return false
}
