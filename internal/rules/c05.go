package rules

import (
	"go/token"
	"go/types"

	"golang.org/x/tools/go/ssa"

	"verif/internal/core"
	"verif/internal/ssax"
)

func init() { register("C05", c05) }

// installMinLenHook: slices returned by (*uacp.Conn).Receive on its err==nil
// path have at least the length proven at Receive's own returns.
func installMinLenHook(c *core.Ctx) int64 {
	recvFn := fn(c, "uacp", "Conn", "Receive")
	if recvFn == nil {
		return -1
	}
	min, ok := ssax.ResultMinLen(recvFn)
	if !ok {
		min = -1
	}
	recvObj := recvFn.Object()
	ssax.MinLenHook = func(s ssa.Value, facts []ssax.Fact) (int64, bool) {
		s = ssax.Strip(s)
		ex, ok := s.(*ssa.Extract)
		if !ok || ex.Index != 0 {
			return 0, false
		}
		call, ok := ex.Tuple.(*ssa.Call)
		if !ok || ssax.Callee(call) != recvObj || min < 0 {
			return 0, false
		}
		// only on the err == nil path of that call
		ev := errResult(call)
		for _, f := range facts {
			if f.Op == token.EQL && ssax.IsNil(f.Y) && denotes(f.X, ev) {
				return min, true
			}
		}
		return 0, false
	}
	// capacity: the frame is a prefix of a buffer of ReceiveBufSize bytes; when every
	// Acknowledge installed from the wire was validated against a lower bound, and the
	// local defaults are constants, that bound is a lower bound of cap(frame)
	ackF := c.P.Field("uacp", "Conn", "ack")
	rbs := c.P.Field("uacp", "Acknowledge", "ReceiveBufSize")
	capMin := int64(-1)
	if ackF != nil && rbs != nil {
		capMin = ackLowerBound(c, ackF, rbs)
	}
	ssax.MinCapHook = func(s ssa.Value, facts []ssax.Fact) (int64, bool) {
		s = ssax.Strip(s)
		ex, ok := s.(*ssa.Extract)
		if !ok || ex.Index != 0 || capMin < 0 {
			return 0, false
		}
		call, ok := ex.Tuple.(*ssa.Call)
		if !ok || ssax.Callee(call) != recvObj {
			return 0, false
		}
		ev := errResult(call)
		for _, f := range facts {
			if f.Op == token.EQL && ssax.IsNil(f.Y) && denotes(f.X, ev) {
				return capMin, true
			}
		}
		return 0, false
	}
	return min
}

// ackLowerBound: the smallest lower bound k such that every wire-derived
// Acknowledge installed into Conn.ack satisfies ReceiveBufSize >= k (-1 if one is unchecked).
func ackLowerBound(c *core.Ctx, ackF, rbs *types.Var) int64 {
	best := int64(-1)
	stores := wireAckStores(c, ackF)
	for _, st := range stores {
		k := int64(-1)
		for _, fact := range ssax.FactsAt(st) {
			if ld := loadedField(fact.X); ld.f == rbs && ssax.Strip(ld.base) == ssax.Strip(st.Val) {
				if n, ok := ssax.ConstInt(fact.Y); ok {
					if fact.Op == token.GEQ && n > k {
						k = n
					}
					if fact.Op == token.GTR && n+1 > k {
						k = n + 1
					}
				}
			}
		}
		if k < 0 {
			return -1
		}
		if best < 0 || k < best {
			best = k
		}
	}
	return best
}

func c05(c *core.Ctx) {
	initOwners(c)
	recvFn := fn(c, "uacp", "Conn", "Receive")
	handshake := fn(c, "uacp", "Conn", "Handshake")
	srvhs := fn(c, "uacp", "Conn", "srvhandshake")
	msgSize := field(c, "uacp", "Header", "MessageSize")
	rbs := field(c, "uacp", "Acknowledge", "ReceiveBufSize")
	ackF := field(c, "uacp", "Conn", "ack")
	hdrDecode := obj(c, "uacp", "Header", "Decode")
	if recvFn == nil || handshake == nil || srvhs == nil || msgSize == nil || rbs == nil || ackF == nil || hdrDecode == nil {
		return
	}
	hdrlen := constOf(c, "uacp", "hdrlen")
	if hdrlen == nil {
		return
	}
	minLen := installMinLenHook(c)
	defer func() { ssax.MinLenHook = nil; ssax.MinCapHook = nil }()

	c.Rule("C05.reader", "the only reads from the connection in packages uacp, uasc, opcua and server are io.ReadFull calls inside (*uacp.Conn).Receive (frame boundaries depend on the declared size only, never on TCP segmentation)", 2)
	c.Rule("C05.shape", "Receive reads exactly b[:hdrlen], decodes that header, and then reads exactly b[hdrlen:MessageSize]; both size checks (MessageSize > ReceiveBufSize, MessageSize < hdrlen) lie between the two reads with error returns on their failing edges; every non-nil result is b[:MessageSize] of the buffer allocated in this call and is returned only after the body read succeeded", 5)
	c.Rule("C05.bounds", "every slice expression in Receive, Handshake and srvhandshake is in bounds for all frames: variable bounds are dominated by the comparisons that justify them, constant bounds by the proven minimum length of a received frame, and the receive buffer is at least hdrlen long", 6)
	c.Rule("C05.accept", "Receive delivers every frame from the 8-byte header-only frame up to the negotiated buffer size: its size tests reject exactly MessageSize > ReceiveBufSize and MessageSize < hdrlen (C06.accept applies verbatim)", 2)
	c06Accept(c, "C05.accept")
	c.Rule("C05.ack", "an Acknowledge taken from the wire is installed as the connection's parameters only after its buffer sizes were compared with a lower bound (the receive buffer is allocated with that size and sliced at hdrlen)", 1)

	// reader
	{
		n := 0
		for _, f := range libFns(c, "uacp", "uasc", "opcua", "server") {
			for _, call := range ssax.Calls(f) {
				cal := ssax.Callee(call)
				if cal == nil || cal.Pkg() == nil {
					continue
				}
				full := cal.Pkg().Path() + "." + cal.Name()
				isConnRead := false
				switch full {
				case "io.ReadFull", "io.ReadAtLeast", "io.ReadAll", "io.Copy", "io.CopyN", "bufio.NewReader":
					// reading from a connection?
					if len(call.Common().Args) > 0 && readsConn(call.Common().Args[0]) || (len(call.Common().Args) > 1 && readsConn(call.Common().Args[1])) {
						isConnRead = true
					}
				}
				if cal.Name() == "Read" && cal.Type().(*types.Signature).Recv() != nil {
					recvT := cal.Type().(*types.Signature).Recv().Type().String()
					if recvT == "*net.TCPConn" || recvT == "*net.conn" || recvT == "net.Conn" {
						isConnRead = true
					}
				}
				if !isConnRead {
					continue
				}
				n++
				ok := f == recvFn && full == "io.ReadFull"
				c.Ob("C05.reader", fname(f)+"·"+full, pos(c, call), ok, "connection read through io.ReadFull inside Receive: "+boolStr(ok))
			}
		}
		_ = n
	}
	// shape
	{
		var reads []ssa.CallInstruction
		for _, call := range ssax.Calls(recvFn) {
			if cal := ssax.Callee(call); cal != nil && cal.Pkg() != nil && cal.Pkg().Path() == "io" && cal.Name() == "ReadFull" {
				reads = append(reads, call)
			}
		}
		if len(reads) != 2 {
			c.Ob("C05.shape", fname(recvFn)+"·two ReadFull calls", c.P.Pos(recvFn.Pos()), false, "expected a header read and a body read, found "+fmtInt(len(reads)))
		} else {
			r1, r2 := reads[0], reads[1]
			if !ssax.Dominates(r1, r2) {
				r1, r2 = r2, r1
			}
			// header read: b[:hdrlen]
			s1, ok1 := ssax.Strip(r1.Common().Args[1]).(*ssa.Slice)
			okHdr := false
			if ok1 && s1.Low == nil && s1.High != nil {
				if k, ok := ssax.ConstInt(s1.High); ok && k == *hdrlen {
					okHdr = true
				}
			}
			c.Ob("C05.shape", fname(recvFn)+"·header read is b[:hdrlen]", pos(c, r1), okHdr, "first ReadFull fills exactly the "+fmtInt(int(*hdrlen))+"-byte header: "+boolStr(okHdr))
			// decode between
			var dec ssa.CallInstruction
			for _, call := range ssax.CallsTo(recvFn, hdrDecode) {
				dec = call
			}
			okDec := dec != nil && ssax.Dominates(r1, dec) && ssax.Dominates(dec, r2) && okEdge(dec, r1)
			c.Ob("C05.shape", fname(recvFn)+"·header decoded between the reads", pos(c, r2), okDec, "ReadFull(hdr) err==nil → Header.Decode → body read: "+boolStr(okDec))
			// body read: b[hdrlen:MessageSize] with both facts
			s2, ok2 := ssax.Strip(r2.Common().Args[1]).(*ssa.Slice)
			okBody := false
			detail := "second ReadFull does not fill b[hdrlen:MessageSize]"
			if ok2 && s2.Low != nil && s2.High != nil && ok1 && ssax.Strip(s2.X) == ssax.Strip(s1.X) {
				lo, lok := ssax.ConstInt(s2.Low)
				hiField := loadedField(s2.High).f == msgSize
				if lok && lo == *hdrlen && hiField {
					le, ge := false, false
					for _, f := range ssax.FactsAt(r2) {
						x, y, op := f.X, f.Y, f.Op
						if loadedField(y).f == msgSize {
							x, y, op = y, x, ssax.SwapOp(op) // written as `bound op MessageSize`
						}
						if loadedField(x).f == msgSize && loadedField(y).f == rbs && (op == token.LEQ || op == token.LSS) {
							le = true
						}
						if loadedField(x).f == msgSize {
							if k, ok := ssax.ConstInt(y); ok && ((op == token.GEQ && k >= *hdrlen) || (op == token.GTR && k >= *hdrlen-1)) {
								ge = true
							}
						}
					}
					okBody = le && ge
					detail = "MessageSize <= ReceiveBufSize established: " + boolStr(le) + "; MessageSize >= hdrlen established: " + boolStr(ge)
				}
			}
			c.Ob("C05.shape", fname(recvFn)+"·body read is b[hdrlen:MessageSize] after both size checks", pos(c, r2), okBody, detail)
			// returns
			mk, _ := ssax.Strip(s1.X).(*ssa.MakeSlice)
			for _, ret := range ssax.Returns(recvFn) {
				v := ssax.RetVal(ret, 0)
				if ssax.IsNil(v) {
					continue
				}
				sl, ok := ssax.Strip(v).(*ssa.Slice)
				good := ok && sl.Low == nil && sl.High != nil && loadedField(sl.High).f == msgSize && mk != nil && ssax.Strip(sl.X) == ssa.Value(mk) && okEdge(ret, r2)
				c.Ob("C05.shape", fname(recvFn)+"·returns b[:MessageSize] after the body read", pos(c, ret), good, "whole frame of this call's buffer, after ReadFull(body) err==nil: "+boolStr(good))
			}
			// no return of data between the two reads
			c.Ob("C05.shape", fname(recvFn)+"·buffer allocated per call", pos(c, r1), mk != nil, "buffer is a make() of this activation: "+boolStr(mk != nil))
		}
	}
	// bounds
	{
		for _, f := range []*ssa.Function{recvFn, handshake, srvhs} {
			for _, site := range ssax.CheckBounds(f, func(s ssa.Value) bool {
				_, isBytes := s.Type().Underlying().(*types.Slice)
				return isBytes
			}) {
				if len(site.Issues) == 0 {
					c.Ob("C05.bounds", fname(f)+"·"+site.Expr, pos(c, site.At), true, "in bounds")
					continue
				}
				for _, is := range site.Issues {
					// the receive buffer itself: its size is the negotiated ReceiveBufSize, whose
					// lower bound is C05.ack's obligation (validated when the peer's ACK is installed)
					if sl, ok := site.At.(*ssa.Slice); ok && is.Kind == "upper" {
						if mk, ok := ssax.Strip(sl.X).(*ssa.MakeSlice); ok && loadedField(mk.Len).f == rbs {
							if k, ok := ssax.ConstInt(sl.High); ok && k <= *hdrlen {
								c.Ob("C05.bounds", fname(f)+"·"+site.Expr+" (receive buffer >= hdrlen)", pos(c, site.At), ackValidated(c, ackF, rbs, *hdrlen), "the buffer has ReceiveBufSize bytes; every Acknowledge installed from the wire was checked against a lower bound >= hdrlen (C05.ack)")
								continue
							}
						}
					}
					c.Ob("C05.bounds", fname(f)+"·"+site.Expr+" ("+is.Kind+")", pos(c, site.At), false, "needs "+is.Need+", which no dominating comparison establishes")
				}
			}
		}
		c.Note("proven minimum length of a frame returned by Receive: %d", minLen)
		c.Ob("C05.bounds", fname(recvFn)+"·returned frame has at least hdrlen bytes", c.P.Pos(recvFn.Pos()), minLen >= *hdrlen, "post-condition len(result) >= "+fmtInt(int(minLen))+" (callers slice at hdrlen)")
	}
	// ack
	for _, st := range wireAckStores(c, ackF) {
		lower := ackStoreValidated(st, rbs, *hdrlen)
		c.Ob("C05.ack", fname(st.Parent())+"·c.ack = decoded Acknowledge", pos(c, st), lower, "ReceiveBufSize of the peer's ACK compared with a lower bound >= hdrlen before it sizes the receive buffer: "+boolStr(lower))
	}
}

// wireAckStores: stores to Conn.ack of a value that was filled by a Decode call.
func wireAckStores(c *core.Ctx, ackF *types.Var) []*ssa.Store {
	var out []*ssa.Store
	for _, f := range libFns(c, "uacp") {
		for _, a := range ssax.FieldAccesses(f, ackF) {
			st, ok := a.Use.(*ssa.Store)
			if !ok || a.Kind != ssax.Write {
				continue
			}
			for _, call := range ssax.Calls(f) {
				if cal := ssax.Callee(call); cal != nil && cal.Name() == "Decode" && len(call.Common().Args) > 0 && ssax.Strip(call.Common().Args[0]) == ssax.Strip(st.Val) {
					out = append(out, st)
					break
				}
			}
		}
	}
	return out
}

func ackStoreValidated(st *ssa.Store, rbs *types.Var, hdrlen int64) bool {
	for _, fact := range ssax.FactsAt(st) {
		if ld := loadedField(fact.X); ld.f == rbs && ssax.Strip(ld.base) == ssax.Strip(st.Val) {
			if k, ok := ssax.ConstInt(fact.Y); ok && ((fact.Op == token.GEQ && k >= hdrlen) || (fact.Op == token.GTR && k >= hdrlen-1)) {
				return true
			}
		}
	}
	return false
}

func ackValidated(c *core.Ctx, ackF, rbs *types.Var, hdrlen int64) bool {
	stores := wireAckStores(c, ackF)
	for _, st := range stores {
		if !ackStoreValidated(st, rbs, hdrlen) {
			return false
		}
	}
	return len(stores) > 0
}

// readsConn: v is (a wrapper of) a network connection.
func readsConn(v ssa.Value) bool {
	t := ssax.Strip(v).Type().String()
	switch t {
	case "*github.com/gopcua/opcua/uacp.Conn", "*net.TCPConn", "net.Conn":
		return true
	}
	return false
}
