package rules

import (
	"go/ast"
	"go/token"
	"go/types"
	"sort"
	"strings"
	"verif/internal/lockset"

	"golang.org/x/tools/go/ssa"

	"verif/internal/core"
	"verif/internal/ssax"
)

func init() { register("C25", c25); register("C26", c26); register("C27", c27) }

// goRoots returns the targets of all `go` statements in the given packages.
type goRoot struct {
	fn   *ssa.Function
	site *ssa.Go
	in   *ssa.Function
}

func goRoots(c *core.Ctx, shorts ...string) []goRoot {
	var out []goRoot
	for _, f := range libFns(c, shorts...) {
		for _, call := range ssax.Calls(f) {
			g, ok := call.(*ssa.Go)
			if !ok {
				continue
			}
			t := g.Call.StaticCallee()
			if t == nil {
				if mc, ok := g.Call.Value.(*ssa.MakeClosure); ok {
					t, _ = mc.Fn.(*ssa.Function)
				}
			}
			if t == nil || t.Blocks == nil {
				continue
			}
			out = append(out, goRoot{t, g, f})
		}
	}
	sort.Slice(out, func(i, j int) bool { return out[i].site.Pos() < out[j].site.Pos() })
	return out
}

// shutdownChan classifies a channel expression as a shutdown signal or a timer.
func shutdownChan(v ssa.Value) string {
	v = ssax.Strip(v)
	if call, ok := v.(*ssa.Call); ok {
		cal := ssax.Callee(call)
		if cal != nil && cal.Name() == "Done" {
			return "ctx.Done()"
		}
		if cal != nil && cal.Pkg() != nil && cal.Pkg().Path() == "time" && (cal.Name() == "After" || cal.Name() == "Tick") {
			return "timer"
		}
	}
	if ld := loadedField(v); ld.f != nil {
		switch ld.f.Name() {
		case "closing", "disconnected", "closed", "shutdown", "done", "quit":
			return "signal " + ssax.FieldString(ld.f)
		case "C":
			return "timer"
		}
	}
	return ""
}

// constTimer: the channel is time.After(k) / time.Tick(k) with a compile-time constant k.
func constTimer(v ssa.Value) bool {
	if call, ok := ssax.Strip(v).(*ssa.Call); ok && len(call.Call.Args) == 1 {
		_, isConst := call.Call.Args[0].(*ssa.Const)
		return isConst
	}
	return false
}

func c25(c *core.Ctx) {
	initOwners(c)
	c.Rule("C25.cancellable", "every goroutine started by the client side (packages opcua, monitor, and the client channel goroutines of uasc) can be stopped: each blocking select / receive reachable inside it has an arm on a shutdown signal (ctx.Done(), closing, disconnected, closed) or is a bounded timer wait; waits on the renewal gates are released by SecureChannel.close", 12)
	c.Rule("C25.close", "Client.Close reaches, on every path, the cancel function stored at Connect (unless nil), SecureChannel.Close (unless nil) and conn.Close (unless nil); SecureChannel.close closes the closing channel on every path and releases both renewal gates first", 4)

	// a failed Dial gives the connection back: the secure channel's dispatcher goroutine is already reading from it
	c.Rule("C25.dial", "in Client.Dial every error return after the transport connection was established passes (*uacp.Conn).Close (or SecureChannel.Close): otherwise each failed reconnect attempt leaves a connection and the dispatcher goroutine blocked on it behind, and Close cannot reach them", 2)
	if dial := fn(c, "opcua", "Client", "Dial"); dial != nil {
		connClose := obj(c, "uacp", "Conn", "Close")
		scCloseO := obj(c, "uasc", "SecureChannel", "Close")
		var dialCall ssa.CallInstruction
		for _, call := range ssax.Calls(dial) {
			cc := call.Common()
			if cc.IsInvoke() && cc.Method.Name() == "Dial" {
				dialCall = call
			} else if cal := ssax.Callee(call); cal != nil && cal.Name() == "Dial" && cal.Pkg() != nil && cal.Pkg().Name() == "uacp" {
				dialCall = call
			}
		}
		if dialCall == nil {
			c.Fatal("unresolved anchor: the transport dial call in Client.Dial")
		} else {
			isClose := func(in ssa.Instruction) bool {
				call, ok := in.(ssa.CallInstruction)
				if !ok {
					return false
				}
				cal := ssax.Callee(call)
				return cal != nil && (cal == connClose || cal == scCloseO)
			}
			n := 0
			for _, r := range ssax.Returns(dial) {
				if len(r.Results) == 0 || ssax.IsNil(ssax.RetVal(r, len(r.Results)-1)) || !okEdge(r, dialCall) {
					continue
				}
				n++
				leak, tr := ssax.Reach(dial, dialCall, func(in ssa.Instruction) bool { return in == ssa.Instruction(r) }, isClose, nil)
				c.Ob("C25.dial", fname(dial)+"·error return after the connection was established", pos(c, r), !leak, "every path from the dial to this error return closes the connection: "+boolStr(!leak), trace(c, tr)...)
			}
			if n == 0 {
				c.Ob("C25.dial", fname(dial)+"·error return after the connection was established", c.P.Pos(dial.Pos()), false, "no error return found behind the dial call")
			}
		}
	}

	c25Retry(c)
	roots := goRoots(c, "opcua", "monitor", "uasc")
	c.Count("goroutine roots", len(roots))
	unlockM := obj(c, "uasc", "conditionLocker", "unlock")
	waitIf := obj(c, "uasc", "conditionLocker", "waitIfLock")
	scClose := fn(c, "uasc", "SecureChannel", "close")
	gatesReleased := false
	if scClose != nil && unlockM != nil {
		n := 0
		for _, call := range ssax.CallsTo(scClose, unlockM) {
			if _, isDefer := call.(*ssa.Defer); !isDefer {
				n++
			}
		}
		gatesReleased = n >= 2
	}
	seenRoot := map[*ssa.Function]bool{}
	for _, r := range roots {
		if seenRoot[r.fn] {
			continue
		}
		seenRoot[r.fn] = true
		fns := reachableFrom(c, []*ssa.Function{r.fn}, shortOf(r.fn))
		var list []*ssa.Function
		for f := range fns {
			list = append(list, f)
		}
		sortFns(list)
		n := 0
		for _, f := range list {
			// do not descend into request/response exchanges: they are bounded by request timeouts (C19)
			if f.Name() == "sendRequestWithTimeout" || f.Name() == "Receive" && shortOf(f) == "uacp" {
				continue
			}
			for _, b := range f.Blocks {
				for _, in := range b.Instrs {
					switch x := in.(type) {
					case *ssa.Select:
						if !x.Blocking {
							continue
						}
						n++
						arm := ""
						for _, st := range x.States {
							if st.Dir == types.RecvOnly {
								// a timer arm alone does not make the wait cancellable: its duration is a run-time
								// quantity (75% of a token lifetime is 45 minutes by default), so the goroutine would
								// outlive Close by that long. Only time.After(<constant>) is accepted as a bound.
								if s := shutdownChan(st.Chan); s != "" && (s != "timer" || arm == "") {
									if s == "timer" && !constTimer(st.Chan) {
										continue
									}
									arm = s
								}
							}
						}
						c.Ob("C25.cancellable", fname(r.fn)+"·select in "+fname(f), pos(c, x), arm != "", "shutdown arm (or constant-duration timer): "+orNone(arm))
					case *ssa.UnOp:
						if x.Op != token.ARROW {
							continue
						}
						n++
						s := shutdownChan(x.X)
						if s == "timer" && !constTimer(x.X) {
							s = ""
						}
						if s == "" {
							// `for len(ch) > 0 { <-ch }`: a non-blocking drain
							for _, fact := range ssax.FactsAt(x) {
								if lc, ok := ssax.Strip(fact.X).(*ssa.Call); ok && ssax.IsBuiltin(lc, "len") && ssax.Path(lc.Call.Args[0]) == ssax.Path(x.X) {
									if k, ok := ssax.ConstInt(fact.Y); ok && k == 0 && (fact.Op == token.GTR || fact.Op == token.NEQ) {
										s = "guarded by len(ch) > 0 (single receiver: cannot block)"
									}
								}
							}
						}
						c.Ob("C25.cancellable", fname(r.fn)+"·receive from "+chanName(x.X)+" in "+fname(f), pos(c, x), s != "", "plain receive on a shutdown signal or timer: "+orNone(s))
					case ssa.CallInstruction:
						if ssax.Callee(x) == waitIf && waitIf != nil {
							n++
							c.Ob("C25.cancellable", fname(r.fn)+"·renewal gate wait in "+fname(f), pos(c, x), gatesReleased, "SecureChannel.close releases both gates before anything else: "+boolStr(gatesReleased))
						}
					}
				}
			}
		}
		if n == 0 {
			c.Ob("C25.cancellable", fname(r.fn)+"·no unbounded blocking operation", c.P.Pos(r.fn.Pos()), true, "the goroutine performs no blocking channel operation of its own")
		}
	}
	// close
	{
		cl := fn(c, "opcua", "Client", "Close")
		mcancel := field(c, "opcua", "Client", "mcancel")
		connF := field(c, "opcua", "Client", "conn")
		scCloseAPI := obj(c, "uasc", "SecureChannel", "Close")
		connClose := obj(c, "uacp", "Conn", "Close")
		if cl != nil && mcancel != nil && connF != nil && scCloseAPI != nil && connClose != nil {
			isRet := func(in ssa.Instruction) bool { _, ok := in.(*ssa.Return); return ok && in.Block() != cl.Recover }
			check := func(what string, isCall func(ssa.Instruction) bool, nilOf func(cmp ssax.Cmp) bool) {
				// every path to return passes the call, except through the `x == nil` edge
				miss, tr := ssax.Reach(cl, nil, isRet, isCall, func(a, b *ssa.BasicBlock) bool {
					ifi, ok := a.Instrs[len(a.Instrs)-1].(*ssa.If)
					if !ok {
						return false
					}
					cmp, neg, ok := ssax.AsCmp(ifi.Cond)
					if !ok || !nilOf(cmp) {
						return false
					}
					op := cmp.Op
					if neg {
						op = ssax.NegOp(op)
					}
					// block the edge on which the value is nil
					if op == token.NEQ {
						return b == a.Succs[1]
					}
					if op == token.EQL {
						return b == a.Succs[0]
					}
					return false
				})
				c.Ob("C25.close", fname(cl)+"·"+what, c.P.Pos(cl.Pos()), !miss, "reached on every path (unless nil): "+boolStr(!miss), trace(c, tr)...)
			}
			check("cancels the background goroutines (mcancel)", func(in ssa.Instruction) bool {
				call, ok := in.(ssa.CallInstruction)
				return ok && loadedField(call.Common().Value).f == mcancel
			}, func(cmp ssax.Cmp) bool { return loadedField(cmp.X).f == mcancel && ssax.IsNil(cmp.Y) })
			check("closes the secure channel", func(in ssa.Instruction) bool {
				call, ok := in.(ssa.CallInstruction)
				return ok && ssax.Callee(call) == scCloseAPI
			}, func(cmp ssax.Cmp) bool {
				cv, ok := ssax.Strip(cmp.X).(*ssa.Call)
				return ok && ssax.Callee(cv) != nil && ssax.Callee(cv).Name() == "SecureChannel" && ssax.IsNil(cmp.Y)
			})
			check("closes the connection", func(in ssa.Instruction) bool {
				call, ok := in.(ssa.CallInstruction)
				return ok && ssax.Callee(call) == connClose
			}, func(cmp ssax.Cmp) bool { return loadedField(cmp.X).f == connF && ssax.IsNil(cmp.Y) })
		}
		if scClose != nil {
			closing := field(c, "uasc", "SecureChannel", "closing")
			deferred := false
			for _, an := range scClose.AnonFuncs {
				if !isDeferred(scClose, an) {
					continue
				}
				for _, call := range ssax.Calls(an) {
					if ssax.IsBuiltin(call, "close") && loadedField(call.Common().Args[0]).f == closing {
						deferred = true
					}
				}
			}
			c.Ob("C25.close", fname(scClose)+"·closes `closing` on every path (deferred) and releases the gates", c.P.Pos(scClose.Pos()), deferred && gatesReleased, "deferred close(closing): "+boolStr(deferred)+"; reqLocker/rcvLocker unlocked: "+boolStr(gatesReleased))
		}
	}
}

// ---------------------------------------------------------------------------

func c26(c *core.Ctx) {
	initOwners(c)
	c.Rule("C26.transitions", "the reconnect state machine honours every transition it requests: an assignment to the state variable `action` is followed by a re-dispatch of the state loop (continue of that loop / end of its body) or by return; an assignment whose `continue` targets an inner loop and which is overwritten after that loop can never take effect", 10)
	c.Rule("C26.exhaustive", "every value of the reconnectAction enumeration has a case in the state switch", 1)
	c.Rule("C26.acks", "Client.pendingAcks is read and written only with subMux held (written only with the write lock), and only by handleAcks, handleNotification, sendPublishRequest, publish and the constructor; an acknowledgement is appended only on the data-notification path", 6)

	c26Items(c)
	c26Inputs(c)
	// a successful PublishResponse answers the acknowledgements of its request, whichever subscription it is for
	c.Rule("C26.settle", "in Client.publish every path from taking subMux for a successful PublishResponse to a return passes handleAcks (the results answer the request's acknowledgements even when the response is for a subscription the client has just forgotten): unsettled acknowledgements are sent again and a notification is acknowledged twice", 1)
	if pub := fn(c, "opcua", "Client", "publish"); pub != nil {
		hA := obj(c, "opcua", "Client", "handleAcks_NeedsSubMuxLock")
		isAcks := func(in ssa.Instruction) bool {
			call, ok := in.(ssa.CallInstruction)
			return ok && hA != nil && ssax.Callee(call) == hA
		}
		// the success arm may have been moved into a private helper: decide where the write lock is taken
		scope := pub
		for _, g := range withHelpers(pub) {
			for _, call := range ssax.Calls(g) {
				if op, ok := lockset.LockOp(call); ok && op.Acquire && !op.Read && op.Mutex == "opcua.Client.subMux" {
					scope = g
				}
			}
		}
		pubOuter := pub
		pub = scope
		_ = pubOuter
		ackSites := liftedSites(pub, isAcks)
		isAckL := func(in ssa.Instruction) bool {
			for _, a := range ackSites {
				if a == in {
					return true
				}
			}
			return false
		}
		n := 0
		for _, call := range ssax.Calls(pub) {
			op, ok := lockset.LockOp(call)
			if !ok || !op.Acquire || op.Read || op.Mutex != "opcua.Client.subMux" {
				continue
			}
			if _, isDefer := call.(*ssa.Defer); isDefer {
				continue
			}
			n++
			miss, tr := ssax.Reach(pub, call, func(in ssa.Instruction) bool { _, r := in.(*ssa.Return); return r }, isAckL, nil)
			c.Ob("C26.settle", fname(pubOuter)+"·handleAcks on every path of the success arm", pos(c, call), !miss && len(ackSites) > 0, "a path from subMux.Lock to a return skips handleAcks: "+boolStr(miss), trace(c, tr)...)
		}
		if n == 0 {
			c.Ob("C26.settle", fname(pubOuter)+"·handleAcks on every path of the success arm", c.P.Pos(pub.Pos()), false, "publish no longer takes subMux for a successful response")
		}
	}
	pk := c.P.Lib["opcua"]
	var mon *ast.FuncDecl
	for _, file := range pk.Syntax {
		for _, d := range file.Decls {
			if fd, ok := d.(*ast.FuncDecl); ok && fd.Name.Name == "monitor" && fd.Recv != nil {
				mon = fd
			}
		}
	}
	if mon == nil {
		c.Fatal("unresolved anchor: (*Client).monitor")
		return
	}
	info := pk.TypesInfo
	// state variable: local of type reconnectAction
	var action *types.Var
	ast.Inspect(mon.Body, func(n ast.Node) bool {
		if as, ok := n.(*ast.AssignStmt); ok && as.Tok == token.DEFINE {
			for _, l := range as.Lhs {
				if id, ok := l.(*ast.Ident); ok {
					if v, ok := info.Defs[id].(*types.Var); ok {
						if nt, ok := v.Type().(*types.Named); ok && nt.Obj().Name() == "reconnectAction" {
							action = v
						}
					}
				}
			}
		}
		return action == nil
	})
	if action == nil {
		c.Fatal("C26: state variable of type reconnectAction not found in monitor")
		return
	}
	// state loop: the for statement whose condition mentions action
	var stateLoop *ast.ForStmt
	ast.Inspect(mon.Body, func(n ast.Node) bool {
		if fs, ok := n.(*ast.ForStmt); ok && fs.Cond != nil && stateLoop == nil {
			uses := false
			ast.Inspect(fs.Cond, func(m ast.Node) bool {
				if id, ok := m.(*ast.Ident); ok && info.Uses[id] == action {
					uses = true
				}
				return true
			})
			if uses {
				stateLoop = fs
			}
		}
		return true
	})
	if stateLoop == nil {
		c.Fatal("C26: state loop `for action != none` not found")
		return
	}
	// walk with a stack of enclosing loops
	type frame struct {
		loop ast.Node
	}
	var stack []ast.Node
	curCase := "-"
	var visit func(n ast.Node, following []ast.Stmt)
	assignsAction := func(st ast.Stmt) (*ast.AssignStmt, bool) {
		as, ok := st.(*ast.AssignStmt)
		if !ok || len(as.Lhs) != 1 {
			return nil, false
		}
		id, ok := as.Lhs[0].(*ast.Ident)
		return as, ok && info.Uses[id] == action
	}
	var walkBlock func(list []ast.Stmt, after []ast.Stmt)
	innermost := func() ast.Node {
		if len(stack) == 0 {
			return nil
		}
		return stack[len(stack)-1]
	}
	// after: statements that follow the innermost enclosing loop in its parent block (only tracked for non-state loops)
	loopAfter := map[ast.Node][]ast.Stmt{}
	walkBlock = func(list []ast.Stmt, after []ast.Stmt) {
		for i, st := range list {
			rest := list[i+1:]
			if as, ok := assignsAction(st); ok {
				val := types.ExprString(as.Rhs[0])
				key := "(*opcua.Client).monitor·case " + curCase + "·action = " + val
				if lp := innermost(); lp != nil && lp != ast.Node(stateLoop) {
					if _, ok := lp.(*ast.RangeStmt); ok {
						key += " (in an inner range loop)" // not the name of what is ranged over: a local may be renamed
					}
				}
				lp := innermost()
				p := c.P.Pos(as.Pos())
				switch {
				case lp == ast.Node(stateLoop) || lp == nil:
					c.Ob("C26.transitions", key, p, true, "assigned inside the state loop itself: the next iteration dispatches on it")
				default:
					// inside another loop: is it followed (in the rest of this block) by return? then it is honoured by leaving
					leaves := false
					for _, r := range rest {
						if _, ok := r.(*ast.ReturnStmt); ok {
							leaves = true
						}
					}
					if leaves {
						c.Ob("C26.transitions", key, p, true, "followed by return")
						continue
					}
					// overwritten after the inner loop before being read?
					overwritten := false
					for _, fs := range loopAfter[lp] {
						if _, ok := assignsAction(fs); ok {
							overwritten = true
							break
						}
						reads := false
						ast.Inspect(fs, func(m ast.Node) bool {
							if id, ok := m.(*ast.Ident); ok && info.Uses[id] == action {
								reads = true
							}
							return true
						})
						if reads {
							break
						}
					}
					c.Ob("C26.transitions", key, p, !overwritten, "assigned inside an inner loop whose `continue` does not re-dispatch the state machine, and unconditionally overwritten after that loop: "+boolStr(overwritten)+" — the requested recovery step can never run (a failed subscription restore ends in state Connected)")
				}
				continue
			}
			visit(st, rest)
		}
	}
	visit = func(n ast.Node, following []ast.Stmt) {
		switch x := n.(type) {
		case *ast.BlockStmt:
			walkBlock(x.List, following)
		case *ast.ForStmt:
			stack = append(stack, x)
			loopAfter[x] = following
			walkBlock(x.Body.List, nil)
			stack = stack[:len(stack)-1]
		case *ast.RangeStmt:
			stack = append(stack, x)
			loopAfter[x] = following
			walkBlock(x.Body.List, nil)
			stack = stack[:len(stack)-1]
		case *ast.IfStmt:
			walkBlock(x.Body.List, following)
			if x.Else != nil {
				visit(x.Else, following)
			}
		case *ast.SwitchStmt:
			for _, cc := range x.Body.List {
				clause := cc.(*ast.CaseClause)
				saved := curCase
				if x.Tag != nil {
					if id, ok := x.Tag.(*ast.Ident); ok && info.Uses[id] == action && len(clause.List) > 0 {
						curCase = types.ExprString(clause.List[0])
					}
				}
				walkBlock(clause.Body, following)
				curCase = saved
			}
		case *ast.TypeSwitchStmt:
			for _, cc := range x.Body.List {
				walkBlock(cc.(*ast.CaseClause).Body, following)
			}
		case *ast.SelectStmt:
			for _, cc := range x.Body.List {
				walkBlock(cc.(*ast.CommClause).Body, following)
			}
		case *ast.LabeledStmt:
			visit(x.Stmt, following)
		}
	}
	visit(mon.Body, nil)

	// exhaustive
	{
		var sw *ast.SwitchStmt
		ast.Inspect(stateLoop.Body, func(n ast.Node) bool {
			if s, ok := n.(*ast.SwitchStmt); ok && s.Tag != nil && sw == nil {
				if id, ok := s.Tag.(*ast.Ident); ok && info.Uses[id] == action {
					sw = s
				}
			}
			return true
		})
		missing := []string{}
		if sw != nil {
			have := map[string]bool{}
			for _, cc := range sw.Body.List {
				for _, e := range cc.(*ast.CaseClause).List {
					have[types.ExprString(e)] = true
				}
			}
			sc := pk.Types.Scope()
			for _, n := range sc.Names() {
				if k, ok := sc.Lookup(n).(*types.Const); ok {
					if nt, ok := k.Type().(*types.Named); ok && nt.Obj().Name() == "reconnectAction" && n != "none" && !have[n] {
						missing = append(missing, n)
					}
				}
			}
		}
		c.Ob("C26.exhaustive", "(*opcua.Client).monitor·switch action", c.P.Pos(stateLoop.Pos()), sw != nil && len(missing) == 0, "enumeration values without a case: "+strings.Join(missing, ", "))
	}

	// acks
	{
		pending := field(c, "opcua", "Client", "pendingAcks")
		ls := locks(c)
		allowed := map[string]bool{"(*opcua.Client).handleAcks_NeedsSubMuxLock": true, "(*opcua.Client).handleNotification_NeedsSubMuxLock": true, "(*opcua.Client).sendPublishRequest": true, "(*opcua.Client).publish": true, "opcua.NewClient": true}
		for _, f := range libFns(c, "opcua") {
			for _, a := range ssax.FieldAccesses(f, pending) {
				if a.Kind == ssax.AddrTaken {
					continue
				}
				name := fname(f)
				// the constructor, wherever it lives: the Client written to was allocated in this very function
				fresh := false
				if fa, ok := a.Instr.(*ssa.FieldAddr); ok {
					if al, ok := ssax.Strip(fa.X).(*ssa.Alloc); ok && al.Heap {
						fresh = true
					}
				}
				if name == "opcua.NewClient" || fresh {
					c.Ob("C26.acks", "opcua.NewClient·"+a.Kind.String()+" pendingAcks", pos(c, a.Use), true, "constructor: the client is not shared yet")
					continue
				}
				held := ls.HeldAt(a.Use)
				ok := allowed[name] && held.Holds("opcua.Client.subMux", a.Kind == ssax.Write)
				c.Ob("C26.acks", name+"·"+a.Kind.String()+" pendingAcks", pos(c, a.Use), ok, "function on the allowed list: "+boolStr(allowed[name])+"; locks held: "+held.String())
			}
		}
		// appended only on the data path of handleNotification: the append is not reachable on the keep-alive (len(NotificationData) == 0) edge
		hn := fn(c, "opcua", "Client", "handleNotification_NeedsSubMuxLock")
		if hn != nil {
			okData := false
			for _, a := range ssax.FieldAccesses(hn, pending) {
				if st, ok := a.Use.(*ssa.Store); ok && a.Kind == ssax.Write && isAppendOf(st.Val) {
					for _, f := range ssax.FactsAt(st) {
						if lc, ok := ssax.Strip(f.X).(*ssa.Call); ok && ssax.IsBuiltin(lc, "len") && strings.Contains(ssax.Path(lc.Call.Args[0]), "NotificationData") {
							if k, ok := ssax.ConstInt(f.Y); ok && k == 0 && (f.Op == token.NEQ || f.Op == token.GTR) {
								okData = true
							}
						}
					}
				}
			}
			c.Ob("C26.acks", fname(hn)+"·acknowledgement appended only for data notifications", c.P.Pos(hn.Pos()), okData, "append dominated by len(NotificationData) != 0: "+boolStr(okData))
		}
	}
}

// ---------------------------------------------------------------------------

func c27(c *core.Ctx) {
	initOwners(c)
	pausech := field(c, "opcua", "Client", "pausech")
	resumech := field(c, "opcua", "Client", "resumech")
	monSubs := fn(c, "opcua", "Client", "monitorSubscriptions")
	if pausech == nil || resumech == nil || monSubs == nil {
		return
	}
	c.Rule("C27.selfsend", "the goroutine that is the only receiver of Client.pausech / resumech (monitorSubscriptions) performs no send on them that can block (a send outside a select with default): with the channel full it would wait for itself", 1)
	c.Rule("C27.heldsend", "no send on pausech / resumech that can block is executed while holding Client.subMux, which the publish loop acquires between two receives", 1)
	c.Rule("C27.apisend", "API-side sends on the signalling channels are enumerated; sends inside a select with the caller's context are bounded by that context, bare sends by the drainer's publish timeout (reported as evidence, not as deadlock)", 3)
	c.Rule("C27.lockorder", "the lock-order graph over the client's mutexes (subMux, Subscription.itemsMu / paramsMu, monitor.Subscription.mu, channel mutexes) is acyclic and no mutex is re-acquired while held", 1)

	ls := locks(c)
	// all send sites on the two channels. A send in a private helper that receives the channel as a parameter is
	// attributed to each call of the helper, with the channel field that call passes (context sensitive, two levels).
	type sendSite struct {
		in       ssa.Instruction
		f        *ssa.Function
		ch       *types.Var
		blocking bool // can block for ever: bare send, or select without default
		bare     bool
	}
	var sites []sendSite
	var attribute func(f *ssa.Function, in ssa.Instruction, ch ssa.Value, blocking, bare bool, depth int)
	attribute = func(f *ssa.Function, in ssa.Instruction, ch ssa.Value, blocking, bare bool, depth int) {
		if fl := loadedField(ch).f; fl == pausech || fl == resumech {
			sites = append(sites, sendSite{in, f, fl, blocking, bare})
			return
		}
		p, isParam := ssax.Strip(ch).(*ssa.Parameter)
		if !isParam || depth > 2 {
			return
		}
		idx := -1
		for i, q := range f.Params {
			if q == p {
				idx = i
			}
		}
		for _, k := range ipCallers(f) {
			for _, cs := range ssax.Calls(k) {
				if cs.Common().StaticCallee() == f && idx >= 0 && idx < len(cs.Common().Args) {
					attribute(k, cs, cs.Common().Args[idx], blocking, bare, depth+1)
				}
			}
		}
	}
	for _, f := range libFns(c, "opcua") {
		for _, b := range f.Blocks {
			for _, in := range b.Instrs {
				switch x := in.(type) {
				case *ssa.Send:
					attribute(f, x, x.Chan, true, true, 0)
				case *ssa.Select:
					for _, st := range x.States {
						if st.Dir == types.SendOnly {
							attribute(f, x, st.Chan, x.Blocking, false, 0)
						}
					}
				}
			}
		}
	}
	c.Count("send sites on pausech/resumech", len(sites))
	drainer := reachableFrom(c, []*ssa.Function{monSubs}, "opcua")
	// callers of a function (transitively) inside the drainer set?
	inDrainer := func(f *ssa.Function) (bool, string) {
		if drainer[f] {
			// is the send site reachable from monitorSubscriptions through calls (not only textually in a shared helper)?
			return true, "reachable from monitorSubscriptions"
		}
		return false, ""
	}
	nSelf, nHeld := 0, 0
	for _, s := range sites {
		// selfsend: a helper such as pauseSubscriptions is in the drainer set when monitorSubscriptions calls it
		if ok, how := inDrainer(s.f); ok && s.blocking {
			// the helper is shared with API callers; the obligation is on the drainer's call path
			callers := drainerCallSites(c, monSubs, s.f)
			for _, cs := range callers {
				nSelf++
				c.Ob("C27.selfsend", fname(cs.Parent())+"·calls "+fname(s.f)+" → send on "+ssax.FieldString(s.ch), pos(c, cs), false, how+": the only goroutine that drains "+ssax.FieldString(s.ch)+" performs a send on it that has no default arm; with the buffer full (e.g. two queued pauses) it blocks on its own channel for ever")
			}
			if s.f == monSubs {
				nSelf++
				c.Ob("C27.selfsend", fname(s.f)+"·send on "+ssax.FieldString(s.ch), pos(c, s.in), false, "the drainer sends on its own channel without a default arm")
			}
		}
		// heldsend: lockset at the send, or at call sites of the helper
		if s.blocking {
			held := ls.HeldAt(s.in)
			if held.Holds("opcua.Client.subMux", false) {
				nHeld++
				c.Ob("C27.heldsend", fname(s.f)+"·send on "+ssax.FieldString(s.ch)+" holding subMux", pos(c, s.in), false, "the publish loop needs subMux before it returns to its receive; a full channel then blocks this sender for ever while it holds the mutex")
			}
			// call sites of this helper that hold subMux
			if n := c.P.CallGraph().Nodes[s.f]; n != nil {
				for _, e := range n.In {
					if e.Site == nil || !c.P.IsLib(e.Caller.Func.Pkg.Pkg) {
						continue
					}
					h := ls.HeldAt(e.Site.(ssa.Instruction))
					if h.Holds("opcua.Client.subMux", false) {
						nHeld++
						c.Ob("C27.heldsend", fname(e.Caller.Func)+"·calls "+fname(s.f)+" holding subMux", pos(c, e.Site), false, "a send on "+ssax.FieldString(s.ch)+" without default arm is executed with subMux held; the publish loop needs subMux before it returns to its receive: with the channel full both wait for ever")
					}
				}
			}
		}
		// apisend
		if !drainerOnly(s.f, monSubs) {
			if s.bare {
				// bounded by the duration of the outstanding publish (the drainer returns to its receive when the
				// request times out), hence a latency hazard, not a deadlock: evidence only
				c.Info("C27.apisend", fname(s.f)+"·bare send on "+ssax.FieldString(s.ch), pos(c, s.in), "evidence only: a bare send blocks the API call while the publish loop sits in a long-running publish and the channel is full")
				c.Ob("C27.apisend", fname(s.f)+"·send on "+ssax.FieldString(s.ch), pos(c, s.in), true, "bare send: bounded by the publish timeout of the drainer (reported as evidence)")
			} else {
				c.Ob("C27.apisend", fname(s.f)+"·send on "+ssax.FieldString(s.ch), pos(c, s.in), true, "inside a select with the caller's context or a default arm")
			}
		}
	}
	if nSelf == 0 {
		c.Ob("C27.selfsend", "opcua·drainer never sends on its own channels", c.P.Pos(monSubs.Pos()), true, "no blocking send on pausech/resumech reachable from monitorSubscriptions")
	}
	if nHeld == 0 {
		c.Ob("C27.heldsend", "opcua·no blocking send under subMux", c.P.Pos(monSubs.Pos()), true, "no send site holds subMux")
	}
	c.Rule("C27.balance", "every function of packages opcua and monitor unlocks each mutex it locks on every path to a return (or defers the unlock): no path leaves subMux (or any other client mutex) locked behind", 10)
	lockBalance(c, "C27.balance", "opcua", "monitor")
	lockOrderRules(c, "C27.lockorder", "C27.lockorder", "client", []string{"opcua", "monitor", "uasc"}, "two goroutines of the client can deadlock", "recursive RLock with a writer in between blocks both")
}

// drainerCallSites: call sites of helper f that lie in functions reachable from root.
func drainerCallSites(c *core.Ctx, root, f *ssa.Function) []ssa.CallInstruction {
	if f == root {
		return nil
	}
	reach := reachableFrom(c, []*ssa.Function{root}, "opcua")
	var out []ssa.CallInstruction
	if n := c.P.CallGraph().Nodes[f]; n != nil {
		for _, e := range n.In {
			if e.Site != nil && reach[e.Caller.Func] {
				out = append(out, e.Site)
			}
		}
	}
	return out
}

func drainerOnly(f, root *ssa.Function) bool { return f == root }
