package rules

import (
	"golang.org/x/tools/go/ssa"

	"verif/internal/core"
	"verif/internal/ssax"
)

// c14FreshMode: every message is protected with the derived key AND the derived IV.
//
// A cipher.BlockMode carries the CBC chaining state from one CryptBlocks call to the next. Part 6 starts every chunk
// from the derived IV, so the mode object must be built from (key, IV) for each Encrypt / Decrypt. Keeping it in the
// algorithm object ("don't recompute the key schedule") makes the second message start from the last ciphertext block
// of the first: library-to-library traffic still works (both ends drift in step), a conformant peer cannot decrypt.
// Obligation: the receiver of every CryptBlocks call in uapolicy is the result of cipher.NewCBCEncrypter /
// NewCBCDecrypter called in the same activation (or handed to a private helper by callers that all do that); no
// BlockMode is stored in a field.
func c14FreshMode(c *core.Ctx) {
	c.Rule("C14.freshmode", "the cipher.BlockMode that encrypts or decrypts a chunk is created from the derived key and IV for that very call (cipher.NewCBCEncrypter / NewCBCDecrypter in the same activation): a mode kept in the algorithm object carries the CBC chaining state over to the next message, which then is not AES-CBC under the derived IV", 1)
	isNewCBC := func(v ssa.Value) bool {
		call, ok := ssax.Strip(v).(*ssa.Call)
		if !ok {
			return false
		}
		cal := ssax.Callee(call)
		return cal != nil && cal.Pkg() != nil && cal.Pkg().Path() == "crypto/cipher" && (cal.Name() == "NewCBCEncrypter" || cal.Name() == "NewCBCDecrypter")
	}
	var fresh func(v ssa.Value, f *ssa.Function, d int) (bool, string)
	fresh = func(v ssa.Value, f *ssa.Function, d int) (bool, string) {
		if isNewCBC(v) {
			return true, "created by cipher.NewCBC* in this call"
		}
		if par, ok := ssax.Strip(v).(*ssa.Parameter); ok && d < 2 {
			idx := -1
			for i, q := range f.Params {
				if q == par {
					idx = i
				}
			}
			callers := ssax.PrivateCallers(f)
			if idx >= 0 && len(callers) > 0 {
				for _, cc := range callers {
					if idx >= len(cc.Call.Args) {
						return false, "a caller passes no mode"
					}
					if ok, why := fresh(cc.Call.Args[idx], cc.Parent(), d+1); !ok {
						return false, "caller " + fname(cc.Parent()) + ": " + why
					}
				}
				return true, "every caller of this helper creates it with cipher.NewCBC* for the call"
			}
		}
		if ld := loadedField(v); ld.f != nil {
			return false, "loaded from the field " + ssax.FieldString(ld.f) + ": the chaining state of earlier messages comes with it"
		}
		return false, "origin " + ssax.Path(v) + " is not a cipher.NewCBC* call of this activation"
	}
	for _, f := range libFns(c, "uapolicy") {
		for _, call := range ssax.Calls(f) {
			cc := call.Common()
			if !cc.IsInvoke() || cc.Method.Name() != "CryptBlocks" {
				continue
			}
			ok, why := fresh(cc.Value, f, 0)
			c.Ob("C14.freshmode", fname(f)+"·CryptBlocks on a mode made for this call", pos(c, call), ok, why)
		}
	}
}
