package rules

import (
	"go/token"
	"go/types"

	"golang.org/x/tools/go/ssa"

	"verif/internal/core"
	"verif/internal/lockset"
	"verif/internal/ssax"
)

func init() { register("C11", c11) }

const instMu = "uasc.channelInstance.Mutex"

// C11 — outgoing sequence numbers: numbering and writing of one message form
// one critical section of the token instance's mutex.
func c11(c *core.Ctx) {
	initOwners(c)
	nextSeq := obj(c, "uasc", "channelInstance", "nextSequenceNumber")
	nextSeqFn := fn(c, "uasc", "channelInstance", "nextSequenceNumber")
	connWrite := obj(c, "uacp", "Conn", "Write")
	seqField := field(c, "uasc", "channelInstance", "sequenceNumber")
	newMsg := fn(c, "uasc", "channelInstance", "newMessage")
	newSeqHdr := obj(c, "uasc", "", "NewSequenceHeader")
	if nextSeq == nil || nextSeqFn == nil || connWrite == nil || seqField == nil || newMsg == nil || newSeqHdr == nil {
		return
	}
	ls := locks(c)

	c.Rule("C11.numlock", "every call of channelInstance.nextSequenceNumber executes with that instance type's mutex held (directly, or because every caller of the enclosing function holds it)", 3)
	c.Rule("C11.writelock", "every write of a chunk to the connection in package uasc executes with the instance mutex held", 2)
	c.Rule("C11.nounlock", "no function that numbers a message or writes its chunks releases the instance mutex other than by a deferred Unlock (numbering and writing of one message form one critical section)", 3)
	c.Rule("C11.writers", "channelInstance.sequenceNumber is written only by nextSequenceNumber, the server channel constructor and the renewal copy in open(); the renewal copy executes with the source instance's mutex held", 3)
	c.Rule("C11.gate", "a sender chooses the token instance (whose counter numbers its chunks) only after it has passed the renewal gate: otherwise a request issued during a renewal is numbered from the superseded instance's stale counter and repeats the number the renewal request used", 1)
	senderHonoursGate(c, "C11.gate")
	c.Rule("C11.step", "nextSequenceNumber stores sequenceNumber+1 and, on the wrap branch, a constant in [1,1024)", 2)
	c.Rule("C11.chunks", "the first chunk's number comes from nextSequenceNumber in newMessage; every later chunk (index > 0, exactly) is renumbered from nextSequenceNumber before it is signed and written", 3)

	giveBack := c11Consumed(c, nextSeq, connWrite, seqField)
	fns := libFns(c)
	// numlock + writelock
	for _, f := range fns {
		for _, call := range ssax.CallsTo(f, nextSeq) {
			held := ls.HeldAt(call)
			ok := held.Holds(instMu, true)
			c.Ob("C11.numlock", fname(f)+"·nextSequenceNumber()", pos(c, call), ok, "locks held: "+held.String())
		}
		if shortOf(f) == "uasc" {
			for _, call := range ssax.CallsTo(f, connWrite) {
				held := ls.HeldAt(call)
				ok := held.Holds(instMu, true)
				c.Ob("C11.writelock", fname(f)+"·Conn.Write(chunk)", pos(c, call), ok, "locks held: "+held.String())
			}
		}
	}
	// nounlock: functions from which numbering or writing is reachable within uasc
	{
		targets := map[*ssa.Function]bool{}
		for _, f := range libFns(c, "uasc") {
			if len(ssax.CallsTo(f, nextSeq)) > 0 || len(ssax.CallsTo(f, connWrite)) > 0 {
				targets[f] = true
			}
		}
		// callers (transitively, within uasc) that hold the lock around them
		cg := c.P.CallGraph()
		changed := true
		for changed {
			changed = false
			for f := range targets {
				if n := cg.Nodes[f]; n != nil {
					for _, e := range n.In {
						cf := e.Caller.Func
						if cf != nil && shortOf(cf) == "uasc" && !targets[cf] && cf.Blocks != nil {
							// only callers that themselves take the instance lock matter
							takes := false
							for _, call := range ssax.Calls(cf) {
								if op, ok := lockset.LockOp(call); ok && op.Mutex == instMu {
									takes = true
								}
							}
							if takes {
								targets[cf] = true
								changed = true
							}
						}
					}
				}
			}
		}
		for _, f := range libFns(c, "uasc") {
			if !targets[f] {
				continue
			}
			bad := false
			var where ssa.Instruction
			for _, call := range ssax.Calls(f) {
				if _, isDefer := call.(*ssa.Defer); isDefer {
					continue
				}
				if op, ok := lockset.LockOp(call); ok && !op.Acquire && op.Mutex == instMu {
					bad = true
					where = call
				}
			}
			p := c.P.Pos(f.Pos())
			if where != nil {
				p = pos(c, where)
			}
			c.Ob("C11.nounlock", fname(f)+"·no explicit Unlock of the instance mutex", p, !bad, "explicit (non-deferred) Unlock inside a numbering/writing function: "+boolStr(bad))
		}
	}
	// writers
	{
		allowed := map[string]bool{"(*uasc.channelInstance).nextSequenceNumber": true, "uasc.NewServerSecureChannel": true, "(*uasc.SecureChannel).open": true}
		for _, f := range fns {
			for _, a := range ssax.FieldAccesses(f, seqField) {
				if a.Kind != ssax.Write {
					continue
				}
				name := fname(f)
				if giveBack[f] {
					// the deferred give-back closure of a sending function (shape checked by C11.consumed)
					// it runs at the exit of its parent, before every defer registered earlier (LIFO): the instance
					// mutex is held there iff it is held where the closure is deferred and is only released by a defer
					// (C11.nounlock) that was registered before it
					ok := false
					detail := "the closure is not deferred by its parent"
					if par := f.Parent(); par != nil {
						for _, call := range ssax.Calls(par) {
							d, isDefer := call.(*ssa.Defer)
							if !isDefer {
								continue
							}
							if mc, isMC := d.Call.Value.(*ssa.MakeClosure); isMC && mc.Fn == f {
								held := ls.HeldAtCtx(d)
								ok = held.Holds(instMu, true)
								detail = "locks held where the closure is deferred in " + fname(par) + ": " + held.String()
							}
						}
					}
					c.Ob("C11.writers", name+"·give-back of an unwritten number", pos(c, a.Use), ok, detail)
					continue
				}
				if !allowed[name] {
					c.Ob("C11.writers", name+"·write channelInstance.sequenceNumber", pos(c, a.Use), false, "the sequence counter is written outside nextSequenceNumber / constructor / renewal copy")
					continue
				}
				switch name {
				case "(*uasc.SecureChannel).open":
					held := ls.HeldAtCtx(a.Use)
					ok := held.Holds(instMu, true)
					c.Ob("C11.writers", name+"·renewal copy of sequenceNumber", pos(c, a.Use), ok, "locks held in the renewing context: "+held.String())
				case "uasc.NewServerSecureChannel":
					c.Ob("C11.writers", name+"·initial sequenceNumber", pos(c, a.Use), true, "constructor: the instance is not yet shared")
				default:
					c.Ob("C11.writers", name+"·increment", pos(c, a.Use), true, "the numbering method itself")
				}
			}
		}
	}
	// step: what is stored into the counter, through locals and phis
	{
		var classify func(v ssa.Value, d int) (inc bool, consts []int64, other bool)
		classify = func(v ssa.Value, d int) (bool, []int64, bool) {
			v = ssax.Strip(v)
			if d > 6 {
				return false, nil, true
			}
			if k, ok := ssax.ConstInt(v); ok {
				return false, []int64{k}, false
			}
			switch x := v.(type) {
			case *ssa.BinOp:
				if x.Op == token.ADD {
					for _, pr := range [][2]ssa.Value{{x.X, x.Y}, {x.Y, x.X}} {
						if k, ok := ssax.ConstInt(pr[1]); ok && k == 1 && loadedField(pr[0]).f == seqField {
							return true, nil, false
						}
					}
				}
			case *ssa.Phi:
				inc, other := false, false
				var ks []int64
				for _, e := range x.Edges {
					i2, k2, o2 := classify(e, d+1)
					inc, other = inc || i2, other || o2
					ks = append(ks, k2...)
				}
				return inc, ks, other
			}
			return false, nil, true
		}
		inc, wrapOK, wrapSeen, other := false, true, false, false
		var stored []ssa.Value
		var at ssa.Instruction
		for _, a := range ssax.FieldAccesses(nextSeqFn, seqField) {
			st, ok := a.Use.(*ssa.Store)
			if !ok || a.Kind != ssax.Write {
				continue
			}
			at = st
			stored = append(stored, st.Val)
			i2, ks, o2 := classify(st.Val, 0)
			inc, other = inc || i2, other || o2
			for _, k := range ks {
				wrapSeen = true
				if k < 1 || k >= 1024 {
					wrapOK = false
				}
			}
		}
		p := c.P.Pos(nextSeqFn.Pos())
		if at != nil {
			p = pos(c, at)
		}
		c.Ob("C11.step", fname(nextSeqFn)+"·sequenceNumber = sequenceNumber + 1", p, inc && !other, "the counter is only ever set to itself + 1 or to a wrap constant: "+boolStr(inc && !other))
		if wrapSeen {
			c.Ob("C11.step", fname(nextSeqFn)+"·wrap value", p, wrapOK, "wrap resets to a constant in [1,1024): "+boolStr(wrapOK))
		} else {
			c.Ob("C11.step", fname(nextSeqFn)+"·wrap value", c.P.Pos(nextSeqFn.Pos()), false, "no wrap branch: the counter would pass MaxUint32-1024")
		}
		// the returned value is the stored counter
		for _, r := range ssax.Returns(nextSeqFn) {
			rv := ssax.Strip(ssax.RetVal(r, 0))
			ok := loadedField(rv).f == seqField
			for _, sv := range stored {
				if ssax.Strip(sv) == rv {
					ok = true
				}
			}
			c.Ob("C11.step", fname(nextSeqFn)+"·returns the counter", pos(c, r), ok, "returns the value of channelInstance.sequenceNumber it has just stored: "+boolStr(ok))
		}
	}
	// chunks
	{
		// newMessage: every NewSequenceHeader call's first arg is nextSequenceNumber()'s result
		var numCall ssa.CallInstruction
		for _, call := range ssax.CallsTo(newMsg, nextSeq) {
			numCall = call
		}
		n := 0
		okAll := numCall != nil
		for _, call := range ssax.CallsTo(newMsg, newSeqHdr) {
			n++
			if numCall == nil || !denotes(call.Common().Args[0], numCall.(ssa.Value)) || !ssax.Dominates(numCall, call) {
				okAll = false
			}
		}
		c.Ob("C11.chunks", fname(newMsg)+"·first number from nextSequenceNumber", c.P.Pos(newMsg.Pos()), okAll && n > 0, "sequence headers built from nextSequenceNumber(): "+boolStr(okAll && n > 0))
		// renumber sites
		for _, f := range libFns(c, "uasc") {
			for _, call := range ssax.CallsTo(f, nextSeq) {
				if f == newMsg {
					continue
				}
				// must be guarded by exactly idx > 0 on a forward index and flow into PutUint32
				guard := false
				for _, fact := range ssax.FactsAt(call) {
					if !forwardIndex(fact.X) {
						continue
					}
					if k, ok := ssax.ConstInt(fact.Y); ok {
						if (fact.Op == token.GTR && k == 0) || (fact.Op == token.NEQ && k == 0) || (fact.Op == token.GEQ && k == 1) {
							guard = true
						}
					}
				}
				flows := false
				cv := call.(ssa.Value)
				for _, c2 := range ssax.Calls(f) {
					cal := ssax.Callee(c2)
					if cal != nil && cal.Name() == "PutUint32" && cal.Pkg() != nil && cal.Pkg().Path() == "encoding/binary" {
						args := c2.Common().Args
						if denotes(args[len(args)-1], cv) && ssax.Dominates(call, c2) {
							flows = true
						}
					}
				}
				ok := guard && flows
				c.Ob("C11.chunks", fname(f)+"·renumber chunks with index > 0", pos(c, call), ok, "guarded by index>0: "+boolStr(guard)+"; number patched into the chunk: "+boolStr(flows))
			}
		}
	}
	_ = types.Universe
}
