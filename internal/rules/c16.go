package rules

import (
	"go/constant"
	"go/token"
	"go/types"

	"golang.org/x/tools/go/ssa"

	"verif/internal/core"
	"verif/internal/ssax"
)

func init() { register("C16", c16) }

// recvFromField reports whether the receiver of call is loaded from field f.
func recvFromField(call ssa.CallInstruction, f *types.Var) bool {
	cc := call.Common()
	var recv ssa.Value
	if cc.IsInvoke() {
		recv = cc.Value
	} else if len(cc.Args) > 0 {
		recv = cc.Args[0]
	}
	if recv == nil {
		return false
	}
	recv = ssax.Strip(recv)
	// either the loaded pointer field, or the address of a value field
	if fa, ok := recv.(*ssa.FieldAddr); ok {
		return ssax.FieldOf(fa.X.Type(), fa.Field) == f
	}
	return loadedField(recv).f == f
}

// floatScaleSites finds `x * K` with K a float constant inside fn and returns (K, instr).
type scaleSite struct {
	k  float64
	in *ssa.BinOp
}

func floatScaleSites(f *ssa.Function) []scaleSite {
	var out []scaleSite
	for _, b := range f.Blocks {
		for _, in := range b.Instrs {
			bo, ok := in.(*ssa.BinOp)
			if !ok || bo.Op != token.MUL {
				continue
			}
			for _, side := range []ssa.Value{bo.X, bo.Y} {
				if k, ok := side.(*ssa.Const); ok && k.Value != nil {
					if bt, ok := k.Type().Underlying().(*types.Basic); ok && bt.Info()&types.IsFloat != 0 {
						v, _ := constant.Float64Val(k.Value)
						out = append(out, scaleSite{v, bo})
					}
				}
			}
		}
	}
	return out
}

// truncatingDurationConversions finds time.Duration(f) conversions of a
// non-constant float whose result is then multiplied by a constant >= 1e6 ns
// (fraction lost before scaling).
func truncatingDurationConversions(f *ssa.Function) []*ssa.Convert {
	var out []*ssa.Convert
	for _, b := range f.Blocks {
		for _, in := range b.Instrs {
			cv, ok := in.(*ssa.Convert)
			if !ok {
				continue
			}
			from, ok1 := cv.X.Type().Underlying().(*types.Basic)
			if !ok1 || from.Info()&types.IsFloat == 0 {
				continue
			}
			if _, isConst := cv.X.(*ssa.Const); isConst {
				continue
			}
			nt, ok := cv.Type().(*types.Named)
			if !ok || nt.Obj().Pkg() == nil || nt.Obj().Pkg().Path() != "time" || nt.Obj().Name() != "Duration" {
				continue
			}
			refs := cv.Referrers()
			if refs == nil {
				continue
			}
			for _, r := range *refs {
				bo, ok := r.(*ssa.BinOp)
				if !ok || bo.Op != token.MUL {
					continue
				}
				other := bo.X
				if other == cv {
					other = bo.Y
				}
				if k, ok := ssax.ConstInt(other); ok && k >= 1_000_000 {
					out = append(out, cv)
				}
			}
		}
	}
	return out
}

func c16(c *core.Ctx) {
	initOwners(c)
	c.P.BuildSSA()
	schedRen := fn(c, "uasc", "SecureChannel", "scheduleRenewal")
	schedExp := fn(c, "uasc", "SecureChannel", "scheduleExpiration")
	renew := fn(c, "uasc", "SecureChannel", "renew")
	open := obj(c, "uasc", "SecureChannel", "open")
	hResp := fn(c, "uasc", "SecureChannel", "handleOpenSecureChannelResponse")
	vad := fn(c, "uasc", "SecureChannel", "verifyAndDecrypt")
	ivad := obj(c, "uasc", "channelInstance", "verifyAndDecrypt")
	instances := field(c, "uasc", "SecureChannel", "instances")
	kind := field(c, "uasc", "SecureChannel", "kind")
	reqLocker := field(c, "uasc", "SecureChannel", "reqLocker")
	pendingReq := field(c, "uasc", "SecureChannel", "pendingReq")
	lockM := obj(c, "uasc", "conditionLocker", "lock")
	unlockM := obj(c, "uasc", "conditionLocker", "unlock")
	if schedRen == nil || schedExp == nil || renew == nil || open == nil || hResp == nil || vad == nil || ivad == nil || instances == nil || kind == nil || reqLocker == nil || pendingReq == nil || lockM == nil || unlockM == nil {
		return
	}

	c.Rule("C16.fraction", "the renewal delay is the revised lifetime scaled by a constant in [0.5, 1) and the expiry delay by a constant >= 1.25", 2)
	c.Rule("C16.lifetime", "the renewal timer is armed with the scheduled instance's own revisedLifetime × K, and revisedLifetime is only written by handleOpenSecureChannelResponse from the response's SecurityToken.RevisedLifetime (capped by Config.Lifetime)", 4)
	lifetimeF := field(c, "uasc", "channelInstance", "revisedLifetime")
	c.Rule("C16.expiry", "when a token expires the client drops that token instance only (identity comparison in scheduleExpiration's retain filter): a filter by securityTokenID also drops the renewed instance when the server re-uses the token id for the new token — the server of this repository does — and leaves the client unable to verify any response until the next renewal", 1)
	if tokField := field(c, "uasc", "channelInstance", "securityTokenID"); tokField != nil {
		for _, r := range retainFilters(c, schedExp, instances, tokField) {
			c.Ob("C16.expiry", fname(schedExp)+"·retain-filter keeps the renewed instance", pos(c, r.at), r.identity, r.detail)
		}
	}
	c.Rule("C16.wake", "when a renewal ends, every request parked at the request gate continues, and the receive gate is released whichever way the OPN exchange ends (C19.gate applies verbatim)", 3)
	c.Rule("C16.pending", "renew() waits for pendingReq before it re-keys; the counter is balanced on every path of sendRequestWithTimeout (C19.pending applies verbatim): a failed send that leaves it incremented blocks the next renewal for ever, with the request gate held", 1)
	{
		tmp := core.NewCtx(c.Prop, c.Tier, c.P)
		c19(tmp)
		for _, e := range tmp.Errors {
			c.Fatal("%s", e)
		}
		for _, o := range tmp.Obs {
			if o.Rule == "C19.pending" {
				c.Ob("C16.pending", o.Key, o.Pos, o.OK, o.Detail)
			}
			if o.Rule == "C19.gate" {
				c.Ob("C16.wake", o.Key, o.Pos, o.OK, o.Detail)
			}
		}
	}
	c.Rule("C16.trunc", "no time.Duration(x) conversion of a non-constant float number of seconds/milliseconds that is afterwards multiplied by a time unit: the fraction is lost before scaling (a 2.5 s token would be renewed after 1 s, a 1.2 s token immediately)", 1)
	c.Rule("C16.once", "scheduleRenewal is started only from handleOpenSecureChannelResponse, as a goroutine, for the installed instance, on the `kind == client` edge, exactly once on every path from the installation of a client token to return", 1)
	c.Rule("C16.gate", "renew() holds the request gate for the whole exchange: reqLocker.lock() dominates pendingReq.Wait() which dominates the call of open(), and reqLocker.unlock() is deferred before them", 1)
	c.Rule("C16.overlap", "the receive side tries every stored token instance of the channel id: inside SecureChannel.verifyAndDecrypt the per-instance verification runs in a loop over the looked-up slice, a failed instance leads to the next iteration (not to a return), and only a successful one returns data", 1)

	// (i) fractions
	for _, t := range []struct {
		f      *ssa.Function
		lo, hi float64
		what   string
	}{{schedRen, 0.5, 1.0, "renewal"}, {schedExp, 1.25, 1e9, "expiry"}} {
		sites := floatScaleSites(t.f)
		if len(sites) == 0 {
			// maybe scaled in integer arithmetic; report as undecided
			c.Ob("C16.fraction", fname(t.f)+"·lifetime×K", c.P.Pos(t.f.Pos()), false, "no `lifetime * K` float scaling found: "+t.what+" delay cannot be related to the token lifetime")
			continue
		}
		for _, s := range sites {
			ok := s.k >= t.lo && s.k < t.hi
			c.Ob("C16.fraction", fname(t.f)+"·lifetime×K", pos(c, s.in), ok, t.what+" factor K="+constant.MakeFloat64(s.k).String())
			if t.f == schedRen && lifetimeF != nil {
				okL, why := scaledFromInstanceLifetime(t.f, s, lifetimeF)
				c.Ob("C16.lifetime", fname(t.f)+"·scaled quantity", pos(c, s.in), okL, why)
				armed := false
				for _, a := range timerArgs(t.f) {
					if inBackSlice(a, s.in) {
						armed = true
					}
				}
				c.Ob("C16.lifetime", fname(t.f)+"·timer armed with the scaled lifetime", pos(c, s.in), armed, "a time.NewTimer/After duration in the function is computed from lifetime×K: "+boolStr(armed))
			}
		}
	}
	// the lifetime of a client token is the one the server revised (never longer than requested)
	if lifetimeF != nil {
		revised := field(c, "ua", "ChannelSecurityToken", "RevisedLifetime")
		cfgLife := field(c, "uasc", "Config", "Lifetime")
		fromResp := 0
		for _, f := range libFns(c) {
			for _, a := range ssax.FieldAccesses(f, lifetimeF) {
				if a.Kind != ssax.Write {
					continue
				}
				st, ok := a.Use.(*ssa.Store)
				if !ok {
					continue
				}
				fld, _ := scaledBase(st.Val)
				okS := fld != nil && (fld == revised || fld == cfgLife)
				if fld == revised {
					fromResp++
				}
				what := "a value that is not a lifetime field"
				if fld != nil {
					what = ssax.FieldString(fld)
				}
				c.Ob("C16.lifetime", fname(f)+"·revisedLifetime = "+what, pos(c, st), okS && f == hResp, "the token lifetime is set from "+what+" in "+fname(f))
			}
		}
		c.Ob("C16.lifetime", "revisedLifetime is taken from the response's SecurityToken.RevisedLifetime", c.P.Pos(hResp.Pos()), fromResp >= 1, "stores from ChannelSecurityToken.RevisedLifetime: "+itoa(fromResp))
	}
	// (ii) truncation
	for _, f := range []*ssa.Function{schedRen, schedExp} {
		tr := truncatingDurationConversions(f)
		if len(tr) == 0 {
			c.Ob("C16.trunc", fname(f)+"·duration arithmetic", c.P.Pos(f.Pos()), true, "no float→Duration conversion is scaled afterwards")
		}
		for _, cv := range tr {
			if f == schedExp {
				// shortens the 25% grace period by < 1 s; not the renewal clause of C16
				c.Info("C16.trunc", fname(f)+"·time.Duration(float)*unit", pos(c, cv), "evidence only: expiry delay is truncated to whole seconds (grace period shortened by < 1 s)")
				c.Ob("C16.trunc", fname(f)+"·duration arithmetic", c.P.Pos(f.Pos()), true, "expiry truncation is evidence only")
				continue
			}
			c.Ob("C16.trunc", fname(f)+"·time.Duration(float)*unit", pos(c, cv), false, "time.Duration("+ssax.Path(cv.X)+") truncates to whole units before it is multiplied by the unit")
		}
	}
	// (iii) once
	{
		schedObj := schedRen.Object()
		var sites []ssa.CallInstruction
		for _, f := range libFns(c) {
			for _, call := range ssax.CallsTo(f, schedObj.(*types.Func)) {
				sites = append(sites, call)
				_, isGo := call.(*ssa.Go)
				if f != hResp || !isGo {
					c.Ob("C16.once", fname(f)+"·call scheduleRenewal", pos(c, call), false, "scheduleRenewal started outside handleOpenSecureChannelResponse or not as a goroutine: more than one renewal timer per token")
				}
			}
		}
		c.Count("scheduleRenewal call sites", len(sites))
		// the install site and the client edge
		var install ssa.Instruction
		var installed []ssa.Value
		for _, s := range ssax.ContainerSites(hResp, instances) {
			if s.Kind == ssax.MapStore && isAppendOf(s.Val) {
				install = s.Instr
				installed = appendedValues(s.Val)
			}
		}
		if install == nil {
			c.Fatal("C16.once: no installation of a token instance found in handleOpenSecureChannelResponse")
		} else {
			// edges that decide `kind == client`: a path is a client path if it takes no contradicting edge
			type edge struct{ a, b *ssa.BasicBlock }
			clientYes, clientNo := map[edge]bool{}, map[edge]bool{}
			clientConst := constOf(c, "uasc", "client")
			for _, b := range hResp.Blocks {
				if len(b.Instrs) == 0 {
					continue
				}
				ifi, ok := b.Instrs[len(b.Instrs)-1].(*ssa.If)
				if !ok {
					continue
				}
				cmp, neg, ok := ssax.AsCmp(ifi.Cond)
				if !ok {
					continue
				}
				x, y := cmp.X, cmp.Y
				if loadedField(y).f == kind {
					x, y = y, x
				}
				if loadedField(x).f != kind {
					continue
				}
				if k, ok := ssax.ConstInt(y); ok && clientConst != nil && k == *clientConst {
					op := cmp.Op
					if neg {
						op = ssax.NegOp(op)
					}
					switch op {
					case token.EQL:
						clientYes[edge{b, b.Succs[0]}], clientNo[edge{b, b.Succs[1]}] = true, true
					case token.NEQ:
						clientYes[edge{b, b.Succs[1]}], clientNo[edge{b, b.Succs[0]}] = true, true
					}
				}
			}
			isSched := func(in ssa.Instruction) bool {
				g, ok := in.(*ssa.Go)
				return ok && ssax.Callee(g) == schedObj
			}
			isRet := func(in ssa.Instruction) bool { _, ok := in.(*ssa.Return); return ok }
			key := fname(hResp) + "·client install→go scheduleRenewal"
			if len(clientYes) == 0 {
				c.Ob("C16.once", key, pos(c, install), false, "no `kind == client` branch found after the installation: renewal is not tied to client channels")
			} else {
				// client paths (never taking a `kind != client` edge): every one from the install to a return starts the timer
				miss, tr := ssax.Reach(hResp, install, isRet, isSched, func(a, b *ssa.BasicBlock) bool { return clientNo[edge{a, b}] })
				// a client edge is reachable from the install
				edgeReach := false
				for e := range clientYes {
					if r, _ := ssax.Reach(hResp, install, func(in ssa.Instruction) bool { return in == e.b.Instrs[0] }, nil, nil); r {
						edgeReach = true
					}
				}
				// no two scheds on one path; none on a non-client path (never taking a `kind == client` edge)
				double := false
				for _, s := range sites {
					if s.Parent() != hResp {
						continue
					}
					if d, _ := ssax.Reach(hResp, s, isSched, nil, nil); d {
						double = true
					}
					arg := s.Common().Args[len(s.Common().Args)-1]
					if !sameObject(arg, installed, c) {
						c.Ob("C16.once", fname(hResp)+"·scheduleRenewal argument", pos(c, s), false, "renewal is scheduled for "+ssax.Path(arg)+", not for the installed instance")
					}
				}
				nonClient, _ := ssax.Reach(hResp, install, isSched, nil, func(a, b *ssa.BasicBlock) bool { return clientYes[edge{a, b}] })
				switch {
				case !edgeReach:
					c.Ob("C16.once", key, pos(c, install), false, "the client branch is not reachable after the installation")
				case miss:
					c.Ob("C16.once", key, pos(c, install), false, "a client path reaches return without starting the renewal timer: the token would never be renewed", trace(c, tr)...)
				case double:
					c.Ob("C16.once", key, pos(c, install), false, "two renewal timers can be started on one path")
				case nonClient:
					c.Ob("C16.once", key, pos(c, install), false, "a renewal timer is started on a path that is not a `kind == client` path")
				default:
					c.Ob("C16.once", key, pos(c, install), true, "exactly one `go scheduleRenewal(installed)` on every client path")
				}
			}
		}
	}
	// (iv) gate
	{
		var lockC, waitC, openC ssa.CallInstruction
		var unlockD *ssa.Defer
		for _, call := range ssax.Calls(renew) {
			cal := ssax.Callee(call)
			switch {
			case cal == lockM && recvFromField(call, reqLocker):
				if _, isDefer := call.(*ssa.Defer); !isDefer {
					lockC = call
				}
			case cal == unlockM && recvFromField(call, reqLocker):
				if d, ok := call.(*ssa.Defer); ok {
					unlockD = d
				}
			case cal != nil && cal.Name() == "Wait" && recvFromField(call, pendingReq):
				waitC = call
			case cal == open:
				openC = call
			}
		}
		key := fname(renew) + "·lock→Wait→open, deferred unlock"
		switch {
		case lockC == nil:
			c.Ob("C16.gate", key, c.P.Pos(renew.Pos()), false, "renew does not take the request gate (reqLocker.lock)")
		case openC == nil:
			c.Fatal("C16.gate: renew no longer calls open")
		case waitC == nil:
			c.Ob("C16.gate", key, pos(c, openC), false, "renew does not wait for in-flight sends (pendingReq.Wait) before re-keying")
		case unlockD == nil:
			c.Ob("C16.gate", key, pos(c, openC), false, "reqLocker.unlock is not deferred: an error return leaves every later request blocked")
		case !(ssax.Dominates(lockC, waitC) && ssax.Dominates(waitC, openC) && ssax.Dominates(unlockD, openC)):
			c.Ob("C16.gate", key, pos(c, openC), false, "order is not lock → Wait → open with the unlock deferred before them")
		default:
			c.Ob("C16.gate", key, pos(c, openC), true, "reqLocker.lock dom pendingReq.Wait dom open; unlock deferred")
		}
		senderHonoursGate(c, "C16.gate")
	}
	// (v) overlap
	{
		var calls []ssa.CallInstruction
		for _, call := range ssax.CallsTo(vad, ivad) {
			calls = append(calls, call)
		}
		found := false
		for _, call := range calls {
			blk := call.Block()
			// in a cycle?
			inLoop, _ := ssax.Reach(vad, call, func(in ssa.Instruction) bool { return in == call.(ssa.Instruction) }, nil, nil)
			if !inLoop {
				continue
			}
			found = true
			// receiver must be an element of the slice returned by the lookup of instances by channel id
			// error edge: find If on err != nil / == nil following the call
			okShape := true
			detail := "loop over all instances; only the err==nil edge returns data"
			var errV ssa.Value
			if cv, ok := call.(*ssa.Call); ok {
				if refs := cv.Referrers(); refs != nil {
					for _, r := range *refs {
						if ex, ok := r.(*ssa.Extract); ok && ex.Index == 1 {
							errV = ex
						}
					}
				}
			}
			if errV == nil {
				okShape = false
				detail = "error result of the per-instance verification is not examined"
			} else {
				// every Return reachable from the call without re-entering the call's block
				// must be on the err == nil edge
				for _, ret := range ssax.Returns(vad) {
					reach, _ := ssax.Reach(vad, call, func(in ssa.Instruction) bool { return in == ssa.Instruction(ret) }, func(in ssa.Instruction) bool { return in == call.(ssa.Instruction) }, nil)
					if !reach {
						continue
					}
					// is ret dominated by err == nil fact?
					nilEdge := false
					for _, f := range ssax.FactsAt(ret) {
						if f.Op == token.EQL && (f.X == errV || samePhi(f.X, errV)) && ssax.IsNil(f.Y) {
							nilEdge = true
						}
					}
					if nilEdge {
						continue
					}
					// a return after the loop is exhausted is fine if the loop condition (index bound) is what leads there
					if loopExhausted(ret, blk) {
						continue
					}
					okShape = false
					detail = "a failed verification with one instance returns without trying the remaining instances"
				}
			}
			c.Ob("C16.overlap", fname(vad)+"·try every instance", pos(c, call), okShape, detail)
		}
		if !found {
			c.Ob("C16.overlap", fname(vad)+"·try every instance", c.P.Pos(vad.Pos()), false, "the per-instance verification is not inside a loop over the stored instances: traffic under the previous token is rejected during the overlap")
		}
	}
	// server side observation (evidence only)
	hReq := fn(c, "uasc", "SecureChannel", "handleOpenSecureChannelRequest")
	opening := field(c, "uasc", "SecureChannel", "openingInstance")
	if hReq != nil && opening != nil {
		if fresh, why := resetsOpening(c, hReq, opening, c.Depth); !fresh {
			c.Info("C16.overlap", fname(hReq)+"·server renewal re-keys the installed instance in place", c.P.Pos(hReq.Pos()), "evidence only: "+why+" — a conforming peer that keeps using the previous token during the overlap is rejected")
		}
	}
}

func samePhi(a, b ssa.Value) bool {
	if p, ok := a.(*ssa.Phi); ok {
		for _, e := range p.Edges {
			if e == b {
				return true
			}
		}
	}
	return false
}

// loopExhausted: ret is reached via the false edge of a loop condition, i.e. it
// is not dominated by the block of the call (the loop body).
func loopExhausted(ret *ssa.Return, body *ssa.BasicBlock) bool {
	return !body.Dominates(ret.Block())
}

func constOf(c *core.Ctx, short, name string) *int64 {
	pk := c.P.Lib[short]
	if pk == nil {
		return nil
	}
	k, ok := pk.Types.Scope().Lookup(name).(*types.Const)
	if !ok {
		c.Fatal("unresolved anchor: constant %s.%s", short, name)
		return nil
	}
	v, ok := constant.Int64Val(k.Val())
	if !ok {
		return nil
	}
	return &v
}

// scaledBase walks from the non-constant operand of a `x * K` scaling back through conversions, unit
// getters of time.Duration (Seconds, Milliseconds, ...) and arithmetic with constants to the field load the
// quantity comes from. It returns the field and the object it is loaded from (nil, nil if it is anything else).
func scaledBase(v ssa.Value) (*types.Var, ssa.Value) {
	for i := 0; i < 12; i++ {
		switch x := v.(type) {
		case *ssa.Convert:
			v = x.X
		case *ssa.ChangeType:
			v = x.X
		case *ssa.Call:
			cal := ssax.Callee(x)
			if cal == nil || cal.Pkg() == nil || cal.Pkg().Path() != "time" || len(x.Call.Args) != 1 {
				return nil, nil
			}
			v = x.Call.Args[0]
		case *ssa.BinOp:
			if _, ok := x.Y.(*ssa.Const); ok {
				v = x.X
			} else if _, ok := x.X.(*ssa.Const); ok {
				v = x.Y
			} else {
				return nil, nil
			}
		case *ssa.UnOp:
			if x.Op != token.MUL {
				return nil, nil
			}
			fa, ok := x.X.(*ssa.FieldAddr)
			if !ok {
				return nil, nil
			}
			st := fa.X.Type().Underlying().(*types.Pointer).Elem().Underlying().(*types.Struct)
			return st.Field(fa.Field), fa.X
		default:
			return nil, nil
		}
	}
	return nil, nil
}

// scaledFromInstanceLifetime: the quantity scaled at site s is <param instance>.revisedLifetime.
func scaledFromInstanceLifetime(f *ssa.Function, s scaleSite, lifetime *types.Var) (bool, string) {
	nonConst := s.in.X
	if _, ok := nonConst.(*ssa.Const); ok {
		nonConst = s.in.Y
	}
	fld, base := scaledBase(nonConst)
	if fld == nil {
		return false, "the scaled quantity " + ssax.Path(nonConst) + " is not a field load"
	}
	if fld != lifetime {
		return false, "the scaled quantity is " + ssax.FieldString(fld) + ", not the token's own " + ssax.FieldString(lifetime)
	}
	p, ok := base.(*ssa.Parameter)
	if !ok || len(f.Params) < 2 || p != f.Params[1] {
		return false, "the lifetime is read from " + ssax.Path(base) + ", not from the instance being scheduled"
	}
	return true, "scaled quantity is " + p.Name() + "." + fld.Name()
}

// inBackSlice reports whether target is among the transitive operands of v (within one function).
func inBackSlice(v ssa.Value, target ssa.Value) bool {
	seen := map[ssa.Value]bool{}
	var walk func(ssa.Value) bool
	walk = func(x ssa.Value) bool {
		if x == nil || seen[x] {
			return false
		}
		seen[x] = true
		if x == target {
			return true
		}
		in, ok := x.(ssa.Instruction)
		if !ok {
			return false
		}
		for _, op := range in.Operands(nil) {
			if *op != nil && walk(*op) {
				return true
			}
		}
		return false
	}
	return walk(v)
}

// timerArgs lists the duration arguments of time.NewTimer / time.After / time.AfterFunc calls in f.
func timerArgs(f *ssa.Function) []ssa.Value {
	var out []ssa.Value
	for _, b := range f.Blocks {
		for _, in := range b.Instrs {
			call, ok := in.(ssa.CallInstruction)
			if !ok {
				continue
			}
			cal := ssax.Callee(call)
			if cal == nil || cal.Pkg() == nil || cal.Pkg().Path() != "time" {
				continue
			}
			switch cal.Name() {
			case "NewTimer", "After", "AfterFunc", "Sleep":
				out = append(out, call.Common().Args[0])
			}
		}
	}
	// a private helper that arms the timer with one of its parameters: the argument at the call site counts
	for _, call := range ssax.Calls(f) {
		if _, isGo := call.(*ssa.Go); isGo {
			continue
		}
		h := call.Common().StaticCallee()
		if !isPrivateHelper(f, h) || h == f {
			continue
		}
		for _, ta := range timerArgsLocal(h) {
			for i, p := range h.Params {
				if i < len(call.Common().Args) && inBackSlice(ta, p) {
					out = append(out, call.Common().Args[i])
				}
			}
		}
	}
	return out
}

func timerArgsLocal(f *ssa.Function) []ssa.Value {
	var out []ssa.Value
	for _, b := range f.Blocks {
		for _, in := range b.Instrs {
			call, ok := in.(ssa.CallInstruction)
			if !ok {
				continue
			}
			cal := ssax.Callee(call)
			if cal == nil || cal.Pkg() == nil || cal.Pkg().Path() != "time" {
				continue
			}
			switch cal.Name() {
			case "NewTimer", "After", "AfterFunc", "Sleep":
				out = append(out, call.Common().Args[0])
			}
		}
	}
	return out
}

// senderHonoursGate: SendRequestWithTimeout waits on the request gate before it fetches the active token instance.
// A sender that picks the instance first and then parks at the gate continues, after the renewal, with the superseded
// instance: it numbers its chunks from the stale counter (C11) and secures them with the old keys (C16).
func senderHonoursGate(c *core.Ctx, rule string) {
	reqLocker := field(c, "uasc", "SecureChannel", "reqLocker")
	srt := fn(c, "uasc", "SecureChannel", "SendRequestWithTimeout")
	waitIf := obj(c, "uasc", "conditionLocker", "waitIfLock")
	getActive := obj(c, "uasc", "SecureChannel", "getActiveChannelInstance")
	if reqLocker == nil || srt == nil || waitIf == nil || getActive == nil {
		return
	}
	var w, g ssa.CallInstruction
	for _, call := range ssax.Calls(srt) {
		if ssax.Callee(call) == waitIf && recvFromField(call, reqLocker) {
			w = call
		}
		if ssax.Callee(call) == getActive {
			g = call
		}
	}
	ok := w != nil && g != nil && ssax.Dominates(w, g)
	c.Ob(rule, fname(srt)+"·waitIfLock before getActiveChannelInstance", c.P.Pos(srt.Pos()), ok, "senders wait on the renewal gate before choosing the token instance: "+boolStr(ok))
}
