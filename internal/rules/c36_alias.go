package rules

import (
	"go/token"
	"go/types"

	"golang.org/x/tools/go/ssa"

	"verif/internal/core"
	"verif/internal/lockset"
	"verif/internal/ssax"
)

// c36Alias: an element slice taken out of a guarded container is still the container's storage.
//
// `items := s.Nodes[id]` under the lock copies a slice header; the elements it covers are the ones a writer compacts
// in place (slices.Delete, element stores) under the same lock. Reading `items[i]` after the lock was released races
// with that writer although every access to the field itself is locked. Obligation: for every guarded field whose
// elements are slices and which has an in-place writer somewhere in the library, every element read of a slice value
// loaded from it (directly or through a lookup) happens with the mutex held — or the value was detached first
// (copied into a fresh slice).
func c36Alias(c *core.Ctx, ls *lockset.Analysis, fns []*ssa.Function) {
	c.Rule("C36.alias", "the elements of a slice taken out of a guarded container (items := s.Nodes[id]) are read only while the container's mutex is still held, when some writer changes such slices in place (element stores, slices.Delete / Insert / sort): the slice header is a copy, the elements are not", 1)
	n := 0
	for _, g := range guardedBy {
		fl := c.P.Field(g.pkg, g.typ, g.field)
		if fl == nil {
			continue
		}
		// containers of slices only: map[K][]T, [][]T
		var elem types.Type
		switch t := fl.Type().Underlying().(type) {
		case *types.Map:
			elem = t.Elem()
		case *types.Slice:
			elem = t.Elem()
		}
		if elem == nil {
			continue
		}
		if _, isSl := elem.Underlying().(*types.Slice); !isSl {
			continue
		}
		mutex := c.P.FieldPath(g.mutex)
		inPlace := hasElementStores(c, fl) || hasInPlaceCalls(c, fl)
		for _, f := range fns {
			for _, b := range f.Blocks {
				for _, in := range b.Instrs {
					// the element slice: a lookup / indexed load on the loaded field
					var v ssa.Value
					switch x := in.(type) {
					case *ssa.Lookup:
						if loadedField(x.X).f == fl {
							v = x
						}
					case *ssa.UnOp:
						if x.Op == token.MUL {
							if ia, ok := x.X.(*ssa.IndexAddr); ok && loadedField(ia.X).f == fl {
								v = x
							}
						}
					}
					if v == nil {
						continue
					}
					// detached: the entry is removed from the container under the same key before the reads — the
					// slice is then private to this activation (`items := m[k]; delete(m, k); unlock; use items`)
					var detach []ssa.Instruction
					if lk, ok := v.(*ssa.Lookup); ok {
						for _, ms := range ssax.ContainerSites(f, fl) {
							if ms.Kind == ssax.MapDelete && ssax.Strip(ms.Key) == ssax.Strip(lk.Index) {
								detach = append(detach, ms.Instr)
							}
						}
					}
					detachedAt := func(at ssa.Instruction) bool {
						for _, d := range detach {
							if ssax.Dominates(d, at) {
								return true
							}
						}
						return false
					}
					// element reads of v (through comma-ok extraction, phis and re-slicing)
					seen := map[ssa.Value]bool{}
					var walk func(w ssa.Value)
					walk = func(w ssa.Value) {
						if seen[w] {
							return
						}
						seen[w] = true
						refs := w.Referrers()
						if refs == nil {
							return
						}
						for _, r := range *refs {
							switch y := r.(type) {
							case *ssa.Extract:
								if y.Index == 0 {
									walk(y)
								}
							case *ssa.Phi:
								walk(y)
							case *ssa.Slice:
								if y.X == w {
									walk(y)
								}
							case *ssa.IndexAddr:
								if y.X != w {
									continue
								}
								// a load through it is an element read
								if yr := y.Referrers(); yr != nil {
									for _, u := range *yr {
										ld, ok := u.(*ssa.UnOp)
										if !ok || ld.Op != token.MUL {
											continue
										}
										n++
										held := ls.HeldAt(ld).Holds(mutex, false)
										det := detachedAt(ld)
										ok2 := held || !inPlace || det
										detail := "mutex held at the element read: " + boolStr(held) + "; the entry was removed from the container first: " + boolStr(det) + "; some writer changes these slices in place: " + boolStr(inPlace)
										c.Ob("C36.alias", fname(ssax.Outermost(f))+"·element read of a slice taken from "+g.typ+"."+g.field, pos(c, ld), ok2, detail)
									}
								}
							case *ssa.Range:
								if y.X == w {
									n++
									held := ls.HeldAt(y).Holds(mutex, false)
									c.Ob("C36.alias", fname(ssax.Outermost(f))+"·range over a slice taken from "+g.typ+"."+g.field, pos(c, y), held || !inPlace || detachedAt(y), "mutex held: "+boolStr(held)+"; detached first: "+boolStr(detachedAt(y))+"; in-place writers: "+boolStr(inPlace))
								}
							}
						}
					}
					walk(v)
				}
			}
		}
	}
	c.Count("element reads of slices taken out of guarded containers", n)
}

// hasInPlaceCalls: some function hands a slice loaded from the container to slices.Delete / Insert / Reverse / Sort*
// or sort.Slice*, which rewrite the elements of their argument.
func hasInPlaceCalls(c *core.Ctx, fl *types.Var) bool {
	for _, f := range libFns(c) {
		for _, call := range ssax.Calls(f) {
			cal := ssax.Callee(call)
			if cal == nil || cal.Pkg() == nil {
				continue
			}
			p := cal.Pkg().Path()
			if p != "slices" && p != "sort" && p != "golang.org/x/exp/slices" {
				continue
			}
			switch cal.Name() {
			case "Delete", "DeleteFunc", "Insert", "Reverse", "Sort", "SortFunc", "SortStableFunc", "Slice", "SliceStable", "Compact", "CompactFunc", "Replace":
			default:
				continue
			}
			if len(call.Common().Args) == 0 {
				continue
			}
			x := ssax.Strip(call.Common().Args[0])
			if mi, ok := x.(*ssa.MakeInterface); ok {
				x = ssax.Strip(mi.X)
			}
			if loadedField(x).f == fl {
				return true
			}
			if lk, ok := x.(*ssa.Lookup); ok && loadedField(lk.X).f == fl {
				return true
			}
			if ex, ok := x.(*ssa.Extract); ok {
				if lk, ok := ex.Tuple.(*ssa.Lookup); ok && loadedField(lk.X).f == fl {
					return true
				}
			}
		}
	}
	return false
}
