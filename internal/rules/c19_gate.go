package rules

import (
	"go/token"
	"go/types"

	"golang.org/x/tools/go/ssa"

	"verif/internal/core"
	"verif/internal/ssax"
)

// condMethod reports the name of the (*sync.Cond) method a call invokes ("" if none).
func condMethod(call ssa.CallInstruction) string {
	cal := ssax.Callee(call)
	if cal == nil || cal.Pkg() == nil || cal.Pkg().Path() != "sync" {
		return ""
	}
	sig, _ := cal.Type().(*types.Signature)
	if sig == nil || sig.Recv() == nil {
		return ""
	}
	p, ok := sig.Recv().Type().(*types.Pointer)
	if !ok {
		return ""
	}
	n, ok := p.Elem().(*types.Named)
	if !ok || n.Obj().Name() != "Cond" {
		return ""
	}
	return cal.Name()
}

// c19Gate: the renewal / open gates (conditionLocker) release every waiter.
//
// Any number of requests can queue in waitIfLock while a renewal holds the request gate; when the renewal ends
// (also with a timeout) all of them must continue. That needs: unlock clears the flag and then wakes ALL waiters
// (Broadcast, not Signal) on every path; waiters re-check the flag in a loop; and no (*sync.Cond).Signal exists
// anywhere in the library for a condition with possibly several waiters.
func c19Gate(c *core.Ctx) {
	c.Rule("C19.gate", "conditionLocker.unlock stores false to bLock and afterwards calls lockCnd.Broadcast on every path to its return; waitIfLock calls Wait only inside a loop whose condition re-reads bLock; no library code wakes a sync.Cond with Signal (one waiter released, the others keep blocking past their timeout)", 3)
	unlock := fn(c, "uasc", "conditionLocker", "unlock")
	wait := fn(c, "uasc", "conditionLocker", "waitIfLock")
	bLock := field(c, "uasc", "conditionLocker", "bLock")
	if unlock == nil || wait == nil || bLock == nil {
		return
	}
	// (1) unlock: store false, then Broadcast, on every path
	{
		isBroadcast := func(in ssa.Instruction) bool {
			call, ok := in.(ssa.CallInstruction)
			if !ok {
				return false
			}
			if _, isDefer := in.(*ssa.Defer); isDefer {
				return false
			}
			return condMethod(call) == "Broadcast"
		}
		isRet := func(in ssa.Instruction) bool { _, ok := in.(*ssa.Return); return ok }
		var clear ssa.Instruction
		for _, a := range ssax.FieldAccesses(unlock, bLock) {
			if st, ok := a.Use.(*ssa.Store); ok && a.Kind == ssax.Write {
				if k, ok := st.Val.(*ssa.Const); ok && k.Value != nil && k.Value.String() == "false" {
					clear = st
				}
			}
		}
		if clear == nil {
			// `c.setLocked(false)`: a private setter that stores its parameter into the flag, called with false
			for _, call := range ssax.Calls(unlock) {
				h := call.Common().StaticCallee()
				if _, isDefer := call.(*ssa.Defer); isDefer || !isPrivateHelper(unlock, h) {
					continue
				}
				for _, a := range ssax.FieldAccesses(h, bLock) {
					st, ok := a.Use.(*ssa.Store)
					if !ok || a.Kind != ssax.Write {
						continue
					}
					par, ok := st.Val.(*ssa.Parameter)
					if !ok {
						continue
					}
					// the store is on every path of the setter
					missing, _ := ssax.Reach(h, nil, isRet, func(in ssa.Instruction) bool { return in == ssa.Instruction(st) }, nil)
					for i, q := range h.Params {
						if q == par && !missing && i < len(call.Common().Args) {
							if k, ok := call.Common().Args[i].(*ssa.Const); ok && k.Value != nil && k.Value.String() == "false" {
								clear = call
							}
						}
					}
				}
			}
		}
		if clear == nil {
			c.Ob("C19.gate", fname(unlock)+"·clears bLock", c.P.Pos(unlock.Pos()), false, "no `bLock = false` store found")
		} else {
			// every path entry→return passes the clear; every path clear→return passes a Broadcast
			missClear, _ := ssax.Reach(unlock, nil, isRet, func(in ssa.Instruction) bool { return in == clear }, nil)
			c.Ob("C19.gate", fname(unlock)+"·clears bLock", pos(c, clear), !missClear, "bLock = false on every path: "+boolStr(!missClear))
			miss, tr := ssax.Reach(unlock, clear, isRet, isBroadcast, nil)
			c.Ob("C19.gate", fname(unlock)+"·Broadcast after clearing", pos(c, clear), !miss, "every path from `bLock = false` to return calls (*sync.Cond).Broadcast: "+boolStr(!miss), trace(c, tr)...)
		}
	}
	// (2) waitIfLock: Wait inside a loop that re-reads bLock
	{
		n := 0
		for _, b := range wait.Blocks {
			for _, in := range b.Instrs {
				call, ok := in.(ssa.CallInstruction)
				if !ok || condMethod(call) != "Wait" {
					continue
				}
				n++
				inLoop := false
				for _, l := range ssax.Loops(wait) {
					if !l.Blocks[b] {
						continue
					}
					// the loop header's condition reads bLock
					if iff, ok := l.Header.Instrs[len(l.Header.Instrs)-1].(*ssa.If); ok {
						if u, ok := iff.Cond.(*ssa.UnOp); ok && u.Op == token.MUL {
							if fa, ok := u.X.(*ssa.FieldAddr); ok && fieldOf(fa) == bLock {
								inLoop = true
							}
						}
					}
				}
				c.Ob("C19.gate", fname(wait)+"·Wait in `for bLock` loop", pos(c, in), inLoop, "the wait re-checks the flag after every wake-up: "+boolStr(inLoop))
			}
		}
		if n == 0 {
			c.Ob("C19.gate", fname(wait)+"·Wait in `for bLock` loop", c.P.Pos(wait.Pos()), false, "no (*sync.Cond).Wait found")
		}
	}
	// (2b) SecureChannel.open releases the receive gate whichever way it ends: the dispatcher locks rcvLocker when it
	// hands over an OPN response and parks until open() is done; if open's exchange ends by timeout, cancellation or
	// disconnect the handler never runs, so the release must be deferred in open itself
	if open := fn(c, "uasc", "SecureChannel", "open"); open != nil {
		rcv := field(c, "uasc", "SecureChannel", "rcvLocker")
		unlockO := obj(c, "uasc", "conditionLocker", "unlock")
		var d *ssa.Defer
		for _, call := range ssax.Calls(open) {
			if df, ok := call.(*ssa.Defer); ok && ssax.Callee(df) == unlockO && rcv != nil && recvFromField(df, rcv) {
				d = df
			}
		}
		ok := d != nil
		if ok {
			for _, r := range ssax.Returns(open) {
				if r.Block() != open.Recover && !ssax.Dominates(d, r) {
					ok = false
				}
			}
		}
		c.Ob("C19.gate", fname(open)+"·rcvLocker.unlock deferred on every path", c.P.Pos(open.Pos()), ok, "open() itself defers the release of the receive gate before any return: "+boolStr(ok)+" (released only from the response handler, a timed-out exchange leaves the dispatcher parked for ever)")
	}
	// (3) no Signal in the library
	nSig := 0
	for _, f := range libFns(c) {
		for _, b := range f.Blocks {
			for _, in := range b.Instrs {
				if call, ok := in.(ssa.CallInstruction); ok && condMethod(call) == "Signal" {
					nSig++
					c.Ob("C19.gate", fname(f)+"·(*sync.Cond).Signal", pos(c, in), false, "Signal wakes one waiter; the gate conditions have one waiter per queued request")
				}
			}
		}
	}
	c.Ob("C19.gate", "library·no (*sync.Cond).Signal", c.P.Pos(unlock.Pos()), nSig == 0, "Signal call sites in library code: "+itoa(nSig))
}

func fieldOf(fa *ssa.FieldAddr) *types.Var {
	p, ok := fa.X.Type().Underlying().(*types.Pointer)
	if !ok {
		return nil
	}
	st, ok := p.Elem().Underlying().(*types.Struct)
	if !ok {
		return nil
	}
	return st.Field(fa.Field)
}
