package rules

import (
	"go/ast"
	"go/token"
	"go/types"
	"sort"
	"strings"

	"golang.org/x/tools/go/ssa"

	"verif/internal/codec"
	"verif/internal/core"
	"verif/internal/ssax"
)

func init() { register("C07", c07); register("C08", c08) }

// headerSizes derives the encoded size of the fixed-layout headers from their
// Encode scripts: uasc.Header, SymmetricSecurityHeader, SequenceHeader, uacp.Header.
type layout struct {
	header, sym, seq, uacpHeader int
	msgSizeOffset                int // offset of MessageSize inside uasc.Header
	asymPrefixes                 int // number of length-prefixed fields of AsymmetricSecurityHeader
}

func deriveLayout(c *core.Ctx) (layout, bool) {
	var l layout
	ok := true
	for _, cp := range codecPairs(c, "uasc", "uacp") {
		if cp.dec == nil {
			continue
		}
		d := codec.Script(cp.dec, cp.pkg.TypesInfo, isBufferType, true)
		switch cp.name {
		case "uasc.Header":
			l.header = codec.Size(d)
			off := 0
			for _, s := range d {
				if s.Field == "MessageSize" {
					l.msgSizeOffset = off
				}
				off += s.Width
			}
		case "uasc.SymmetricSecurityHeader":
			l.sym = codec.Size(d)
		case "uasc.SequenceHeader":
			l.seq = codec.Size(d)
		case "uacp.Header":
			l.uacpHeader = codec.Size(d)
		case "uasc.AsymmetricSecurityHeader":
			for _, s := range d {
				if s.Prim == "String" || s.Prim == "Bytes" {
					l.asymPrefixes++
				}
			}
		}
	}
	if l.header <= 0 || l.sym <= 0 || l.seq <= 0 || l.uacpHeader <= 0 || l.asymPrefixes == 0 {
		ok = false
	}
	return l, ok
}

// constsIn returns the integer constants that appear as operands of add/sub in fn, with the instruction.
type constUse struct {
	k  int64
	in ssa.Instruction
}

func sliceLowConsts(f *ssa.Function) []constUse {
	var out []constUse
	for _, b := range f.Blocks {
		for _, in := range b.Instrs {
			if sl, ok := in.(*ssa.Slice); ok && sl.Low != nil {
				if k, ok := ssax.ConstInt(sl.Low); ok {
					out = append(out, constUse{k, in})
				}
			}
		}
	}
	return out
}

func c07(c *core.Ctx) {
	initOwners(c)
	c.P.BuildSSA()
	l, ok := deriveLayout(c)
	if !ok {
		c.Fatal("C07: cannot derive header sizes from the codecs: %+v", l)
		return
	}
	c.Note("derived layout: uasc.Header=%d SymmetricSecurityHeader=%d SequenceHeader=%d uacp.Header=%d MessageSize offset=%d asym length prefixes=%d", l.header, l.sym, l.seq, l.uacpHeader, l.msgSizeOffset, l.asymPrefixes)
	setMax := fn(c, "uasc", "channelInstance", "SetMaximumBodySize")
	sign := fn(c, "uasc", "channelInstance", "signAndEncrypt")
	verify := fn(c, "uasc", "channelInstance", "verifyAndDecrypt")
	encChunks := fn(c, "uasc", "Message", "EncodeChunks")
	asymLen := fn(c, "uasc", "AsymmetricSecurityHeader", "Len")
	symLen := fn(c, "uasc", "SymmetricSecurityHeader", "Len")
	readChunk := fn(c, "uasc", "SecureChannel", "readChunk")
	sendAsync := fn(c, "uasc", "SecureChannel", "sendAsyncWithTimeout")
	writeChunks := fn(c, "uasc", "SecureChannel", "writeMessageChunks")
	if setMax == nil || sign == nil || verify == nil || encChunks == nil || asymLen == nil || symLen == nil || readChunk == nil || sendAsync == nil || writeChunks == nil {
		return
	}
	c.Rule("C07.consts", "every literal used as header size or patch offset in the chunking code equals the size/offset derived from the corresponding header codecs (12, 4, 8, 16, 24, MessageSize offset 4, 3×4 length prefixes, uacp hdrlen 8)", 11)
	c.Rule("C07.flags", "EncodeChunks writes every chunk produced inside the loop after ChunkType = Intermediate and the one after the loop after ChunkType = Final; the number of chunks and the bytes taken per chunk use the same maxBodySize", 3)
	c.Rule("C07.sizefix", "in signAndEncrypt the MessageSize patch (PutUint32(b[4:], headerLength+encryptedLength)) comes after all padding bytes were appended and before the signature is computed", 2)
	c.Rule("C07.lockstep", "signAndEncrypt encrypts under exactly the condition under which verifyAndDecrypt decrypts (same normalised condition over SecurityMode and isAsymmetric), likewise for the padding branch; the extra-padding test uses the peer-key signature length on the sender and the own-key length on the receiver", 3)

	c06Overhead(c, "C07.overhead")
	c.Rule("C07.merge", "mergeChunks drops a chunk only when its sequence number EQUALS that of the chunk taken before it (C10.dupfilter applies verbatim): any wider test (<=, a window) also drops the chunks that follow a sequence-number wrap-around inside a multi-chunk message, and the peer reassembles a truncated body", 1)
	{
		tmp := core.NewCtx(c.Prop, c.Tier, c.P)
		c10(tmp)
		for _, e := range tmp.Errors {
			c.Fatal("%s", e)
		}
		for _, o := range tmp.Obs {
			if o.Rule == "C10.dupfilter" {
				c.Ob("C07.merge", o.Key, o.Pos, o.OK, o.Detail)
			}
		}
	}
	c.Rule("C07.retry", "verifyAndDecrypt (and what it calls in uasc) never writes into the chunk bytes it was handed (C20.nowrite applies verbatim): readChunk offers the same bytes to every token instance in turn, so an attempt under the wrong keys must leave them intact for the instance that matches", 1)
	{
		tmp := core.NewCtx(c.Prop, c.Tier, c.P)
		c20(tmp)
		for _, e := range tmp.Errors {
			c.Fatal("%s", e)
		}
		in := reachableFrom(c, []*ssa.Function{verify}, "uasc")
		for _, o := range tmp.Obs {
			if o.Rule != "C20.nowrite" {
				continue
			}
			for f := range in {
				if strings.HasPrefix(o.Key, fname(f)+"·") {
					c.Ob("C07.retry", o.Key, o.Pos, o.OK, o.Detail)
					break
				}
			}
		}
	}

	ci := func(rule, key string, got int64, want int, at ssa.Instruction, what string) {
		p := "-"
		if at != nil {
			p = pos(c, at)
		}
		c.Ob(rule, key, p, got == int64(want), what+": literal "+fmtInt(int(got))+", derived from the codecs "+fmtInt(want))
	}
	// SetMaximumBodySize: constants subtracted from chunkSize before the division and after the multiplication
	{
		var before, after int64
		var anyAt ssa.Instruction
		chunk := setMax.Params[1]
		var walkSub func(v ssa.Value) (int64, bool)
		walkSub = func(v ssa.Value) (int64, bool) {
			v = ssax.Strip(v)
			if v == ssa.Value(chunk) {
				return 0, true
			}
			if bo, ok := v.(*ssa.BinOp); ok && bo.Op == token.SUB {
				if k, isK := ssax.ConstInt(bo.Y); isK {
					if s, ok := walkSub(bo.X); ok {
						return s + k, true
					}
				}
			}
			return 0, false
		}
		for _, b := range setMax.Blocks {
			for _, in := range b.Instrs {
				bo, ok := in.(*ssa.BinOp)
				if !ok {
					continue
				}
				if bo.Op == token.QUO {
					if s, ok := walkSub(bo.X); ok {
						before = s
						anyAt = bo
					}
				}
				if bo.Op == token.SUB {
					// (plain * floor(...)) - K
					if m, ok := ssax.Strip(bo.X).(*ssa.BinOp); ok && m.Op == token.MUL {
						if k, isK := ssax.ConstInt(bo.Y); isK {
							after = k
						}
					}
				}
			}
		}
		ci("C07.consts", "uasc.SetMaximumBodySize·headerSize+symmetricAlgorithmHeader", before, l.header+l.sym, anyAt, "bytes reserved for message header and symmetric security header")
		ci("C07.consts", "uasc.SetMaximumBodySize·sequenceHeaderSize", after, l.seq, anyAt, "bytes reserved for the sequence header")
	}
	// headerLength = 12 + X.Len() in signAndEncrypt / verifyAndDecrypt
	for _, f := range []*ssa.Function{sign, verify} {
		found := false
		for _, b := range f.Blocks {
			for _, in := range b.Instrs {
				bo, ok := in.(*ssa.BinOp)
				if !ok || bo.Op != token.ADD {
					continue
				}
				for _, pr := range [][2]ssa.Value{{bo.X, bo.Y}, {bo.Y, bo.X}} {
					k, isK := ssax.ConstInt(pr[0])
					// the other operand is securityHeader.Len(), directly or as a variable assigned in both branches
					if isK && secHeaderLen(pr[1], 0) && !found {
						found = true
						ci("C07.consts", fname(f)+"·headerLength base", k, l.header, bo, "offset of the security header")
					}
				}
			}
		}
		if !found {
			c.Ob("C07.consts", fname(f)+"·headerLength base", c.P.Pos(f.Pos()), false, "headerLength is no longer `<message header size> + securityHeader.Len()`")
		}
	}
	// PutUint32(b[4:], …) in signAndEncrypt; PutUint32(chunk[16:], …) in the two senders
	putAt := func(f *ssa.Function) []constUse {
		var out []constUse
		for _, call := range ssax.Calls(f) {
			cal := ssax.Callee(call)
			if cal == nil || cal.Name() != "PutUint32" {
				continue
			}
			args := call.Common().Args
			if sl, ok := ssax.Strip(args[len(args)-2]).(*ssa.Slice); ok && sl.Low != nil {
				if k, ok := ssax.ConstInt(sl.Low); ok {
					out = append(out, constUse{k, call})
				}
			}
		}
		return out
	}
	for _, u := range putAt(sign) {
		ci("C07.consts", fname(sign)+"·MessageSize patch offset", u.k, l.msgSizeOffset, u.in, "offset of MessageSize in the message header")
	}
	for _, f := range []*ssa.Function{sendAsync, writeChunks} {
		for _, u := range putAt(f) {
			ci("C07.consts", fname(f)+"·sequence number patch offset", u.k, l.header+l.sym, u.in, "offset of SequenceNumber in a symmetric chunk")
		}
	}
	// EncodeChunks: + 24 twice, 12 + for OPN
	{
		for _, b := range encChunks.Blocks {
			for _, in := range b.Instrs {
				bo, ok := in.(*ssa.BinOp)
				if !ok || bo.Op != token.ADD {
					continue
				}
				for _, pr := range [][2]ssa.Value{{bo.X, bo.Y}, {bo.Y, bo.X}} {
					k, isK := ssax.ConstInt(pr[0])
					if !isK || k < 8 {
						continue
					}
					other := ssax.Path(pr[1])
					switch {
					case strings.Contains(other, "maxBodySize"):
						ci("C07.consts", fname(encChunks)+"·intermediate MessageSize = maxBodySize + headers", k, l.header+l.sym+l.seq, bo, "headers of a symmetric chunk")
					case strings.Contains(other, "Len(") && k == 24 || strings.Contains(other, "Len(") && k != int64(l.header):
						ci("C07.consts", fname(encChunks)+"·final MessageSize = headers + body", k, l.header+l.sym+l.seq, bo, "headers of a symmetric chunk")
					case strings.Contains(other, "Len("):
						ci("C07.consts", fname(encChunks)+"·OPN MessageSize = header + …", k, l.header, bo, "message header")
					}
				}
			}
		}
	}
	// Len() methods
	{
		for _, r := range ssax.Returns(symLen) {
			if k, ok := ssax.ConstInt(ssax.RetVal(r, 0)); ok {
				ci("C07.consts", fname(symLen)+"·returns the encoded size", k, l.sym, r, "SymmetricSecurityHeader size")
			}
		}
		for _, b := range asymLen.Blocks {
			for _, in := range b.Instrs {
				if bo, ok := in.(*ssa.BinOp); ok && bo.Op == token.ADD {
					for _, side := range []ssa.Value{bo.X, bo.Y} {
						if k, isK := ssax.ConstInt(side); isK && k != 0 {
							ci("C07.consts", fname(asymLen)+"·length prefixes", k, 4*l.asymPrefixes, bo, "three 4-byte length prefixes")
						}
					}
				}
			}
		}
	}
	// readChunk b[:12]
	for _, b := range readChunk.Blocks {
		for _, in := range b.Instrs {
			if sl, ok := in.(*ssa.Slice); ok && sl.Low == nil && sl.High != nil {
				if k, isK := ssax.ConstInt(sl.High); isK && byteSlice(sl.X) {
					ci("C07.consts", fname(readChunk)+"·header slice", k, l.header, sl, "bytes handed to Header.Decode")
				}
			}
		}
	}
	hdrlen := constOf(c, "uacp", "hdrlen")
	if hdrlen != nil {
		ci("C07.consts", "uacp.hdrlen", *hdrlen, l.uacpHeader, nil, "uacp header size")
	}

	// flags
	{
		chunkType := field(c, "uasc", "Header", "ChunkType")
		writeStruct := obj(c, "ua", "Buffer", "WriteStruct")
		interm, final := int64('C'), int64('F')
		// emission sites: a header write preceded by a ChunkType store. In EncodeChunks itself the site is the write;
		// in a private helper whose ChunkType store takes its value from a parameter, every call of the helper in
		// EncodeChunks is a site with the corresponding argument as kind.
		type emission struct {
			at   ssa.Instruction // instruction in EncodeChunks
			kind int64           // constant chunk type, -1 unknown
			set  bool            // a ChunkType store dominates the write
			stIn ssa.Instruction // the store (or the call) in EncodeChunks
		}
		var ems []emission
		loops := ssax.Loops(encChunks)
		inLoop := func(in ssa.Instruction) bool {
			for _, lp := range loops {
				if lp.Blocks[in.Block()] {
					return true
				}
			}
			return false
		}
		for _, g := range withHelpers(encChunks) {
			var stores []*ssa.Store
			for _, a := range ssax.FieldAccesses(g, chunkType) {
				if st, ok := a.Use.(*ssa.Store); ok && a.Kind == ssax.Write {
					stores = append(stores, st)
				}
			}
			for _, call := range ssax.CallsTo(g, writeStruct) {
				arg := call.Common().Args[1]
				mi, ok := arg.(*ssa.MakeInterface)
				if !ok {
					continue
				}
				if n := derefNamed(mi.X.Type()); n == nil || n.Obj().Name() != "Header" {
					continue
				}
				var last *ssa.Store
				for _, st := range stores {
					if ssax.Dominates(st, call) && (last == nil || ssax.Dominates(last, st)) {
						last = st
					}
				}
				if g == encChunks {
					e := emission{at: call, kind: -1, set: last != nil}
					if last != nil {
						e.kind, _ = ssax.ConstInt(last.Val)
						e.stIn = last
						if _, isK := ssax.ConstInt(last.Val); !isK {
							e.kind = -1
						}
					}
					ems = append(ems, e)
					continue
				}
				// helper: kind from a parameter → one emission per call site in EncodeChunks
				if last == nil {
					continue
				}
				pi := -1
				for i, p := range g.Params {
					if ssax.Strip(last.Val) == ssa.Value(p) {
						pi = i
					}
				}
				for _, cs := range ssax.Calls(encChunks) {
					if cs.Common().StaticCallee() != g {
						continue
					}
					e := emission{at: cs, kind: -1, set: true, stIn: cs}
					if k, isK := ssax.ConstInt(last.Val); isK {
						e.kind = k
					} else if pi >= 0 && pi < len(cs.Common().Args) {
						if k, isK := ssax.ConstInt(cs.Common().Args[pi]); isK {
							e.kind = k
						}
					}
					ems = append(ems, e)
				}
			}
		}
		nIn, nOut := 0, 0
		for _, e := range ems {
			w := e.at
			if inLoop(w) {
				nIn++
				c.Ob("C07.flags", fname(encChunks)+"·chunks written inside the loop are Intermediate", pos(c, w), e.kind == interm && e.set && inLoop(e.stIn), "ChunkType stored before the header is written: "+string(rune(e.kind)))
			} else if e.set {
				if e.kind == interm || e.kind == final {
					nOut++
					// OPN branch writes the header without touching ChunkType: only the symmetric final chunk matters
					c.Ob("C07.flags", fname(encChunks)+"·chunk written after the loop is Final", pos(c, w), e.kind == final, "ChunkType stored before the last header is written: "+string(rune(e.kind)))
				}
			}
		}
		if nIn == 0 || nOut == 0 {
			c.Ob("C07.flags", fname(encChunks)+"·intermediate/final header writes", c.P.Pos(encChunks.Pos()), false, "expected a header write inside the chunk loop and one after it")
		}
		// same maxBodySize for count and slice
		var divBy, readBy string
		for _, b := range encChunks.Blocks {
			for _, in := range b.Instrs {
				if bo, ok := in.(*ssa.BinOp); ok && bo.Op == token.QUO {
					divBy = ssax.Path(bo.Y)
				}
			}
		}
		readN := obj(c, "ua", "Buffer", "ReadN")
		for _, call := range ssax.CallsTo(encChunks, readN) {
			readBy = ssax.Path(call.Common().Args[1])
		}
		c.Ob("C07.flags", fname(encChunks)+"·chunk count and chunk body use the same size", c.P.Pos(encChunks.Pos()), divBy != "" && divBy == readBy, "nrChunks = len/"+divBy+"+1; each intermediate chunk takes "+readBy+" bytes")
	}
	// sizefix
	{
		var put, sigCall ssa.CallInstruction
		for _, call := range ssax.Calls(sign) {
			cal := ssax.Callee(call)
			if cal == nil {
				continue
			}
			if cal.Name() == "PutUint32" {
				put = call
			}
			if cal.Name() == "Signature" {
				sigCall = call
			}
		}
		ok1 := put != nil && sigCall != nil && ssax.Dominates(put, sigCall)
		c.Ob("C07.sizefix", fname(sign)+"·MessageSize patched before signing", c.P.Pos(sign.Pos()), ok1, "PutUint32(b[4:], size) dominates Signature(b): "+boolStr(ok1))
		// no append to b reachable after the patch before the signature append: i.e. padding appends precede
		late := false
		if put != nil && sigCall != nil {
			late, _ = ssax.Reach(sign, put, func(in ssa.Instruction) bool {
				call, ok := in.(*ssa.Call)
				return ok && ssax.IsBuiltin(call, "append") && ssax.Dominates(call, sigCall) && in != ssa.Instruction(put)
			}, func(in ssa.Instruction) bool { return in == ssa.Instruction(sigCall) }, nil)
		}
		c.Ob("C07.sizefix", fname(sign)+"·no padding appended after the size patch", c.P.Pos(sign.Pos()), !late && put != nil, "an append between the MessageSize patch and the signature: "+boolStr(late))
	}
	// lockstep
	{
		find := func(f *ssa.Function, name string) ssa.CallInstruction {
			for _, call := range ssax.Calls(f) {
				if cal := ssax.Callee(call); cal != nil && cal.Name() == name {
					return call
				}
			}
			return nil
		}
		enc, dec := find(sign, "Encrypt"), find(verify, "Decrypt")
		atoms := func(call ssa.CallInstruction, f *ssa.Function) string {
			if call == nil {
				return "<none>"
			}
			var s []string
			for _, a := range ssax.GuardAtoms(call, f.Params[0]) {
				// only conditions over SecurityMode / the asymmetric header matter
				if strings.Contains(a.Expr, "SecurityMode") || strings.Contains(a.Expr, "AsymmetricSecurityHeader") {
					s = append(s, fmtAtom(a))
				}
			}
			if d, ok := ssax.EntryDisjunction(call.Block(), f.Params[0]); ok {
				s = append(s, "("+d+")")
			}
			sort.Strings(s)
			return strings.Join(s, " && ")
		}
		ea, da := atoms(enc, sign), atoms(dec, verify)
		// decided semantically: for every (SecurityMode ∈ {Sign, SignAndEncrypt}) × (asymmetric header present or
		// not), Encrypt is reachable in signAndEncrypt exactly when Decrypt is reachable in verifyAndDecrypt — however
		// the two conditions are written (hoisted into variables, De Morgan, switch)
		cfgModeF := field(c, "uasc", "Config", "SecurityMode")
		asymHdrF1 := field(c, "uasc", "MessageHeader", "AsymmetricSecurityHeader")
		mSign, mSE := enumConst(c, "ua", "MessageSecurityModeSign"), enumConst(c, "ua", "MessageSecurityModeSignAndEncrypt")
		agree := enc != nil && dec != nil && cfgModeF != nil && mSign != nil && mSE != nil
		var table []string
		if agree {
			for _, mode := range []int64{*mSign, *mSE} {
				for _, asym := range []bool{false, true} {
					leaf := func(v ssa.Value) (bool, bool) {
						bo, ok := ssax.Strip(v).(*ssa.BinOp)
						if !ok || (bo.Op != token.EQL && bo.Op != token.NEQ) {
							return false, false
						}
						x, y := bo.X, bo.Y
						if _, isK := ssax.Strip(x).(*ssa.Const); isK {
							x, y = y, x
						}
						fl := loadedField(x).f
						switch {
						case fl == cfgModeF:
							if k, isK := ssax.ConstInt(y); isK {
								return (k == mode) == (bo.Op == token.EQL), true
							}
						case fl != nil && fl == asymHdrF1 && ssax.IsNil(y):
							return (!asym) == (bo.Op == token.EQL), true
						}
						return false, false
					}
					e := ssax.GuidedReach(sign, enc, leaf)
					d := ssax.GuidedReach(verify, dec, leaf)
					table = append(table, "mode="+fmtInt(int(mode))+" asym="+boolStr(asym)+": encrypt="+boolStr(e)+" decrypt="+boolStr(d))
					if e != d {
						agree = false
					}
				}
			}
		}
		_, _ = ea, da
		c.Ob("C07.lockstep", "uasc·encrypt condition == decrypt condition", c.P.Pos(sign.Pos()), agree, strings.Join(table, "; "))
		// extra padding
		sRemote, vOwn := false, false
		allCmpsH := func(f *ssa.Function) []ssax.Cmp {
			var out []ssax.Cmp
			for _, g := range withHelpers(f) {
				out = append(out, allCmps(g)...)
			}
			return out
		}
		for _, cmp := range allCmpsH(sign) {
			if k, ok := ssax.ConstInt(cmp.Y); ok && k == 256 && cmp.Op == token.GTR && strings.Contains(ssax.Path(cmp.X), "RemoteSignatureLength(") {
				sRemote = true
			}
		}
		for _, cmp := range allCmpsH(verify) {
			if k, ok := ssax.ConstInt(cmp.Y); ok && k == 256 && cmp.Op == token.GTR && strings.HasPrefix(ssax.Path(cmp.X), "SignatureLength(") {
				vOwn = true
			}
		}
		c.Ob("C07.lockstep", "uasc·extra padding byte: sender tests the peer key, receiver its own key", c.P.Pos(sign.Pos()), sRemote && vOwn, "sender tests RemoteSignatureLength() > 256: "+boolStr(sRemote)+"; receiver tests SignatureLength() > 256: "+boolStr(vOwn))
		// SetMaximumBodySize reserves the same extra byte with the sender's test
		mRemote := false
		for _, cmp := range allCmpsH(setMax) {
			if k, ok := ssax.ConstInt(cmp.Y); ok && k == 256 && cmp.Op == token.GTR && strings.Contains(ssax.Path(cmp.X), "RemoteSignatureLength(") {
				mRemote = true
			}
		}
		c.Ob("C07.lockstep", "uasc·SetMaximumBodySize reserves the extra padding byte like the sender", c.P.Pos(setMax.Pos()), mRemote, "tests RemoteSignatureLength() > 256: "+boolStr(mRemote))
	}
	_ = ast.NewIdent
	_ = types.Universe
}

// sameModuloNone: the two guard strings are equal once the `SecurityMode == None`
// atoms (sender's early return, receiver's carve-out) are removed.
func sameModuloNone(a, b string) bool {
	strip := func(s string) string {
		var out []string
		for _, x := range strings.Split(s, " && ") {
			if (strings.Contains(x, "SecurityMode==1)") || strings.Contains(x, "(1==")) && !strings.Contains(x, "||") {
				continue
			}
			out = append(out, x)
		}
		return strings.Join(out, " && ")
	}
	return strip(a) == strip(b)
}

func c08(c *core.Ctx) {
	initOwners(c)
	c.P.BuildSSA()
	c.Rule("C08.table", "per-policy parameter table against the Part 7 profiles: symmetric signature hash and length, derived key / IV lengths, AES key size, asymmetric encryption and signature schemes with their hashes, key size limits, nonce length", 15)
	c.Rule("C08.order", "signAndEncrypt: padding appended → size patched → Signature over the whole buffer from offset 0 → signature appended → Encrypt(b[headerLength:]); verifyAndDecrypt: Decrypt(b[headerLength:]) → signature split off the end → VerifySignature(message from offset 0, signature) → padding stripped only after verification", 6)
	c.Rule("C08.keys", "generateKeys lays the derived bytes out as signing key, encryption key, IV (P_SHA output order of Part 6 Table 33)", 3)

	// table and keys: the obligations of C14 / C15 apply verbatim
	for _, sub := range []struct {
		run   func(*core.Ctx)
		rules map[string]string
	}{{c14, map[string]string{"C14.table": "C08.table", "C14.layout": "C08.keys"}}, {c15, map[string]string{"C15.range": "C08.table", "C15.members": "C08.table"}}} {
		tmp := core.NewCtx(c.Prop, c.Tier, c.P)
		sub.run(tmp)
		for _, e := range tmp.Errors {
			c.Fatal("%s", e)
		}
		for _, o := range tmp.Obs {
			if to, ok := sub.rules[o.Rule]; ok {
				c.Ob(to, o.Key, o.Pos, o.OK, o.Detail)
			}
		}
	}
	c.Rule("C08.pss", "RSA-PSS signatures (Aes256_Sha256_RsaPss) are produced with a salt as long as the hash: every rsa.SignPSS call passes PSSOptions{SaltLength: rsa.PSSSaltLengthEqualsHash}", 1)
	pssSaltRule(c, "C08.pss")
	// the ExtraPaddingSize byte of Part 6 §6.7.2.5: present iff the key that encrypts (the receiver's) is larger than
	// 2048 bits — C07's lockstep obligations on the 256-byte tests apply verbatim
	c.Rule("C08.padding", "the ExtraPaddingSize byte is emitted iff the remote (encrypting) key's signature length exceeds 256 bytes and expected iff the local key's does (Part 6 §6.7.2.5); SetMaximumBodySize reserves it under the sender's test", 2)
	{
		tmp := core.NewCtx(c.Prop, c.Tier, c.P)
		c07(tmp)
		for _, e := range tmp.Errors {
			c.Fatal("%s", e)
		}
		for _, o := range tmp.Obs {
			if o.Rule == "C07.lockstep" && strings.Contains(o.Key, "extra padding") {
				c.Ob("C08.padding", o.Key, o.Pos, o.OK, o.Detail)
			}
		}
	}
	sign := fn(c, "uasc", "channelInstance", "signAndEncrypt")
	verify := fn(c, "uasc", "channelInstance", "verifyAndDecrypt")
	if sign == nil || verify == nil {
		return
	}
	find := func(f *ssa.Function, name string) ssa.CallInstruction {
		for _, call := range ssax.Calls(f) {
			if cal := ssax.Callee(call); cal != nil && cal.Name() == name {
				return call
			}
		}
		return nil
	}
	// sender
	{
		sig, enc := find(sign, "Signature"), find(sign, "Encrypt")
		ok := sig != nil && enc != nil
		// Signature over the whole buffer: argument is not a slice with a lower bound
		whole := false
		if sig != nil {
			arg := ssax.Strip(sig.Common().Args[1])
			if sl, isSl := arg.(*ssa.Slice); !isSl || sl.Low == nil {
				whole = true
			}
		}
		c.Ob("C08.order", fname(sign)+"·signature covers the chunk from offset 0", c.P.Pos(sign.Pos()), ok && whole, "Signature(b) over the whole buffer (headers included): "+boolStr(whole))
		// signature appended before encryption; Encrypt argument is b[headerLength:] of the buffer that holds the signature
		appended := false
		regionOK := false
		if ok {
			for _, b := range sign.Blocks {
				for _, in := range b.Instrs {
					call, isCall := in.(*ssa.Call)
					if !isCall || !ssax.IsBuiltin(call, "append") || len(call.Call.Args) != 2 {
						continue
					}
					if denotes(call.Call.Args[1], result(sig, 0)) && ssax.Dominates(sig, call) && ssax.Dominates(call, enc) {
						appended = true
						// Encrypt(p) with p = appended[headerLength:]
						if sl, isSl := ssax.Strip(enc.Common().Args[1]).(*ssa.Slice); isSl && ssax.Strip(sl.X) == ssa.Value(call) && sl.Low != nil && headerLenLike(sl.Low, int64(12)) {
							regionOK = true
						}
					}
				}
			}
		}
		c.Ob("C08.order", fname(sign)+"·signature appended before encryption", c.P.Pos(sign.Pos()), appended, "append(b, signature...) lies between Signature and Encrypt: "+boolStr(appended))
		c.Ob("C08.order", fname(sign)+"·encrypted region starts at headerLength", c.P.Pos(sign.Pos()), regionOK, "Encrypt(b[headerLength:]) of the signed buffer: "+boolStr(regionOK))
	}
	// receiver
	{
		dec, ver := find(verify, "Decrypt"), find(verify, "VerifySignature")
		ok := dec != nil && ver != nil && ssax.Dominates(dec, ver) == false // Decrypt is conditional; VerifySignature must not precede it
		_ = ok
		before := dec != nil && ver != nil
		if before {
			r, _ := ssax.Reach(verify, ver, func(in ssa.Instruction) bool { return in == ssa.Instruction(dec) }, nil, nil)
			before = !r
		}
		c.Ob("C08.order", fname(verify)+"·decrypt before verify", c.P.Pos(verify.Pos()), before, "Decrypt is never reached after VerifySignature: "+boolStr(before))
		regionOK := false
		if dec != nil {
			if sl, isSl := ssax.Strip(dec.Common().Args[1]).(*ssa.Slice); isSl && sl.Low != nil && headerLenLike(sl.Low, int64(12)) && sl.High == nil {
				regionOK = true
			}
		}
		c.Ob("C08.order", fname(verify)+"·decrypted region starts at headerLength", c.P.Pos(verify.Pos()), regionOK, "Decrypt(b[headerLength:]): "+boolStr(regionOK))
		shape := false
		if ver != nil {
			msg, isM := ssax.Strip(ver.Common().Args[1]).(*ssa.Slice)
			sg, isS := ssax.Strip(ver.Common().Args[2]).(*ssa.Slice)
			if isM && isS && msg.Low == nil && msg.High != nil && sg.Low != nil && sg.High == nil && ssax.Path(msg.High) == ssax.Path(sg.Low) && ssax.Path(msg.X) == ssax.Path(sg.X) {
				shape = true
			}
		}
		c.Ob("C08.order", fname(verify)+"·message = b[:n-sig], signature = b[n-sig:]", c.P.Pos(verify.Pos()), shape, "VerifySignature(b[:cut], b[cut:]) with one cut point: "+boolStr(shape))
	}
}

// secHeaderLen: v is a call of a Len method (of a security header), or a phi all of whose edges are — possibly plus a
// constant initial value that is overwritten on every path (headerLength := 12; if … { headerLength += X.Len() }).
func secHeaderLen(v ssa.Value, d int) bool {
	v = ssax.Strip(v)
	if d > 4 {
		return false
	}
	switch x := v.(type) {
	case *ssa.Call:
		cal := ssax.Callee(x)
		return cal != nil && cal.Name() == "Len"
	case *ssa.Phi:
		for _, e := range x.Edges {
			if !secHeaderLen(e, d+1) {
				return false
			}
		}
		return len(x.Edges) > 0
	}
	return false
}

// headerLenLike: v is computed from the message-header constant k and a security header's Len() (through additions and
// phis): the offset at which the encrypted region of a chunk starts, whatever the variable is called.
func headerLenLike(v ssa.Value, k int64) bool {
	hasK, hasLen := false, false
	seen := map[ssa.Value]bool{}
	var walk func(v ssa.Value, d int)
	walk = func(v ssa.Value, d int) {
		v = ssax.Strip(v)
		if v == nil || seen[v] || d > 8 {
			return
		}
		seen[v] = true
		if c, ok := ssax.ConstInt(v); ok {
			if c == k {
				hasK = true
			}
			return
		}
		switch x := v.(type) {
		case *ssa.Call:
			if cal := ssax.Callee(x); cal != nil && cal.Name() == "Len" {
				hasLen = true
			}
		case *ssa.BinOp:
			if x.Op == token.ADD {
				walk(x.X, d+1)
				walk(x.Y, d+1)
			}
		case *ssa.Phi:
			for _, e := range x.Edges {
				walk(e, d+1)
			}
		}
	}
	walk(v, 0)
	return hasK && hasLen
}
