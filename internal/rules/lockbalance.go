package rules

import (
	"sort"

	"golang.org/x/tools/go/ssa"

	"verif/internal/core"
	"verif/internal/lockset"
	"verif/internal/ssax"
)

// lockBalance: a function gives back every mutex it takes.
//
// Forward may-hold analysis per function: the set of mutexes (identity per type and field, read locks apart) that the
// function itself has locked and may still hold. At every return the set must be empty unless the release is deferred.
// A branch that returns early without the Unlock its sibling branches have leaves the mutex locked for ever: every later
// Lock — the publish loop's own, Subscribe, Cancel, the reconnect logic — blocks.
// Functions that are designed to return holding a lock (none in this code base) would be listed here with a reason.
func lockBalance(c *core.Ctx, rule string, shorts ...string) {
	n := 0
	for _, f := range libFns(c, shorts...) {
		if len(f.Blocks) == 0 {
			continue
		}
		// deferred releases (directly, or inside a deferred closure)
		deferred := map[string]bool{}
		locks := false
		for _, call := range ssax.Calls(f) {
			if op, ok := lockset.LockOp(call); ok && op.Mutex != "" {
				if d, isDefer := call.(*ssa.Defer); isDefer && !op.Acquire {
					_ = d
					deferred[lockKey(op)] = true
				}
				if op.Acquire {
					if _, isDefer := call.(*ssa.Defer); !isDefer {
						locks = true
					}
				}
			}
			if d, isDefer := call.(*ssa.Defer); isDefer {
				if mc, isMC := d.Call.Value.(*ssa.MakeClosure); isMC {
					if cf, isF := mc.Fn.(*ssa.Function); isF {
						for _, c2 := range ssax.Calls(cf) {
							if op, ok := lockset.LockOp(c2); ok && !op.Acquire {
								deferred[lockKey(op)] = true
							}
						}
					}
				}
			}
		}
		if !locks {
			continue
		}
		in := map[*ssa.BasicBlock]map[string]bool{f.Blocks[0]: {}}
		work := []*ssa.BasicBlock{f.Blocks[0]}
		type leak struct {
			ret *ssa.Return
			mu  string
		}
		leaks := map[leak]bool{}
		for len(work) > 0 {
			b := work[len(work)-1]
			work = work[:len(work)-1]
			cur := map[string]bool{}
			for k := range in[b] {
				cur[k] = true
			}
			for _, instr := range b.Instrs {
				switch x := instr.(type) {
				case *ssa.Return:
					if b == f.Recover {
						continue
					}
					for k := range cur {
						if !deferred[k] {
							leaks[leak{x, k}] = true
						}
					}
				case ssa.CallInstruction:
					switch x.(type) {
					case *ssa.Go, *ssa.Defer:
						continue
					}
					if op, ok := lockset.LockOp(x); ok && op.Mutex != "" {
						if op.Acquire {
							cur[lockKey(op)] = true
						} else {
							delete(cur, lockKey(op))
						}
					}
				}
			}
			for _, s := range b.Succs {
				old, seen := in[s]
				changed := !seen
				if !seen {
					old = map[string]bool{}
				}
				for k := range cur {
					if !old[k] {
						old[k] = true
						changed = true
					}
				}
				in[s] = old
				if changed {
					work = append(work, s)
				}
			}
		}
		n++
		if len(leaks) == 0 {
			c.Ob(rule, fname(ssax.Outermost(f))+"·locks are released on every return", c.P.Pos(f.Pos()), true, "every mutex the function locks is unlocked (or its unlock deferred) on every path to a return")
			continue
		}
		var ls []leak
		for l := range leaks {
			ls = append(ls, l)
		}
		sort.Slice(ls, func(i, j int) bool { return ls[i].ret.Pos() < ls[j].ret.Pos() })
		for _, l := range ls {
			c.Ob(rule, fname(ssax.Outermost(f))+"·returns holding "+l.mu, pos(c, l.ret), false, "a path reaches this return with "+l.mu+" locked by this function and no deferred unlock: every later Lock of it blocks for ever")
		}
	}
	c.Count("functions that lock a mutex ("+rule+")", n)
}

func lockKey(op lockset.Op) string {
	if op.Read {
		return op.Mutex + ":r"
	}
	return op.Mutex
}
