package rules

import (
	"go/token"
	"go/types"
	"sort"
	"verif/internal/lockset"

	"golang.org/x/tools/go/ssa"

	"verif/internal/core"
	"verif/internal/ssax"
)

// fn resolves a function anchor; an unresolved anchor is a failed check.
func fn(c *core.Ctx, short, recv, name string) *ssa.Function {
	o := c.P.Func(short, recv, name)
	if o == nil {
		c.Fatal("unresolved anchor: function %s.%s.%s no longer exists", short, recv, name)
		return nil
	}
	f := c.P.SSAFunc(o)
	if f == nil || f.Blocks == nil {
		c.Fatal("unresolved anchor: no SSA body for %s.%s.%s", short, recv, name)
		return nil
	}
	return f
}

func obj(c *core.Ctx, short, recv, name string) *types.Func {
	o := c.P.Func(short, recv, name)
	if o == nil {
		c.Fatal("unresolved anchor: function %s.%s.%s no longer exists", short, recv, name)
	}
	return o
}

func field(c *core.Ctx, short, typ, name string) *types.Var {
	f := c.P.Field(short, typ, name)
	if f == nil {
		c.Fatal("unresolved anchor: field %s.%s.%s no longer exists", short, typ, name)
	}
	return f
}

func pos(c *core.Ctx, in ssa.Instruction) string {
	if in == nil {
		return "-"
	}
	p := in.Pos()
	if !p.IsValid() {
		// fall back to nearest instruction with a position in the block
		if b := in.Block(); b != nil {
			for _, x := range b.Instrs {
				if x.Pos().IsValid() {
					p = x.Pos()
					if x == in {
						break
					}
				}
			}
		}
	}
	return c.P.Pos(p)
}

func vpos(c *core.Ctx, v ssa.Value) string {
	if in, ok := v.(ssa.Instruction); ok {
		return pos(c, in)
	}
	return c.P.Pos(v.Pos())
}

func fname(f *ssa.Function) string { return ssax.FuncName(f) }

// trace renders a Reach trace.
func trace(c *core.Ctx, tr []ssa.Instruction) []string {
	var out []string
	for _, in := range tr {
		out = append(out, pos(c, in)+" "+in.String())
	}
	return out
}

// libFns returns all library functions (with bodies) of the given packages.
func libFns(c *core.Ctx, short ...string) []*ssa.Function {
	return c.P.LibFunctions(short...)
}

func sortedKeys[V any](m map[string]V) []string {
	var ks []string
	for k := range m {
		ks = append(ks, k)
	}
	sort.Strings(ks)
	return ks
}

func initOwners(c *core.Ctx) {
	var ps []*types.Package
	for _, p := range c.P.Lib {
		ps = append(ps, p.Types)
	}
	ssax.IndexFieldOwners(ps)
	if ipProg != any(c.P) {
		ipProg = c.P
		prog := c.P
		ssax.SetProgram(prog.CallGraph(), func(f *ssa.Function) bool { return f.Pkg != nil && prog.IsLib(f.Pkg.Pkg) })
		cg := prog.CallGraph()
		ipCallersOf = func(f *ssa.Function) []*ssa.Function {
			n := cg.Nodes[f]
			if n == nil {
				return nil
			}
			var out []*ssa.Function
			for _, e := range n.In {
				if call, ok := e.Site.(*ssa.Call); !ok || call.Call.StaticCallee() != f {
					return nil // dynamic / go / defer use: not a plain private helper
				}
				out = append(out, e.Caller.Func)
			}
			return out
		}
	}
}

var ipProg any

// errResult returns the SSA value of the error result of call (the last
// result), or nil.
func errResult(call ssa.CallInstruction) ssa.Value {
	cv, ok := call.(*ssa.Call)
	if !ok {
		return nil
	}
	res := cv.Call.Signature().Results()
	if res.Len() == 0 {
		return nil
	}
	if res.Len() == 1 {
		return cv
	}
	if refs := cv.Referrers(); refs != nil {
		for _, r := range *refs {
			if ex, ok := r.(*ssa.Extract); ok && ex.Index == res.Len()-1 {
				return ex
			}
		}
	}
	return nil
}

// result returns the i'th result value of a call.
func result(call ssa.CallInstruction, i int) ssa.Value {
	cv, ok := call.(*ssa.Call)
	if !ok {
		return nil
	}
	res := cv.Call.Signature().Results()
	if res.Len() == 1 && i == 0 {
		return cv
	}
	if refs := cv.Referrers(); refs != nil {
		for _, r := range *refs {
			if ex, ok := r.(*ssa.Extract); ok && ex.Index == i {
				return ex
			}
		}
	}
	return nil
}

// denotes reports whether v is target, or a load of a local cell / phi that may
// hold target.
func denotes(v, target ssa.Value) bool {
	if target == nil || v == nil {
		return false
	}
	v = ssax.Strip(v)
	if v == target {
		return true
	}
	for _, o := range ssax.Origins(v, nil, 0) {
		if o.CallV == target || o.Other == target {
			return true
		}
	}
	return false
}

// okEdge reports whether `at` executes only when the error result of call was
// nil (at is dominated by the err == nil edge of a test of that error).
func okEdge(at ssa.Instruction, call ssa.CallInstruction) bool {
	ev := errResult(call)
	if ev == nil {
		return false
	}
	for _, f := range ssax.FactsAt(at) {
		if f.Op == token.EQL && ssax.IsNil(f.Y) && denotes(f.X, ev) {
			return true
		}
		if f.Op == token.EQL && ssax.IsNil(f.X) && denotes(f.Y, ev) {
			return true
		}
	}
	return false
}

// isNilOrZeroResult reports whether the i'th returned value of ret is the nil
// constant.
func isNilResult(ret *ssa.Return, i int) bool {
	if i >= len(ret.Results) {
		return false
	}
	return ssax.IsNil(ssax.RetVal(ret, i))
}

var lsCache = map[*core.Ctx]*lockset.Analysis{}
var lsProg = map[any]*lockset.Analysis{}

// locks returns the lockset analysis over all library functions (cached per program).
func locks(c *core.Ctx) *lockset.Analysis {
	if a, ok := lsProg[c.P]; ok {
		return a
	}
	fns := c.P.LibFunctions()
	a := lockset.New(c.P.CallGraph(), fns, isAPIRoot)
	lsProg[c.P] = a
	return a
}

// isAPIRoot: a function that can be entered with no library lock held whatever
// its internal callers do: exported functions and exported methods of exported
// types (callable by the application), init, main.
func isAPIRoot(f *ssa.Function) bool {
	if f.Parent() != nil {
		return false
	}
	o, ok := f.Object().(*types.Func)
	if !ok || o == nil {
		return f.Name() == "init"
	}
	if !o.Exported() {
		return false
	}
	if r := ssax.ReceiverNamed(f); r != nil {
		return r.Obj().Exported()
	}
	return true
}

// withHelpers returns f followed by its private helpers: the unexported functions and methods of f's own package that
// f calls statically (transitively, two levels), and anonymous functions it defines. A rule that looks for a construct
// "in f" looks in these, so that extracting part of f into a helper does not hide the construct.
func withHelpers(f *ssa.Function) []*ssa.Function {
	out := []*ssa.Function{f}
	seen := map[*ssa.Function]bool{f: true}
	frontier := []*ssa.Function{f}
	for depth := 0; depth < 2; depth++ {
		var next []*ssa.Function
		for _, g := range frontier {
			for _, call := range ssax.Calls(g) {
				if _, isGo := call.(*ssa.Go); isGo {
					continue
				}
				h := call.Common().StaticCallee()
				if h == nil || seen[h] || len(h.Blocks) == 0 || h.Pkg == nil || f.Pkg == nil || h.Pkg != f.Pkg {
					continue
				}
				if o := h.Object(); o != nil && o.Exported() {
					continue
				}
				seen[h] = true
				out = append(out, h)
				next = append(next, h)
			}
		}
		frontier = next
	}
	return out
}

// liftTo maps an instruction found in one of f's private helpers to the call instruction in f through which it is
// reached (the instruction itself if it is in f; nil if no such call exists). Dominance and reachability questions about
// the construct are then asked, in f, about that call.
func liftTo(f *ssa.Function, in ssa.Instruction) ssa.Instruction {
	if in == nil {
		return nil
	}
	if in.Parent() == f {
		return in
	}
	target := in.Parent()
	for hops := 0; hops < 3 && target != nil; hops++ {
		for _, call := range ssax.Calls(f) {
			if call.Common().StaticCallee() == target {
				return call
			}
		}
		// one level deeper: find a caller of target among f's helpers
		var up *ssa.Function
		for _, h := range withHelpers(f)[1:] {
			for _, call := range ssax.Calls(h) {
				if call.Common().StaticCallee() == target {
					up = h
				}
			}
		}
		if up == nil {
			return nil
		}
		// continue with the call inside `up`
		for _, call := range ssax.Calls(up) {
			if call.Common().StaticCallee() == target {
				in = call
			}
		}
		target = up
	}
	return nil
}

// isPrivateHelper: h is an unexported function or method of the same package as f (with a body).
func isPrivateHelper(f, h *ssa.Function) bool {
	if h == nil || h == f || len(h.Blocks) == 0 || h.Pkg == nil || f.Pkg == nil || h.Pkg != f.Pkg {
		return false
	}
	if o := h.Object(); o != nil && o.Exported() {
		return false
	}
	return true
}

// containsSite: f, or one of its private helpers (two levels), has an instruction satisfying pred.
func containsSite(f *ssa.Function, pred func(ssa.Instruction) bool, depth int) bool {
	for _, b := range f.Blocks {
		for _, in := range b.Instrs {
			if pred(in) {
				return true
			}
		}
	}
	if depth <= 0 {
		return false
	}
	for _, call := range ssax.Calls(f) {
		if _, isGo := call.(*ssa.Go); isGo {
			continue
		}
		if h := call.Common().StaticCallee(); isPrivateHelper(f, h) && containsSite(h, pred, depth-1) {
			return true
		}
	}
	return false
}

// liftedSites lists the instructions of f that satisfy pred, and the calls in f of private helpers that contain
// (transitively, two levels) an instruction satisfying pred: the construct as seen from f.
func liftedSites(f *ssa.Function, pred func(ssa.Instruction) bool) []ssa.Instruction {
	var out []ssa.Instruction
	for _, b := range f.Blocks {
		for _, in := range b.Instrs {
			if pred(in) {
				out = append(out, in)
				continue
			}
			call, ok := in.(ssa.CallInstruction)
			if !ok {
				continue
			}
			if _, isGo := call.(*ssa.Go); isGo {
				continue
			}
			if h := call.Common().StaticCallee(); isPrivateHelper(f, h) && containsSite(h, pred, 1) {
				out = append(out, in)
			}
		}
	}
	return out
}

// scopeFor descends from f into a private helper as long as every construct named by preds is, seen from the current
// function, one and the same helper call (the tail of f was moved into that helper as a whole). The sequencing
// obligations among the constructs are then decided inside the function returned.
func scopeFor(f *ssa.Function, preds ...func(ssa.Instruction) bool) *ssa.Function {
	cur := f
	for hops := 0; hops < 3; hops++ {
		var only ssa.Instruction
		same := true
		for _, p := range preds {
			sites := liftedSites(cur, p)
			if len(sites) == 0 {
				continue
			}
			for _, s := range sites {
				if only == nil {
					only = s
				} else if only != s {
					same = false
				}
			}
		}
		if !same || only == nil {
			return cur
		}
		call, ok := only.(ssa.CallInstruction)
		if !ok {
			return cur
		}
		h := call.Common().StaticCallee()
		if !isPrivateHelper(cur, h) {
			return cur
		}
		// `only` satisfies a predicate itself (not a helper call): stop
		direct := false
		for _, p := range preds {
			if p(only) {
				direct = true
			}
		}
		if direct {
			return cur
		}
		cur = h
	}
	return cur
}

// siteIn finds the instruction satisfying pred in f or its private helpers (the real site, for local checks).
func siteIn(f *ssa.Function, pred func(ssa.Instruction) bool) ssa.Instruction {
	for _, g := range withHelpers(f) {
		for _, b := range g.Blocks {
			for _, in := range b.Instrs {
				if pred(in) {
					return in
				}
			}
		}
	}
	return nil
}

// liftOne: the call instruction (in f or one of f's private helpers) that calls helper h directly.
func liftOne(f, h *ssa.Function) ssa.Instruction {
	for _, g := range withHelpers(f) {
		for _, call := range ssax.Calls(g) {
			if _, isGo := call.(*ssa.Go); isGo {
				continue
			}
			if call.Common().StaticCallee() == h {
				return call
			}
		}
	}
	return nil
}

// isErrorResult: result i of f has type error.
func isErrorResult(f *ssa.Function, i int) bool {
	res := f.Signature.Results()
	return i < res.Len() && res.At(i).Type().String() == "error"
}

// okEdgeNot: `at` executes only when the error result of call was non-nil (the failing edge of its test).
func okEdgeNot(at ssa.Instruction, call ssa.CallInstruction) bool {
	ev := errResult(call)
	if ev == nil {
		return false
	}
	for _, f := range ssax.FactsAt(at) {
		if f.Op == token.NEQ && ((ssax.IsNil(f.Y) && denotes(f.X, ev)) || (ssax.IsNil(f.X) && denotes(f.Y, ev))) {
			return true
		}
	}
	return false
}

// ownerName names the function a finding is attributed to: for a private helper all of whose callers sit in one
// function, that function (recursively) — moving code into such a helper does not rename the finding.
func ownerName(f *ssa.Function) string {
	cur := f
	for hops := 0; hops < 3; hops++ {
		if cur.Parent() != nil {
			cur = ssax.Outermost(cur)
		}
		if o := cur.Object(); o == nil || o.Exported() {
			break
		}
		var single *ssa.Function
		ok := true
		n := ipCallers(cur)
		if len(n) == 0 {
			break
		}
		for _, caller := range n {
			if single == nil {
				single = caller
			} else if single != caller {
				ok = false
			}
		}
		if !ok || single == nil || single == cur {
			break
		}
		cur = single
	}
	return fname(cur)
}

var ipCallersOf func(f *ssa.Function) []*ssa.Function

func ipCallers(f *ssa.Function) []*ssa.Function {
	if ipCallersOf == nil {
		return nil
	}
	return ipCallersOf(f)
}

// verifyingHelpers: the functions among fns (with an error as last result) whose every nil-error return lies on the
// err==nil edge of a call of target or of another such function: calling one of them and seeing a nil error
// establishes that target returned nil. Used to see through "extract the verification into a helper".
func verifyingHelpers(fns []*ssa.Function, target *types.Func) map[*ssa.Function]bool {
	verifying := map[*ssa.Function]bool{}
	for round := 0; round < 3; round++ {
		for _, g := range fns {
			if verifying[g] || g.Parent() != nil || len(g.Blocks) == 0 {
				continue
			}
			res := g.Signature.Results()
			if res.Len() == 0 || res.At(res.Len()-1).Type().String() != "error" {
				continue
			}
			vcs := verifyCallsIn(g, target, verifying)
			if len(vcs) == 0 {
				continue
			}
			all, n := true, 0
			for _, r := range ssax.Returns(g) {
				if !ssax.IsNil(ssax.RetVal(r, res.Len()-1)) {
					continue
				}
				n++
				okR := false
				for _, vc := range vcs {
					if okEdge(r, vc) {
						okR = true
					}
				}
				if !okR {
					all = false
				}
			}
			if all && n > 0 {
				verifying[g] = true
			}
		}
	}
	return verifying
}

// verifyCallsIn lists the calls in g of target or of a verifying helper.
func verifyCallsIn(g *ssa.Function, target *types.Func, verifying map[*ssa.Function]bool) []ssa.CallInstruction {
	var out []ssa.CallInstruction
	for _, call := range ssax.Calls(g) {
		switch call.(type) {
		case *ssa.Go, *ssa.Defer:
			continue
		}
		if ssax.Callee(call) == target {
			out = append(out, call)
		} else if h := call.Common().StaticCallee(); h != nil && verifying[h] {
			out = append(out, call)
		}
	}
	return out
}
