package rules

import (
	"go/token"
	"go/types"
	"sort"
	"verif/internal/lockset"

	"golang.org/x/tools/go/ssa"

	"verif/internal/core"
	"verif/internal/ssax"
)

// fn resolves a function anchor; an unresolved anchor is a failed check.
func fn(c *core.Ctx, short, recv, name string) *ssa.Function {
	o := c.P.Func(short, recv, name)
	if o == nil {
		c.Fatal("unresolved anchor: function %s.%s.%s no longer exists", short, recv, name)
		return nil
	}
	f := c.P.SSAFunc(o)
	if f == nil || f.Blocks == nil {
		c.Fatal("unresolved anchor: no SSA body for %s.%s.%s", short, recv, name)
		return nil
	}
	return f
}

func obj(c *core.Ctx, short, recv, name string) *types.Func {
	o := c.P.Func(short, recv, name)
	if o == nil {
		c.Fatal("unresolved anchor: function %s.%s.%s no longer exists", short, recv, name)
	}
	return o
}

func field(c *core.Ctx, short, typ, name string) *types.Var {
	f := c.P.Field(short, typ, name)
	if f == nil {
		c.Fatal("unresolved anchor: field %s.%s.%s no longer exists", short, typ, name)
	}
	return f
}

func pos(c *core.Ctx, in ssa.Instruction) string {
	if in == nil {
		return "-"
	}
	p := in.Pos()
	if !p.IsValid() {
		// fall back to nearest instruction with a position in the block
		if b := in.Block(); b != nil {
			for _, x := range b.Instrs {
				if x.Pos().IsValid() {
					p = x.Pos()
					if x == in {
						break
					}
				}
			}
		}
	}
	return c.P.Pos(p)
}

func vpos(c *core.Ctx, v ssa.Value) string {
	if in, ok := v.(ssa.Instruction); ok {
		return pos(c, in)
	}
	return c.P.Pos(v.Pos())
}

func fname(f *ssa.Function) string { return ssax.FuncName(f) }

// trace renders a Reach trace.
func trace(c *core.Ctx, tr []ssa.Instruction) []string {
	var out []string
	for _, in := range tr {
		out = append(out, pos(c, in)+" "+in.String())
	}
	return out
}

// libFns returns all library functions (with bodies) of the given packages.
func libFns(c *core.Ctx, short ...string) []*ssa.Function {
	return c.P.LibFunctions(short...)
}

func sortedKeys[V any](m map[string]V) []string {
	var ks []string
	for k := range m {
		ks = append(ks, k)
	}
	sort.Strings(ks)
	return ks
}

func initOwners(c *core.Ctx) {
	var ps []*types.Package
	for _, p := range c.P.Lib {
		ps = append(ps, p.Types)
	}
	ssax.IndexFieldOwners(ps)
}

// errResult returns the SSA value of the error result of call (the last
// result), or nil.
func errResult(call ssa.CallInstruction) ssa.Value {
	cv, ok := call.(*ssa.Call)
	if !ok {
		return nil
	}
	res := cv.Call.Signature().Results()
	if res.Len() == 0 {
		return nil
	}
	if res.Len() == 1 {
		return cv
	}
	if refs := cv.Referrers(); refs != nil {
		for _, r := range *refs {
			if ex, ok := r.(*ssa.Extract); ok && ex.Index == res.Len()-1 {
				return ex
			}
		}
	}
	return nil
}

// result returns the i'th result value of a call.
func result(call ssa.CallInstruction, i int) ssa.Value {
	cv, ok := call.(*ssa.Call)
	if !ok {
		return nil
	}
	res := cv.Call.Signature().Results()
	if res.Len() == 1 && i == 0 {
		return cv
	}
	if refs := cv.Referrers(); refs != nil {
		for _, r := range *refs {
			if ex, ok := r.(*ssa.Extract); ok && ex.Index == i {
				return ex
			}
		}
	}
	return nil
}

// denotes reports whether v is target, or a load of a local cell / phi that may
// hold target.
func denotes(v, target ssa.Value) bool {
	if target == nil || v == nil {
		return false
	}
	v = ssax.Strip(v)
	if v == target {
		return true
	}
	for _, o := range ssax.Origins(v, nil, 0) {
		if o.CallV == target || o.Other == target {
			return true
		}
	}
	return false
}

// okEdge reports whether `at` executes only when the error result of call was
// nil (at is dominated by the err == nil edge of a test of that error).
func okEdge(at ssa.Instruction, call ssa.CallInstruction) bool {
	ev := errResult(call)
	if ev == nil {
		return false
	}
	for _, f := range ssax.FactsAt(at) {
		if f.Op == token.EQL && ssax.IsNil(f.Y) && denotes(f.X, ev) {
			return true
		}
		if f.Op == token.EQL && ssax.IsNil(f.X) && denotes(f.Y, ev) {
			return true
		}
	}
	return false
}

// isNilOrZeroResult reports whether the i'th returned value of ret is the nil
// constant.
func isNilResult(ret *ssa.Return, i int) bool {
	if i >= len(ret.Results) {
		return false
	}
	return ssax.IsNil(ssax.RetVal(ret, i))
}

var lsCache = map[*core.Ctx]*lockset.Analysis{}
var lsProg = map[any]*lockset.Analysis{}

// locks returns the lockset analysis over all library functions (cached per program).
func locks(c *core.Ctx) *lockset.Analysis {
	if a, ok := lsProg[c.P]; ok {
		return a
	}
	fns := c.P.LibFunctions()
	a := lockset.New(c.P.CallGraph(), fns, isAPIRoot)
	lsProg[c.P] = a
	return a
}

// isAPIRoot: a function that can be entered with no library lock held whatever
// its internal callers do: exported functions and exported methods of exported
// types (callable by the application), init, main.
func isAPIRoot(f *ssa.Function) bool {
	if f.Parent() != nil {
		return false
	}
	o, ok := f.Object().(*types.Func)
	if !ok || o == nil {
		return f.Name() == "init"
	}
	if !o.Exported() {
		return false
	}
	if r := ssax.ReceiverNamed(f); r != nil {
		return r.Obj().Exported()
	}
	return true
}
