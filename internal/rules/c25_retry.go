package rules

import (
	"go/token"

	"golang.org/x/tools/go/ssa"

	"verif/internal/core"
	"verif/internal/ssax"
)

// c25Retry: a retry loop in a client goroutine can be stopped.
//
// After Close the context handed to every call is cancelled, so a loop that leaves on an error ends by itself. A
// loop that goes round again BECAUSE a context-taking call failed (dial, open, activate … `for c.Dial(ctx) != nil {
// sleep }`) does the opposite: once the context is cancelled the call fails at once, every time, and the goroutine
// spins for the life of the process. Obligation: in every function reachable from a client-side goroutine, every way
// from the failure edge of a context-taking call back to the head of the enclosing loop passes a select with an arm on
// a shutdown signal (ctx.Done(), closing, …) or a test of ctx.Err().
func c25Retry(c *core.Ctx) {
	c.Rule("C25.retry", "a loop that is repeated because a context-taking call failed (a retry loop) passes, on every way from the failure back to the loop head, a select with a shutdown arm (ctx.Done(), closing, disconnected …) or a ctx.Err() test: after Close such a call fails immediately, so without that exit the goroutine retries for ever", 1)
	roots := goRoots(c, "opcua", "monitor")
	seen := map[*ssa.Function]bool{}
	var fns []*ssa.Function
	for _, r := range roots {
		for f := range reachableFrom(c, []*ssa.Function{r.fn}, "opcua", "monitor") {
			if !seen[f] {
				seen[f] = true
				fns = append(fns, f)
			}
		}
	}
	takesCtx := func(call ssa.CallInstruction) bool {
		for _, a := range call.Common().Args {
			if a.Type().String() == "context.Context" {
				return true
			}
		}
		return false
	}
	isShutdownCheck := func(in ssa.Instruction) bool {
		switch x := in.(type) {
		case *ssa.Select:
			for _, st := range x.States {
				if st.Dir == 2 /* types.RecvOnly */ {
					if k := shutdownChan(st.Chan); k != "" && k != "timer" {
						return true
					}
				}
			}
		case *ssa.UnOp:
			if x.Op == token.ARROW {
				if k := shutdownChan(x.X); k != "" && k != "timer" {
					return true
				}
			}
		case ssa.CallInstruction:
			cc := x.Common()
			if cc.IsInvoke() && cc.Method.Name() == "Err" && cc.Value.Type().String() == "context.Context" {
				return true
			}
		}
		return false
	}
	n := 0
	for _, f := range fns {
		loops := ssax.Loops(f)
		if len(loops) == 0 {
			continue
		}
		for _, b := range f.Blocks {
			ifi, ok := b.Instrs[len(b.Instrs)-1].(*ssa.If)
			if !ok || len(b.Succs) != 2 {
				continue
			}
			cmp, neg, ok := ssax.AsCmp(ifi.Cond)
			if !ok || !ssax.IsNil(cmp.Y) {
				continue
			}
			// the error result of a context-taking call
			v := ssax.Strip(cmp.X)
			var call *ssa.Call
			switch x := v.(type) {
			case *ssa.Call:
				call = x
			case *ssa.Extract:
				call, _ = x.Tuple.(*ssa.Call)
			}
			if call == nil || v.Type().String() != "error" || !takesCtx(call) {
				continue
			}
			op := cmp.Op
			if neg {
				op = ssax.NegOp(op)
			}
			var fail *ssa.BasicBlock
			switch op {
			case token.NEQ:
				fail = b.Succs[0]
			case token.EQL:
				fail = b.Succs[1]
			default:
				continue
			}
			// innermost loop containing both the call and the failure edge's target
			var loop *ssax.Loop
			for _, l := range loops {
				if l.Blocks[b] && l.Blocks[call.Block()] && (loop == nil || len(l.Blocks) < len(loop.Blocks)) {
					loop = l
				}
			}
			if loop == nil || !loop.Blocks[fail] || len(fail.Instrs) == 0 {
				continue // the failure leaves the loop
			}
			// a counted loop (range over a slice, index against a bound) visits each element once: not a retry
			if countedLoop(loop) {
				continue
			}
			// can the failure edge get back to the call — the next attempt — without a shutdown check?
			if isShutdownCheck(fail.Instrs[0]) {
				n++
				c.Ob("C25.retry", fname(ssax.Outermost(f))+"·retry after "+calleeName(call)+" failed", pos(c, ifi), true, "the failure leads straight into a shutdown check")
				continue
			}
			again, tr := ssax.Reach(f, fail.Instrs[0], func(in ssa.Instruction) bool { return in == ssa.Instruction(call) }, isShutdownCheck, func(a, bb *ssa.BasicBlock) bool { return !loop.Blocks[bb] })
			if !again {
				// either no way back to the call at all, or every way passes a shutdown check: tell them apart
				any, _ := ssax.Reach(f, fail.Instrs[0], func(in ssa.Instruction) bool { return in == ssa.Instruction(call) }, nil, func(a, bb *ssa.BasicBlock) bool { return !loop.Blocks[bb] })
				if !any {
					continue // the failure does not lead to another attempt
				}
			}
			n++
			c.Ob("C25.retry", fname(ssax.Outermost(f))+"·retry after "+calleeName(call)+" failed", pos(c, ifi), !again, "the call can be attempted again after the failure without passing a select on a shutdown signal or a ctx.Err() test: "+boolStr(again), trace(c, tr)...)
		}
	}
	c.Count("retry loops in client goroutines", n)
	if n == 0 {
		c.Ob("C25.retry", "opcua·no retry loop in a client goroutine", "-", true, "no loop is repeated on the failure of a context-taking call")
	}
}

func calleeName(call *ssa.Call) string {
	if cal := ssax.Callee(call); cal != nil {
		return ssax.ObjName(cal)
	}
	if call.Call.IsInvoke() {
		return call.Call.Method.Name()
	}
	return "a call"
}

// countedLoop: the loop's header (or the block the header jumps to) leaves on a comparison of an induction variable
// (a header phi stepped by a constant inside the loop) with a bound.
func countedLoop(l *ssax.Loop) bool {
	h := l.Header
	ifi, ok := h.Instrs[len(h.Instrs)-1].(*ssa.If)
	if !ok {
		return false
	}
	cmp, _, ok := ssax.AsCmp(ifi.Cond)
	if !ok {
		return false
	}
	induction := func(v ssa.Value) bool {
		v = ssax.Strip(v)
		if bo, ok := v.(*ssa.BinOp); ok && (bo.Op == token.ADD || bo.Op == token.SUB) {
			if _, isK := ssax.ConstInt(bo.Y); isK {
				if ph, ok := bo.X.(*ssa.Phi); ok && ph.Block() == h {
					return true
				}
			}
		}
		if ph, ok := v.(*ssa.Phi); ok && ph.Block() == h {
			for _, e := range ph.Edges {
				if bo, ok := ssax.Strip(e).(*ssa.BinOp); ok && (bo.Op == token.ADD || bo.Op == token.SUB) && bo.X == ssa.Value(ph) {
					if _, isK := ssax.ConstInt(bo.Y); isK {
						return true
					}
				}
			}
		}
		return false
	}
	// one exit of the If leaves the loop
	leaves := !l.Blocks[h.Succs[0]] || !l.Blocks[h.Succs[1]]
	return leaves && (induction(cmp.X) || induction(cmp.Y))
}
