package rules

import (
	"go/token"
	"go/types"

	"golang.org/x/tools/go/ssa"

	"verif/internal/core"
	"verif/internal/ssax"
)

func init() { register("C28", c28) }

// C28 — "every data change delivered through the node monitor carries the node id that was registered for its client
// handle" has a part that is visible in the shape of the code: which value is used as the key when the node is
// remembered, which value is sent to the server as the item's client handle, and which value keys the lookup when a
// notification comes back. The rules below decide that these are the same value on every path (data-flow identity on
// SSA), on the client (package monitor) and in the in-repo server's fan-out. They do NOT decide the second half of
// the property (the last delivered value equals the node's current value once writes stop): that is a statement about
// histories across client, network and server.
func c28(c *core.Ctx) {
	initOwners(c)
	c.P.BuildSSA()
	c.Rule("C28.register", "the key under which monitor.Subscription remembers a node (handles[k] = node) is a freshly drawn handle (atomic add on the monitor's counter), and the same value k is the ClientHandle of the request created for that very node — the argument of NewMonitoredItemCreateRequestWithDefaults and every RequestedParameters.ClientHandle stored in that iteration", 3)
	c.Rule("C28.lookup", "a delivered DataChangeMessage takes its NodeID from handles[item.ClientHandle] and its DataValue from item.Value of the same notification item", 2)
	c.Rule("C28.stored", "outside registration a ClientHandle sent to the server is the handle recorded for that item (Item.handle), and handles are deleted under the handle recorded for the removed item", 2)
	c.Rule("C28.server", "the in-repo server stamps a notification with the ClientHandle of the monitored item whose attribute it read and hands it to that item's subscription", 3)

	handles := field(c, "monitor", "Subscription", "handles")
	chField := field(c, "ua", "MonitoringParameters", "ClientHandle")
	itemHandle := field(c, "monitor", "Item", "handle")
	reqHandle := field(c, "monitor", "Request", "handle")
	msgNode := field(c, "monitor", "DataChangeMessage", "NodeID")
	msgValue := field(c, "monitor", "DataChangeMessage", "DataValue")
	notifHandle := field(c, "ua", "MonitoredItemNotification", "ClientHandle")
	notifValue := field(c, "ua", "MonitoredItemNotification", "Value")
	newReq := obj(c, "opcua", "", "NewMonitoredItemCreateRequestWithDefaults")
	if handles == nil || chField == nil || itemHandle == nil || reqHandle == nil || msgNode == nil || msgValue == nil || notifHandle == nil || notifValue == nil || newReq == nil {
		return
	}

	// ---- registration
	for _, f := range libFns(c, "monitor") {
		var keys []ssa.Value
		for _, ms := range ssax.ContainerSites(f, handles) {
			if ms.Kind != ssax.MapStore {
				continue
			}
			k := ssax.Strip(ms.Key)
			keys = append(keys, k)
			at := ms.Instr
			key := fname(f) + "·handles[k] = node"
			// fresh
			fresh := false
			if call, ok := k.(*ssa.Call); ok {
				if cal := ssax.Callee(call); cal != nil && cal.Pkg() != nil && cal.Pkg().Path() == "sync/atomic" && (cal.Name() == "AddUint32" || cal.Name() == "AddUint64") {
					fresh = true
				}
			}
			c.Ob("C28.register", key+"·k is a freshly drawn handle", pos(c, at), fresh, "k = "+ssax.Path(k)+"; drawn by an atomic add on the handle counter: "+boolStr(fresh))
			// the request for the same node carries k
			found, sameNode := false, false
			for _, call := range ssax.CallsTo(f, newReq) {
				args := call.Common().Args
				if len(args) < 3 || ssax.Strip(args[2]) != k {
					continue
				}
				found = true
				if sameElemField(args[0], ms.Val) {
					sameNode = true
				}
			}
			c.Ob("C28.register", key+"·request for that node carries k", pos(c, at), found && sameNode, "a request is created with ClientHandle k: "+boolStr(found)+"; for the node stored under k: "+boolStr(sameNode))
			// every ClientHandle store of the iteration stores k
			okAll, n := true, 0
			for _, b := range f.Blocks {
				for _, in := range b.Instrs {
					st, ok := in.(*ssa.Store)
					if !ok {
						continue
					}
					fa, ok := st.Addr.(*ssa.FieldAddr)
					if !ok || ssax.FieldOf(fa.X.Type(), fa.Field) != chField {
						continue
					}
					if !at.Block().Dominates(b) {
						continue
					}
					n++
					if ssax.Strip(st.Val) != k {
						okAll = false
					}
				}
			}
			c.Ob("C28.register", key+"·RequestedParameters.ClientHandle = k", pos(c, at), okAll, fmtInt(n)+" store(s) of a ClientHandle behind the registration, all storing k: "+boolStr(okAll))
		}
		// ---- stored handles: ClientHandle stores elsewhere, deletes
		for _, b := range f.Blocks {
			for _, in := range b.Instrs {
				st, ok := in.(*ssa.Store)
				if !ok {
					continue
				}
				fa, ok := st.Addr.(*ssa.FieldAddr)
				if !ok || ssax.FieldOf(fa.X.Type(), fa.Field) != chField {
					continue
				}
				v := ssax.Strip(st.Val)
				isKey := false
				for _, k := range keys {
					isKey = isKey || k == v
				}
				if isKey {
					continue
				}
				ld := loadedField(v)
				ok2 := ld.f == itemHandle || ld.f == reqHandle
				c.Ob("C28.stored", fname(f)+"·ClientHandle = recorded handle", pos(c, st), ok2, "value stored: "+ssax.Path(v)+"; it is the handle recorded for the item: "+boolStr(ok2))
			}
		}
		for _, ms := range ssax.ContainerSites(f, handles) {
			if ms.Kind != ssax.MapDelete {
				continue
			}
			ld := loadedField(ms.Key)
			ok := ld.f == itemHandle || ld.f == reqHandle
			c.Ob("C28.stored", fname(f)+"·delete(handles, recorded handle)", pos(c, ms.Instr), ok, "key: "+ssax.Path(ms.Key)+"; it is the handle recorded for the removed item: "+boolStr(ok))
		}
		// ---- lookup
		for _, b := range f.Blocks {
			for _, in := range b.Instrs {
				st, ok := in.(*ssa.Store)
				if !ok {
					continue
				}
				fa, ok := st.Addr.(*ssa.FieldAddr)
				if !ok || ssax.FieldOf(fa.X.Type(), fa.Field) != msgNode {
					continue
				}
				// the value: result #0 of a lookup in handles keyed by item.ClientHandle
				var item ssa.Value
				okLookup := false
				if ex, isEx := ssax.Strip(st.Val).(*ssa.Extract); isEx && ex.Index == 0 {
					if lk, isLk := ex.Tuple.(*ssa.Lookup); isLk && loadedField(lk.X).f == handles {
						if kl := loadedField(lk.Index); kl.f == notifHandle {
							okLookup = true
							item = ssax.Strip(kl.base)
						}
					}
				} else if lk, isLk := ssax.Strip(st.Val).(*ssa.Lookup); isLk && loadedField(lk.X).f == handles {
					if kl := loadedField(lk.Index); kl.f == notifHandle {
						okLookup = true
						item = ssax.Strip(kl.base)
					}
				}
				c.Ob("C28.lookup", fname(f)+"·DataChangeMessage.NodeID = handles[item.ClientHandle]", pos(c, st), okLookup, "NodeID is "+ssax.Path(st.Val)+"; a lookup in handles keyed by the notification item's ClientHandle: "+boolStr(okLookup))
				// the value of the same message comes from the same item
				sameItem, n := true, 0
				for _, b2 := range f.Blocks {
					for _, in2 := range b2.Instrs {
						st2, ok := in2.(*ssa.Store)
						if !ok {
							continue
						}
						fa2, ok := st2.Addr.(*ssa.FieldAddr)
						if !ok || ssax.FieldOf(fa2.X.Type(), fa2.Field) != msgValue || ssax.Strip(fa2.X) != ssax.Strip(fa.X) {
							continue
						}
						n++
						vl := loadedField(st2.Val)
						if vl.f != notifValue || item == nil || ssax.Strip(vl.base) != item {
							sameItem = false
						}
					}
				}
				c.Ob("C28.lookup", fname(f)+"·DataChangeMessage.DataValue = item.Value of the same item", pos(c, st), sameItem && n > 0, fmtInt(n)+" store(s) of DataValue into the same message, each item.Value of the item whose handle was looked up: "+boolStr(sameItem && n > 0))
			}
		}
	}

	// ---- server fan-out
	miReq := field(c, "server", "MonitoredItem", "Req")
	miSub := field(c, "server", "MonitoredItem", "Sub")
	notifyCh := field(c, "server", "Subscription", "NotifyChannel")
	attrID := field(c, "ua", "ReadValueID", "AttributeID")
	if miReq == nil || miSub == nil || notifyCh == nil || attrID == nil {
		return
	}
	// rootItem: the *MonitoredItem a value was loaded from through item.Req… / item.Sub…
	var rootItem func(v ssa.Value, d int) ssa.Value
	rootItem = func(v ssa.Value, d int) ssa.Value {
		if d > 6 {
			return nil
		}
		ld := loadedField(v)
		if ld.f == nil {
			return nil
		}
		if ld.f == miReq || ld.f == miSub {
			return ssax.Strip(ld.base)
		}
		return rootItem(ld.base, d+1)
	}
	for _, f := range libFns(c, "server") {
		for _, b := range f.Blocks {
			for _, in := range b.Instrs {
				st, ok := in.(*ssa.Store)
				if !ok {
					continue
				}
				fa, ok := st.Addr.(*ssa.FieldAddr)
				if !ok || ssax.FieldOf(fa.X.Type(), fa.Field) != notifHandle {
					continue
				}
				notif := ssax.Strip(fa.X)
				item := rootItem(st.Val, 0)
				c.Ob("C28.server", fname(f)+"·notification.ClientHandle = item.Req.RequestedParameters.ClientHandle", pos(c, st), item != nil, "ClientHandle is "+ssax.Path(st.Val)+"; loaded from a monitored item's own request: "+boolStr(item != nil))
				if item == nil {
					continue
				}
				// sends of this notification go to the same item's subscription
				okSend, nSend := true, 0
				okAttr, nAttr := true, 0
				for _, b2 := range f.Blocks {
					for _, in2 := range b2.Instrs {
						switch x := in2.(type) {
						case *ssa.Send:
							if ssax.Strip(x.X) != notif {
								continue
							}
							nSend++
							ch := loadedField(x.Chan)
							if ch.f != notifyCh || rootItem(x.Chan, 0) != item {
								okSend = false
							}
						case *ssa.Store:
							fa2, ok := x.Addr.(*ssa.FieldAddr)
							if !ok || ssax.FieldOf(fa2.X.Type(), fa2.Field) != notifValue || ssax.Strip(fa2.X) != notif {
								continue
							}
							// a value read from the address space: the attribute id comes from the same item
							call, isCall := ssax.Strip(x.Val).(*ssa.Call)
							if !isCall {
								continue // a locally built status value
							}
							for _, a := range call.Call.Args {
								if loadedField(a).f == attrID {
									nAttr++
									if rootItem(a, 0) != item {
										okAttr = false
									}
								}
							}
						}
					}
				}
				c.Ob("C28.server", fname(f)+"·notification sent to the item's own subscription", pos(c, st), okSend && nSend > 0, fmtInt(nSend)+" send(s) of the notification, each on item.Sub.NotifyChannel of the same item: "+boolStr(okSend && nSend > 0))
				c.Ob("C28.server", fname(f)+"·value read with the item's own attribute id", pos(c, st), okAttr && nAttr > 0, fmtInt(nAttr)+" read(s) feeding the notification, each with item.Req.ItemToMonitor.AttributeID of the same item: "+boolStr(okAttr && nAttr > 0))
			}
		}
	}
}

// sameElemField: a and b are loads of the same field of the same slice element (`nodes[i].NodeID` and `node.NodeID`
// where node is the range copy of nodes[i]), or the same value.
func sameElemField(a, b ssa.Value) bool {
	a, b = ssax.Strip(a), ssax.Strip(b)
	if a == b {
		return true
	}
	type ef struct {
		slice, idx ssa.Value
		f          *types.Var
	}
	elem := func(v ssa.Value) (ef, bool) {
		u, ok := v.(*ssa.UnOp)
		if !ok || u.Op != token.MUL {
			if fl, ok := v.(*ssa.Field); ok {
				if ld, ok := ssax.Strip(fl.X).(*ssa.UnOp); ok && ld.Op == token.MUL {
					if ia, ok := ld.X.(*ssa.IndexAddr); ok {
						return ef{ssax.Strip(ia.X), ssax.Strip(ia.Index), ssax.FieldOf(fl.X.Type(), fl.Field)}, true
					}
				}
			}
			return ef{}, false
		}
		fa, ok := u.X.(*ssa.FieldAddr)
		if !ok {
			return ef{}, false
		}
		fv := ssax.FieldOf(fa.X.Type(), fa.Field)
		switch base := fa.X.(type) {
		case *ssa.IndexAddr:
			return ef{ssax.Strip(base.X), ssax.Strip(base.Index), fv}, true
		case *ssa.Alloc:
			// a local copy: exactly one store, of a loaded slice element
			var src *ssa.IndexAddr
			n := 0
			if refs := base.Referrers(); refs != nil {
				for _, r := range *refs {
					if st, ok := r.(*ssa.Store); ok && st.Addr == ssa.Value(base) {
						n++
						if ld, ok := st.Val.(*ssa.UnOp); ok && ld.Op == token.MUL {
							src, _ = ld.X.(*ssa.IndexAddr)
						}
					}
				}
			}
			if n == 1 && src != nil {
				return ef{ssax.Strip(src.X), ssax.Strip(src.Index), fv}, true
			}
		}
		return ef{}, false
	}
	ea, oka := elem(a)
	eb, okb := elem(b)
	return oka && okb && ea.slice == eb.slice && ea.idx == eb.idx && ea.f == eb.f
}
