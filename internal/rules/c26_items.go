package rules

import (
	"go/types"

	"golang.org/x/tools/go/ssa"

	"verif/internal/core"
	"verif/internal/ssax"
)

// c26Items: what the client remembers about a subscription survives its re-creation.
//
// After a session loss the subscription and its monitored items are created again from the client's own tables
// (Subscription.items, Client.subs). A table that is rebuilt group by group — one CreateMonitoredItems request per
// TimestampsToReturn value — must be emptied once, before the first group, never inside the loop that refills it:
// a reset inside the loop keeps only the last group, the next re-creation then silently drops the other items.
// Obligation: in packages opcua and monitor no natural loop contains both a store of a fresh map to a map-typed struct
// field and an insertion into that same field; and recreate_monitoredItems inserts, inside its loop over the groups,
// one entry per element of the group (a loop over the group's items containing the insertion).
func c26Items(c *core.Ctx) {
	c.Rule("C26.items", "a table the client rebuilds during re-creation (Subscription.items) is reset outside the loop that refills it, and recreate_monitoredItems re-inserts every item of every group: no loop both stores a fresh map to a map-typed field and inserts into it", 2)
	fns := libFns(c, "opcua", "monitor")
	n := 0
	for _, f := range fns {
		loops := ssax.Loops(f)
		if len(loops) == 0 {
			continue
		}
		for _, b := range f.Blocks {
			for _, in := range b.Instrs {
				st, ok := in.(*ssa.Store)
				if !ok {
					continue
				}
				fa, ok := st.Addr.(*ssa.FieldAddr)
				if !ok {
					continue
				}
				if _, isMake := ssax.Strip(st.Val).(*ssa.MakeMap); !isMake {
					continue
				}
				fl := ssax.FieldOf(fa.X.Type(), fa.Field)
				if fl == nil {
					continue
				}
				if _, isMap := fl.Type().Underlying().(*types.Map); !isMap {
					continue
				}
				// does f also insert into fl inside some loop?
				var inserts []ssax.MapSite
				for _, s := range ssax.ContainerSites(f, fl) {
					if s.Kind == ssax.MapStore {
						inserts = append(inserts, s)
					}
				}
				if len(inserts) == 0 {
					continue
				}
				n++
				bad := false
				for _, l := range loops {
					if !l.Blocks[b] {
						continue
					}
					for _, s := range inserts {
						if l.Blocks[s.Instr.Block()] {
							bad = true
						}
					}
				}
				c.Ob("C26.items", fname(ssax.Outermost(f))+"·reset of "+ssax.FieldString(fl), pos(c, st), !bad, "the fresh map is stored inside a loop that also inserts into the field: "+boolStr(bad)+" (each iteration would discard what the previous ones inserted)")
			}
		}
	}
	// recreate_monitoredItems re-inserts inside its group loop
	rec := fn(c, "opcua", "Subscription", "recreate_monitoredItems")
	itemsF := field(c, "opcua", "Subscription", "items")
	if rec != nil && itemsF != nil {
		nested := false
		for _, s := range ssax.ContainerSites(rec, itemsF) {
			if s.Kind != ssax.MapStore {
				continue
			}
			depth := 0
			for _, l := range ssax.Loops(rec) {
				if l.Blocks[s.Instr.Block()] {
					depth++
				}
			}
			if depth >= 2 {
				nested = true
			}
		}
		c.Ob("C26.items", fname(rec)+"·re-inserts every item of every group", c.P.Pos(rec.Pos()), nested, "insertion into Subscription.items inside the per-item loop of the per-group loop: "+boolStr(nested))
	}
	c.Count("resets of refilled map fields", n)
}
