package rules

import (
	"go/constant"
	"go/token"
	"go/types"
	"strings"

	"golang.org/x/tools/go/ssa"

	"verif/internal/core"
	"verif/internal/ssax"
)

func init() { register("C24", c24) }

// C24 — SelectEndpoint. "Returns a best matching endpoint" is a statement about all endpoint lists; what is visible in
// the code, and necessary for it, is decided here:
//   - match: at every return of a non-nil endpoint E, for each criterion either the "don't care" test on the request
//     or the equality of E's own field with the requested value is a fact (comparisons that dominate the return,
//     followed through private predicate helpers) — no return hands out an endpoint that was compared on one criterion
//     only, and the policy compared is the normalised one;
//   - best: the list is put in descending SecurityLevel order before it is scanned (the ordering function is resolved
//     and its direction decided, sort.Reverse included), and the scan hands out the first match walking upwards from
//     index 0; the don't-care answer is element 0;
//   - result: each return yields exactly one of (endpoint, error).
//
// Not decided: that the comparison functions themselves are right for all values (equal levels, duplicates, the
// stability of the order) — that is value-level reasoning about a sort.
func c24(c *core.Ctx) {
	initOwners(c)
	c.P.BuildSSA()
	c.Rule("C24.match", "every endpoint SelectEndpoint returns was compared on both criteria: at the return, for the policy either `policy == \"\"` or `E.SecurityPolicyURI == normalised policy` holds, and for the mode either `mode == Invalid` or `E.SecurityMode == mode`; the policy compared is the result of FormatSecurityPolicyURI", 2)
	c.Rule("C24.best", "the endpoints are sorted by SecurityLevel in descending order before they are scanned, the scan walks upwards from the first element and returns the first match, and the don't-care answer is the first element (or, for a single-pass maximum: the held candidate is replaced only when there is none yet or the new one has a higher level than the one held)", 1)
	c.Rule("C24.result", "every return of SelectEndpoint yields either an endpoint and a nil error or a nil endpoint and an error", 2)
	sel := fn(c, "opcua", "", "SelectEndpoint")
	polF := field(c, "ua", "EndpointDescription", "SecurityPolicyURI")
	modeF := field(c, "ua", "EndpointDescription", "SecurityMode")
	lvlF := field(c, "ua", "EndpointDescription", "SecurityLevel")
	format := obj(c, "ua", "", "FormatSecurityPolicyURI")
	if sel == nil || polF == nil || modeF == nil || lvlF == nil || format == nil {
		return
	}
	if len(sel.Params) < 3 {
		c.Fatal("C24: SelectEndpoint no longer takes (endpoints, policy, mode)")
		return
	}
	list, polP, modeP := sel.Params[0], sel.Params[1], sel.Params[2]

	// inside a private predicate the criteria are phrased over its parameters: resolve maps them to the arguments
	resolve := func(v ssa.Value) ssa.Value { return v }
	isEmptyString := func(v ssa.Value) bool {
		k, ok := ssax.Strip(v).(*ssa.Const)
		return ok && k.Value != nil && k.Value.Kind() == constant.String && constant.StringVal(k.Value) == ""
	}
	isZero := func(v ssa.Value) bool {
		k, ok := ssax.ConstInt(v)
		return ok && k == 0
	}
	// the requested policy: the parameter or its normalisation
	isPolicyReq := func(v ssa.Value) (is, normalised bool) {
		v = ssax.Strip(resolve(ssax.Strip(v)))
		if v == ssa.Value(polP) {
			return true, false
		}
		if call, ok := v.(*ssa.Call); ok && ssax.Callee(call) == format && len(call.Call.Args) == 1 && ssax.Strip(call.Call.Args[0]) == ssa.Value(polP) {
			return true, true
		}
		if s, ok := v.(*ssax.Synth); ok {
			if s.P == polP.Name() {
				return true, false
			}
			if strings.Contains(s.P, "FormatSecurityPolicyURI(") {
				return true, true
			}
		}
		return false, false
	}
	isModeReq := func(v ssa.Value) bool {
		v = ssax.Strip(resolve(ssax.Strip(v)))
		if v == ssa.Value(modeP) {
			return true
		}
		s, ok := v.(*ssax.Synth)
		return ok && s.P == modeP.Name()
	}
	// v is field f of endpoint e
	isFieldOf := func(v ssa.Value, f *types.Var, e ssa.Value) bool {
		if s, ok := v.(*ssax.Synth); ok {
			return s.Field == f && strings.HasPrefix(s.P, ssax.Path(e))
		}
		ld := loadedField(v)
		return ld.f == f && ld.base != nil && ssax.Strip(resolve(ssax.Strip(ld.base))) == ssax.Strip(e)
	}

	// the list: the parameter, or the cell it was moved to because a closure (an ordering function) captures it
	isList := func(v ssa.Value) bool {
		v = ssax.Strip(v)
		if v == ssa.Value(list) {
			return true
		}
		if ld, ok := v.(*ssa.UnOp); ok && ld.Op == token.MUL {
			if cell, ok := ld.X.(*ssa.Alloc); ok {
				n, all := 0, true
				if refs := cell.Referrers(); refs != nil {
					for _, r := range *refs {
						if st, ok := r.(*ssa.Store); ok && st.Addr == ssa.Value(cell) {
							n++
							if ssax.Strip(st.Val) != ssa.Value(list) {
								all = false
							}
						}
					}
				}
				return n > 0 && all
			}
		}
		return false
	}
	// a criterion is a pair of alternative atoms; it holds where one of them is a fact, or where a boolean known to be
	// true implies one of them on every way it can have become true (`ok := policy == "" || p.URI == policy`)
	type atomFn func(op token.Token, x, y ssa.Value) (hit, normalised bool)
	var atomIn func(fs []ssax.Fact, a atomFn) (bool, bool)
	atomIn = func(fs []ssax.Fact, a atomFn) (bool, bool) {
		hit, norm := false, true
		for _, f := range fs {
			if h, n := a(f.Op, f.X, f.Y); h {
				hit = true
				norm = norm && n
			}
			if h, n := a(ssax.SwapOp(f.Op), f.Y, f.X); h {
				hit = true
				norm = norm && n
			}
		}
		return hit, norm
	}
	var implied func(v ssa.Value, at ssa.Instruction, a atomFn, d int) (bool, bool)
	implied = func(v ssa.Value, at ssa.Instruction, a atomFn, d int) (bool, bool) {
		v = ssax.Strip(v)
		if k, ok := v.(*ssa.Const); ok && k.Value != nil {
			if k.Value.String() == "false" {
				return true, true // cannot be the reason the boolean is true
			}
			return atomIn(ssax.FactsAt(at), a)
		}
		if cmp, neg, ok := ssax.AsCmp(v); ok {
			op := cmp.Op
			if neg {
				op = ssax.NegOp(op)
			}
			if h, n := atomIn([]ssax.Fact{{Op: op, X: cmp.X, Y: cmp.Y}}, a); h {
				return true, n
			}
			return atomIn(ssax.FactsAt(at), a)
		}
		if ph, ok := v.(*ssa.Phi); ok && d < 4 {
			norm := true
			for i, e := range ph.Edges {
				pred := ph.Block().Preds[i]
				if len(pred.Instrs) == 0 {
					return false, false
				}
				h, n := implied(e, pred.Instrs[len(pred.Instrs)-1], a, d+1)
				if !h {
					// what the branch into the join established (`policy == ""` on the edge that carries `true`)
					h, n = atomIn(ssax.FactsOnEdge(pred, ph.Block()), a)
					if k, isK := ssax.Strip(e).(*ssa.Const); !h || !isK || k.Value == nil || k.Value.String() != "true" {
						return false, false
					}
				}
				norm = norm && n
			}
			return true, norm
		}
		return atomIn(ssax.FactsAt(at), a)
	}
	holdsAt := func(r ssa.Instruction, a atomFn) (bool, bool) {
		if h, n := atomIn(ssax.FactsAt(r), a); h {
			return true, n
		}
		trues, _ := ssax.BoolFactsAt(r)
		for _, t := range trues {
			switch x := ssax.Strip(t).(type) {
			case *ssa.Phi:
				if h, n := implied(x, r, a, 0); h {
					return true, n
				}
			case *ssa.Call:
				// a private predicate: the criterion must hold at each of its returns that can yield true
				h := x.Call.StaticCallee()
				if h == nil || len(h.Blocks) == 0 || h.Pkg != sel.Pkg {
					continue
				}
				args := x.Call.Args
				old := resolve
				resolve = func(v ssa.Value) ssa.Value {
					for i, p := range h.Params {
						if v == ssa.Value(p) && i < len(args) {
							return old(ssax.Strip(args[i]))
						}
					}
					return v
				}
				all, norm, n := true, true, 0
				for _, hr := range ssax.Returns(h) {
					if hr.Block() == h.Recover || len(hr.Results) == 0 {
						continue
					}
					n++
					ok, nm := implied(ssax.RetVal(hr, 0), hr, a, 0)
					all = all && ok
					norm = norm && nm
				}
				resolve = old
				if all && n > 0 {
					return true, norm
				}
			}
		}
		return false, false
	}

	// all-paths form: the criterion is established on every path from the block that defines the candidate to block
	// `to` — each path passes an edge whose condition implies one of the atoms (`if policy != "" && p.URI != policy
	// { continue }` establishes the policy criterion on both ways past it). A forward must-analysis over the CFG.
	mustHold := func(to, from *ssa.BasicBlock, a atomFn) (bool, bool) {
		if to == nil || from == nil {
			return false, false
		}
		edge := func(pb, sb *ssa.BasicBlock) (bool, bool) {
			ifi, ok := pb.Instrs[len(pb.Instrs)-1].(*ssa.If)
			if !ok || len(pb.Succs) != 2 || pb.Succs[0] == pb.Succs[1] {
				return false, false
			}
			if cmp, neg, ok := ssax.AsCmp(ifi.Cond); ok {
				holds := sb == pb.Succs[0]
				if neg {
					holds = !holds
				}
				op := cmp.Op
				if !holds {
					op = ssax.NegOp(op)
				}
				return atomIn([]ssax.Fact{{Op: op, X: cmp.X, Y: cmp.Y}}, a)
			}
			// a boolean computed earlier (hoisted test, predicate helper): only its true edge says something
			v, pos := ifi.Cond, true
			for {
				if u, ok := v.(*ssa.UnOp); ok && u.Op == token.NOT {
					v, pos = u.X, !pos
					continue
				}
				break
			}
			if (sb == pb.Succs[0]) == pos {
				if _, isPhi := ssax.Strip(v).(*ssa.Phi); isPhi {
					return implied(v, ifi, a, 0)
				}
			}
			return false, false
		}
		fn := to.Parent()
		state := map[*ssa.BasicBlock]bool{}
		norm := true
		for _, b := range fn.Blocks {
			state[b] = b != from && from.Dominates(b)
		}
		for changed := true; changed; {
			changed = false
			for _, b := range fn.Blocks {
				if !state[b] {
					continue
				}
				for _, pb := range b.Preds {
					if !from.Dominates(pb) {
						continue // an edge from outside the candidate's scope cannot occur without passing `from`
					}
					h, n := edge(pb, b)
					if h {
						norm = norm && n
						continue
					}
					if pb != from && state[pb] {
						continue
					}
					state[b] = false
					changed = true
					break
				}
			}
		}
		return state[to], norm
	}
	policyAtom := func(e ssa.Value) atomFn {
		return func(op token.Token, x, y ssa.Value) (bool, bool) {
			if op != token.EQL {
				return false, false
			}
			if is, _ := isPolicyReq(x); is && isEmptyString(y) {
				return true, true
			}
			if isFieldOf(x, polF, e) {
				if is, norm := isPolicyReq(y); is {
					return true, norm
				}
			}
			return false, false
		}
	}
	modeAtom := func(e ssa.Value) atomFn {
		return func(op token.Token, x, y ssa.Value) (bool, bool) {
			if op != token.EQL {
				return false, false
			}
			if isModeReq(x) && isZero(y) {
				return true, true
			}
			return isFieldOf(x, modeF, e) && isModeReq(y), true
		}
	}
	defBlock := func(v ssa.Value) *ssa.BasicBlock {
		if in, ok := ssax.Strip(v).(ssa.Instruction); ok {
			return in.Block()
		}
		return nil
	}
	// criterion a holds for candidate e at instruction at
	holdsFor := func(at ssa.Instruction, e ssa.Value, a atomFn) (bool, bool) {
		if h, n := holdsAt(at, a); h {
			return true, n
		}
		return mustHold(at.Block(), defBlock(e), a)
	}
	isElem := func(v ssa.Value) bool {
		ld, ok := ssax.Strip(v).(*ssa.UnOp)
		if !ok || ld.Op != token.MUL {
			return false
		}
		ia, ok := ld.X.(*ssa.IndexAddr)
		return ok && isList(ia.X)
	}
	// single-pass maximum: the returned value is a loop-carried "best so far"
	type update struct {
		p  ssa.Value       // the element assigned
		at ssa.Instruction // end of the block the assignment comes from
	}
	bestChain := func(e ssa.Value) (chain map[ssa.Value]bool, ups []update, other []ssa.Value) {
		chain = map[ssa.Value]bool{}
		var walk func(v ssa.Value)
		walk = func(v ssa.Value) {
			ph, ok := ssax.Strip(v).(*ssa.Phi)
			if !ok || chain[ph] {
				return
			}
			chain[ph] = true
			for i, ed := range ph.Edges {
				ev := ssax.Strip(ed)
				if _, isPhi := ev.(*ssa.Phi); isPhi {
					walk(ev)
					continue
				}
				if ssax.IsNil(ev) {
					continue
				}
				pred := ph.Block().Preds[i]
				if isElem(ev) && len(pred.Instrs) > 0 {
					ups = append(ups, update{ev, pred.Instrs[len(pred.Instrs)-1]})
				} else {
					other = append(other, ev)
				}
			}
		}
		walk(e)
		return
	}
	maxScan := false

	// ---- result + match
	for _, r := range ssax.Returns(sel) {
		if r.Block() == sel.Recover || len(r.Results) < 2 {
			continue
		}
		e, errV := ssax.Strip(ssax.RetVal(r, 0)), ssax.Strip(ssax.RetVal(r, 1))
		eNil, errNil := ssax.IsNil(e), ssax.IsNil(errV)
		key := fname(sel) + "·return " + ssax.Path(e)
		c.Ob("C24.result", key+"·one of (endpoint, error)", pos(c, r), eNil != errNil, "endpoint is nil: "+boolStr(eNil)+"; error is nil: "+boolStr(errNil))
		if eNil {
			continue
		}
		if _, isPhi := e.(*ssa.Phi); isPhi {
			// best-so-far idiom: the criteria are owed where an element is assigned, not at the return
			maxScan = true
			nonNil := false
			for _, f := range ssax.FactsAt(r) {
				if f.Op == token.NEQ && (ssax.Strip(f.X) == e && ssax.IsNil(f.Y) || ssax.Strip(f.Y) == e && ssax.IsNil(f.X)) {
					nonNil = true
				}
			}
			c.Ob("C24.result", key+"·not nil when returned without error", pos(c, r), nonNil, "`best != nil` holds at the return: "+boolStr(nonNil))
			_, ups, other := bestChain(e)
			c.Ob("C24.match", key+"·assigned only from elements of the list", pos(c, r), len(other) == 0 && len(ups) > 0, fmtInt(len(ups))+" assignment(s) of a list element; other sources: "+fmtInt(len(other)))
			for _, u := range ups {
				k2 := fname(sel) + "·best = " + ssax.Path(u.p)
				polOK, polNorm := holdsFor(u.at, u.p, policyAtom(u.p))
				modeOK, _ := holdsFor(u.at, u.p, modeAtom(u.p))
				c.Ob("C24.match", k2+"·policy criterion", pos(c, u.at), polOK && polNorm, "`policy == \"\"` or `E.SecurityPolicyURI == policy` holds where the candidate is taken: "+boolStr(polOK)+"; the policy compared is the normalised one: "+boolStr(polNorm))
				c.Ob("C24.match", k2+"·mode criterion", pos(c, u.at), modeOK, "`mode == Invalid` or `E.SecurityMode == mode` holds where the candidate is taken: "+boolStr(modeOK))
			}
			continue
		}
		polOK, polNorm := holdsFor(r, e, policyAtom(e))
		modeOK, _ := holdsFor(r, e, modeAtom(e))
		c.Ob("C24.match", key+"·policy criterion", pos(c, r), polOK && polNorm, "`policy == \"\"` or `E.SecurityPolicyURI == policy` holds at the return: "+boolStr(polOK)+"; the policy compared is the normalised one: "+boolStr(polNorm))
		c.Ob("C24.match", key+"·mode criterion", pos(c, r), modeOK, "`mode == Invalid` or `E.SecurityMode == mode` holds at the return: "+boolStr(modeOK))
	}

	// ---- best
	// (1) a sort of the list by descending level
	descending := func(less *ssa.Function, reversed bool) (bool, string) {
		if less == nil || len(less.Blocks) == 0 {
			return false, "the ordering function has no body to look at"
		}
		// parameters that index / denote the two elements
		np := len(less.Params)
		if np < 2 {
			return false, "the ordering function takes fewer than two arguments"
		}
		a, b := less.Params[np-2], less.Params[np-1]
		side := func(v ssa.Value) int { // 1: first element, 2: second, 0: unknown
			ld := loadedField(v)
			if ld.f != lvlF {
				return 0
			}
			p := ssax.Path(v)
			ia, ib := strings.Contains(p, "["+a.Name()+"]") || strings.HasPrefix(p, a.Name()+"."), strings.Contains(p, "["+b.Name()+"]") || strings.HasPrefix(p, b.Name()+".")
			switch {
			case ia && !ib:
				return 1
			case ib && !ia:
				return 2
			}
			return 0
		}
		dir := 0 // +1 ascending, -1 descending
		for _, r := range ssax.Returns(less) {
			if len(r.Results) == 0 {
				continue
			}
			v := ssax.Strip(ssax.RetVal(r, 0))
			d := 0
			if cmp, neg, ok := ssax.AsCmp(v); ok {
				op := cmp.Op
				if neg {
					op = ssax.NegOp(op)
				}
				sx, sy := side(cmp.X), side(cmp.Y)
				if sx != 0 && sy != 0 && sx != sy {
					asc := (op == token.LSS || op == token.LEQ) == (sx == 1)
					if op == token.LSS || op == token.LEQ || op == token.GTR || op == token.GEQ {
						if asc {
							d = 1
						} else {
							d = -1
						}
					}
				}
			} else if call, ok := v.(*ssa.Call); ok {
				// cmp.Compare(x, y) in a three-way comparison
				if cal := ssax.Callee(call); cal != nil && cal.Name() == "Compare" && len(call.Call.Args) == 2 {
					sx, sy := side(call.Call.Args[0]), side(call.Call.Args[1])
					if sx == 1 && sy == 2 {
						d = 1
					} else if sx == 2 && sy == 1 {
						d = -1
					}
				}
			} else if bo, ok := v.(*ssa.BinOp); ok && bo.Op == token.SUB {
				sx, sy := side(bo.X), side(bo.Y)
				if sx == 1 && sy == 2 {
					d = 1
				} else if sx == 2 && sy == 1 {
					d = -1
				}
			}
			if d == 0 || (dir != 0 && dir != d) {
				return false, "the ordering function " + fname(less) + " does not compare the SecurityLevel of its two elements in one direction"
			}
			dir = d
		}
		if reversed {
			dir = -dir
		}
		if dir == -1 {
			return true, "ordered by " + fname(less) + ", descending in SecurityLevel"
		}
		if dir == 1 {
			return false, "ordered by " + fname(less) + ": ASCENDING in SecurityLevel — the scan would hand out the weakest match"
		}
		return false, "no ordering function found"
	}
	methodLess := func(t types.Type) *ssa.Function {
		ms := sel.Prog.MethodSets.MethodSet(t)
		for i := 0; i < ms.Len(); i++ {
			if ms.At(i).Obj().Name() == "Less" {
				return sel.Prog.MethodValue(ms.At(i))
			}
		}
		return nil
	}
	closureFn := func(v ssa.Value) *ssa.Function {
		switch x := ssax.Strip(v).(type) {
		case *ssa.MakeClosure:
			f, _ := x.Fn.(*ssa.Function)
			return f
		case *ssa.Function:
			return x
		}
		return nil
	}
	var sortCall ssa.CallInstruction
	sortOK, sortWhy := false, "no call that sorts the endpoint list was found"
	for _, call := range ssax.Calls(sel) {
		cal := ssax.Callee(call)
		if cal == nil || cal.Pkg() == nil {
			continue
		}
		args := call.Common().Args
		switch cal.Pkg().Path() + "." + cal.Name() {
		case "sort.Sort", "sort.Stable":
			// sort.Sort(sort.Reverse(T(list))) or sort.Sort(T(list))
			// the dynamic type inside the sort.Interface value (conversions must not be stripped: they carry the type)
			unwrap := func(v ssa.Value) ssa.Value {
				if mi, ok := v.(*ssa.MakeInterface); ok {
					return mi.X
				}
				return v
			}
			v := unwrap(args[0])
			reversed := false
			if inner, ok := v.(*ssa.Call); ok {
				if ic := ssax.Callee(inner); ic != nil && ic.Pkg() != nil && ic.Pkg().Path() == "sort" && ic.Name() == "Reverse" {
					reversed = true
					v = unwrap(inner.Call.Args[0])
				}
			}
			sortCall = call
			sortOK, sortWhy = descending(methodLess(v.Type()), reversed)
		case "sort.Slice", "sort.SliceStable":
			sortCall = call
			sortOK, sortWhy = descending(closureFn(args[1]), false)
		case "slices.SortFunc", "slices.SortStableFunc":
			sortCall = call
			sortOK, sortWhy = descending(closureFn(args[1]), false)
		}
	}
	at := c.P.Pos(sel.Pos())
	if sortCall != nil {
		at = pos(c, sortCall)
	}
	// the sort is owed only where an element is handed out by position (first match / element 0)
	byPosition := false
	for _, r := range ssax.Returns(sel) {
		if r.Block() != sel.Recover && len(r.Results) >= 2 && isElem(ssax.RetVal(r, 0)) {
			byPosition = true
		}
	}
	if byPosition || !maxScan {
		c.Ob("C24.best", fname(sel)+"·sorted by descending SecurityLevel", at, sortOK, sortWhy)
	}
	// (2) every returned element is reached by an upward scan from index 0 behind the sort
	for _, r := range ssax.Returns(sel) {
		if r.Block() == sel.Recover || len(r.Results) < 2 {
			continue
		}
		e := ssax.Strip(ssax.RetVal(r, 0))
		if ssax.IsNil(e) {
			continue
		}
		if _, isPhi := e.(*ssa.Phi); isPhi {
			// best-so-far: every replacement of the candidate is guarded by "none yet, or a higher level than the
			// one held", compared with the held candidate itself
			chain, ups, _ := bestChain(e)
			guard := func(p ssa.Value) atomFn {
				return func(op token.Token, x, y ssa.Value) (bool, bool) {
					if op == token.EQL && chain[ssax.Strip(x)] && ssax.IsNil(y) {
						return true, true
					}
					if op == token.GTR || op == token.GEQ {
						lx, ly := loadedField(x), loadedField(y)
						if lx.f == lvlF && ly.f == lvlF && ssax.Strip(lx.base) == ssax.Strip(p) && chain[ssax.Strip(ly.base)] {
							return true, true
						}
					}
					return false, false
				}
			}
			for _, u := range ups {
				ok, _ := holdsFor(u.at, u.p, guard(u.p))
				c.Ob("C24.best", fname(sel)+"·best = "+ssax.Path(u.p)+"·only over a weaker candidate", pos(c, u.at), ok, "the assignment is guarded by `best == nil || E.SecurityLevel > best.SecurityLevel` on every path: "+boolStr(ok)+" — a comparison with anything else (a separate running level, a constant) can exclude an endpoint that should win")
			}
			continue
		}
		ok, why := false, "the returned endpoint is not an element of the list"
		if ld, isLd := e.(*ssa.UnOp); isLd && ld.Op == token.MUL {
			if ia, isIA := ld.X.(*ssa.IndexAddr); isIA && isList(ia.X) {
				idx := ssax.Strip(ia.Index)
				if k, isK := ssax.ConstInt(idx); isK {
					ok, why = k == 0, "element "+fmtInt(int(k))+" of the sorted list"
				} else if upwardFromZero(idx) {
					ok, why = true, "first match of a scan that walks upwards from element 0"
				} else {
					why = "the index " + ssax.Path(idx) + " is not an induction variable that starts at 0 and steps by +1"
				}
			}
		}
		if ok && sortCall != nil && !ssax.Dominates(sortCall, r) {
			ok, why = false, "the sort does not precede this return"
		}
		c.Ob("C24.best", fname(sel)+"·return "+ssax.Path(e)+"·first of the sorted list", pos(c, r), ok, why)
	}
}

// upwardFromZero: idx is `phi+1` with phi = [-1, idx] (range loop) or a phi [0, phi+1] (index loop).
func upwardFromZero(idx ssa.Value) bool {
	idx = ssax.Strip(idx)
	if bo, ok := idx.(*ssa.BinOp); ok && bo.Op == token.ADD {
		if k, isK := ssax.ConstInt(bo.Y); isK && k == 1 {
			if ph, ok := bo.X.(*ssa.Phi); ok {
				okAll := len(ph.Edges) > 0
				for _, e := range ph.Edges {
					if k, isK := ssax.ConstInt(e); isK && k == -1 {
						continue
					}
					if ssax.Strip(e) == idx {
						continue
					}
					okAll = false
				}
				return okAll
			}
		}
	}
	if ph, ok := idx.(*ssa.Phi); ok {
		okAll := len(ph.Edges) > 0
		for _, e := range ph.Edges {
			if k, isK := ssax.ConstInt(e); isK && k == 0 {
				continue
			}
			if bo, ok := ssax.Strip(e).(*ssa.BinOp); ok && bo.Op == token.ADD && bo.X == ssa.Value(ph) {
				if k, isK := ssax.ConstInt(bo.Y); isK && k == 1 {
					continue
				}
			}
			okAll = false
		}
		return okAll
	}
	return false
}
