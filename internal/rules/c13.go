package rules

import (
	"go/token"
	"go/types"

	"golang.org/x/tools/go/ssa"

	"verif/internal/core"
	"verif/internal/ssax"
)

func init() { register("C13", c13) }

func byteSlice(s ssa.Value) bool {
	sl, ok := s.Type().Underlying().(*types.Slice)
	if !ok {
		return false
	}
	b, ok := sl.Elem().Underlying().(*types.Basic)
	return ok && b.Kind() == types.Uint8
}

// recvPathFns: functions of uasc/uacp reachable from SecureChannel.Receive.
func recvPathFns(c *core.Ctx) []*ssa.Function {
	recv := fn(c, "uasc", "SecureChannel", "Receive")
	if recv == nil {
		return nil
	}
	m := reachableFrom(c, []*ssa.Function{recv}, "uasc", "uacp")
	// the send path (responses written while handling an OPN) works on locally
	// encoded buffers, not on peer-chosen frames
	var sendRoots []*ssa.Function
	for _, n := range []string{"writeMessageChunks", "sendAsyncWithTimeout", "sendResponseWithContext", "SendMsgWithContext"} {
		if f := fn(c, "uasc", "SecureChannel", n); f != nil {
			sendRoots = append(sendRoots, f)
		}
	}
	send := reachableFrom(c, sendRoots, "uasc", "uacp")
	var out []*ssa.Function
	for f := range m {
		if send[f] {
			continue
		}
		out = append(out, f)
	}
	sortFns(out)
	return out
}

func sortFns(fs []*ssa.Function) {
	for i := range fs {
		for j := i + 1; j < len(fs); j++ {
			if fs[j].Pos() < fs[i].Pos() || (fs[j].Pos() == fs[i].Pos() && fs[j].String() < fs[i].String()) {
				fs[i], fs[j] = fs[j], fs[i]
			}
		}
	}
}

func c13(c *core.Ctx) {
	initOwners(c)
	chunksF := field(c, "uasc", "SecureChannel", "chunks")
	instancesF := field(c, "uasc", "SecureChannel", "instances")
	rbs := field(c, "uacp", "Acknowledge", "ReceiveBufSize")
	ackF := field(c, "uacp", "Conn", "ack")
	recvFn := fn(c, "uacp", "Conn", "Receive")
	if chunksF == nil || instancesF == nil || rbs == nil || ackF == nil || recvFn == nil {
		return
	}
	installMinLenHook(c)
	installConsumedHook(c)
	defer func() { ssax.MinLenHook = nil; ssax.ConsumedHook = nil; ssax.MinCapHook = nil }()
	fns := recvPathFns(c)
	c.Count("functions on the uasc/uacp receive path", len(fns))

	c.Rule("C13.bounds", "every byte-slice expression with a non-constant bound, and every constant slice of a received frame, in the uasc/uacp functions reachable from SecureChannel.Receive is in bounds for every frame: `len(x)-k` needs len(x) >= k, `s[lo:hi]` needs lo <= hi <= len/cap(s), each established by a dominating comparison or by the proven minimum frame length", 8)
	c.Rule("C13.assert", "every type assertion on the public key of a peer-supplied certificate on the receive/open path is the comma-ok form", 3)
	c.Rule("C13.container", "every insertion into a long-lived container of the channel whose key or growth is controlled by the peer (SecureChannel.chunks, SecureChannel.instances) is bounded: per-key length and number of keys are compared with a negotiated or constant limit before/after the insertion with an error path", 2)
	c.Rule("C13.alloc", "the size of the per-frame receive buffer is bounded above by a locally chosen value (the peer's Acknowledge is compared with an upper limit before it sizes the allocation)", 1)

	c13Nil(c, fns)
	// bounds
	for _, f := range fns {
		if shortOf(f) == "uacp" && (f.Name() == "Receive" || f.Name() == "Handshake" || f.Name() == "srvhandshake") {
			continue // C05's obligations
		}
		for _, site := range ssax.CheckBounds(f, byteSlice) {
			if len(site.Issues) == 0 {
				c.Ob("C13.bounds", fname(f)+"·"+site.Expr, pos(c, site.At), true, "in bounds")
				continue
			}
			for _, is := range site.Issues {
				c.Ob("C13.bounds", fname(f)+"·"+site.Expr+" ("+is.Kind+")", pos(c, site.At), false, "needs "+is.Need+", which no dominating comparison establishes: a peer-chosen frame length makes this slice expression panic")
			}
		}
	}
	// assert
	for _, f := range libFns(c, "uasc") {
		for _, b := range f.Blocks {
			for _, in := range b.Instrs {
				ta, ok := in.(*ssa.TypeAssert)
				if !ok {
					continue
				}
				if n, ok := ssax.Strip(ta.X).(*ssa.UnOp); !ok || loadedField(n).f == nil || loadedField(n).f.Name() != "PublicKey" {
					continue
				}
				c.Ob("C13.assert", fname(ssax.Outermost(f))+"·PublicKey.("+ssax.TypeName(ta.AssertedType)+")", pos(c, ta), ta.CommaOk, "comma-ok: "+boolStr(ta.CommaOk))
			}
		}
	}
	// container
	{
		recv := fn(c, "uasc", "SecureChannel", "Receive")
		maxChunks := obj(c, "uacp", "Conn", "MaxChunkCount")
		for _, s := range ssax.ContainerSites(recv, chunksF) {
			if s.Kind != ssax.MapStore {
				continue
			}
			// per-key length check
			perKey := false
			numKeys := false
			for _, b := range recv.Blocks {
				ifi, ok := b.Instrs[len(b.Instrs)-1].(*ssa.If)
				if !ok {
					continue
				}
				cmp, _, ok := ssax.AsCmp(ifi.Cond)
				if !ok {
					continue
				}
				for _, side := range []ssa.Value{cmp.X, cmp.Y} {
					if cv, isCall := ssax.Strip(side).(*ssa.Call); isCall {
						if ssax.Callee(cv) == maxChunks && ssax.Dominates(s.Instr, ifi) {
							perKey = true
						}
						if ssax.IsBuiltin(cv, "len") && loadedField(cv.Call.Args[0]).f == chunksF {
							numKeys = true
						}
					}
				}
			}
			c.Ob("C13.container", fname(recv)+"·chunks[reqID] per-request length", pos(c, s.Instr), perKey, "number of buffered chunks per request id compared with MaxChunkCount: "+boolStr(perKey))
			c.Ob("C13.container", fname(recv)+"·number of request ids with buffered chunks", pos(c, s.Instr), numKeys, "len(SecureChannel.chunks) compared with a limit: "+boolStr(numKeys)+" — a stream of intermediate chunks with fresh request ids is retained without bound (MaxChunkCount × chunk size per id)")
		}
	}
	// alloc
	{
		for _, b := range recvFn.Blocks {
			for _, in := range b.Instrs {
				mk, ok := in.(*ssa.MakeSlice)
				if !ok || loadedField(mk.Len).f != rbs {
					continue
				}
				upper := true
				stores := wireAckStores(c, ackF)
				for _, st := range stores {
					has := false
					for _, fact := range ssax.FactsAt(st) {
						if ld := loadedField(fact.X); ld.f == rbs && (fact.Op == token.LEQ || fact.Op == token.LSS) {
							has = true
						}
						if ld := loadedField(fact.Y); ld.f == rbs && (fact.Op == token.GEQ || fact.Op == token.GTR) {
							has = true
						}
					}
					if !has {
						upper = false
					}
				}
				c.Ob("C13.alloc", fname(recvFn)+"·make([]byte, ack.ReceiveBufSize)", pos(c, mk), upper && len(stores) > 0, "peer-supplied ReceiveBufSize bounded above before it sizes the per-frame allocation: "+boolStr(upper && len(stores) > 0)+" — an ACK announcing 0xffffffff makes the client allocate 4 GiB per frame")
			}
		}
	}
}

// consumedSummary: fn takes a []byte and returns (as result 0) a byte count
// that is at most the length of that argument: Buffer.Pos() of a buffer over
// it, len() of it, or the count returned by another such function on it.
func consumedSummary(c *core.Ctx, f *ssa.Function, depth int) bool {
	if f == nil || f.Blocks == nil || depth > 3 || f.Signature.Results().Len() < 1 {
		return false
	}
	var bparam *ssa.Parameter
	for _, p := range f.Params {
		if byteSlice(p) {
			bparam = p
		}
	}
	if bparam == nil {
		return false
	}
	bufPos := obj(c, "ua", "Buffer", "Pos")
	newBuf := obj(c, "ua", "", "NewBuffer")
	rets := ssax.Returns(f)
	if len(rets) == 0 {
		return false
	}
	for _, r := range rets {
		v := ssax.Strip(ssax.RetVal(r, 0))
		ok := false
		switch x := v.(type) {
		case *ssa.Call:
			if ssax.IsBuiltin(x, "len") && ssax.Strip(x.Call.Args[0]) == ssa.Value(bparam) {
				ok = true
			}
			if ssax.Callee(x) == bufPos {
				// receiver: NewBuffer(bparam)
				for _, o := range ssax.Origins(x.Call.Args[0], nil, 0) {
					if o.Call == newBuf {
						if nb, isCall := o.CallV.(*ssa.Call); isCall && ssax.Strip(nb.Call.Args[0]) == ssa.Value(bparam) {
							ok = true
						}
					}
				}
			}
		case *ssa.Extract:
			if call, isCall := x.Tuple.(*ssa.Call); isCall && x.Index == 0 {
				args := call.Call.Args
				if len(args) > 0 && ssax.Strip(args[len(args)-1]) == ssa.Value(bparam) {
					ok = consumedSummary(c, call.Call.StaticCallee(), depth+1)
				}
			}
		case *ssa.Const:
			if k, isK := ssax.ConstInt(x); isK && k == 0 {
				ok = true
			}
		}
		if !ok {
			return false
		}
	}
	return true
}

// installConsumedHook: n <= len(s) when n is result 0 of a decoder call on s.
func installConsumedHook(c *core.Ctx) {
	cache := map[*ssa.Function]bool{}
	ssax.ConsumedHook = func(n, s ssa.Value) bool {
		ex, ok := ssax.Strip(n).(*ssa.Extract)
		if !ok || ex.Index != 0 {
			return false
		}
		call, ok := ex.Tuple.(*ssa.Call)
		if !ok {
			return false
		}
		sf := call.Call.StaticCallee()
		if sf == nil {
			return false
		}
		args := call.Call.Args
		if len(args) == 0 || ssax.Path(args[len(args)-1]) != ssax.Path(s) {
			return false
		}
		v, seen := cache[sf]
		if !seen {
			v = consumedSummary(c, sf, 0)
			cache[sf] = v
		}
		return v
	}
}
