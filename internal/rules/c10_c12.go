package rules

import (
	"go/token"
	"go/types"

	"golang.org/x/tools/go/callgraph"
	"golang.org/x/tools/go/ssa"

	"verif/internal/core"
	"verif/internal/ssax"
)

func init() { register("C10", c10); register("C12", c12) }

// reachableFrom returns the library functions reachable from root in the call
// graph (within the given packages).
func reachableFrom(c *core.Ctx, roots []*ssa.Function, pkgs ...string) map[*ssa.Function]bool {
	cg := c.P.CallGraph()
	want := map[string]bool{}
	for _, p := range pkgs {
		want[p] = true
	}
	seen := map[*ssa.Function]bool{}
	var walk func(f *ssa.Function)
	walk = func(f *ssa.Function) {
		if f == nil || seen[f] {
			return
		}
		if f.Pkg == nil || !c.P.IsLib(f.Pkg.Pkg) {
			return
		}
		if len(want) > 0 {
			s := shortOf(f)
			if !want[s] {
				return
			}
		}
		seen[f] = true
		if n := cg.Nodes[f]; n != nil {
			for _, e := range n.Out {
				walk(e.Callee.Func)
			}
		}
		for _, a := range f.AnonFuncs {
			walk(a)
		}
	}
	for _, r := range roots {
		walk(r)
	}
	return seen
}

var _ = callgraph.CalleesOf

func shortOf(f *ssa.Function) string {
	if f.Pkg == nil {
		return ""
	}
	p := f.Pkg.Pkg.Path()
	switch p {
	case "github.com/gopcua/opcua":
		return "opcua"
	}
	const pre = "github.com/gopcua/opcua/"
	if len(p) > len(pre) && p[:len(pre)] == pre {
		return p[len(pre):]
	}
	return p
}

// C10 — replayed chunks never delivered twice: the receiver must remember.
func c10(c *core.Ctx) {
	initOwners(c)
	recv := fn(c, "uasc", "SecureChannel", "Receive")
	seqNum := field(c, "uasc", "SequenceHeader", "SequenceNumber")
	if recv == nil || seqNum == nil {
		return
	}
	c.Rule("C10.state", "there is per-channel state (a field of SecureChannel or channelInstance) that is updated from the received SequenceHeader.SequenceNumber on the receive path; without remembered state no replay can be recognised", 1)
	c.Rule("C10.compare", "the remembered sequence number is compared with the next received number, with an error on the failing edge, before a message is delivered", 0)

	c10DupFilter(c, seqNum)
	c.Rule("C10.release", "the chunks buffered for a request are dropped when its final chunk has been merged (C12.release applies verbatim): a replayed final chunk then stands alone and fails to decode instead of re-delivering the whole message", 1)
	{
		tmp := core.NewCtx(c.Prop, c.Tier, c.P)
		c12(tmp)
		for _, e := range tmp.Errors {
			c.Fatal("%s", e)
		}
		for _, o := range tmp.Obs {
			if o.Rule == "C12.release" {
				c.Ob("C10.release", o.Key, o.Pos, o.OK, o.Detail)
			}
		}
	}

	fns := reachableFrom(c, []*ssa.Function{recv}, "uasc")
	c.Count("functions reachable from Receive (uasc)", len(fns))
	scT := c.P.Named("uasc", "SecureChannel")
	ciT := c.P.Named("uasc", "channelInstance")
	type stateStore struct {
		f  *ssa.Function
		st *ssa.Store
		fl *types.Var
	}
	var stores []stateStore
	for f := range fns {
		for _, b := range f.Blocks {
			for _, in := range b.Instrs {
				st, ok := in.(*ssa.Store)
				if !ok {
					continue
				}
				fa, ok := st.Addr.(*ssa.FieldAddr)
				if !ok {
					continue
				}
				owner := derefNamed(fa.X.Type())
				if owner == nil || (owner != scT && owner != ciT) {
					continue
				}
				for _, o := range ssax.Origins(st.Val, c.P.CallGraph(), c.Depth) {
					if o.Field == seqNum {
						stores = append(stores, stateStore{f, st, ssax.FieldOf(fa.X.Type(), fa.Field)})
					}
				}
			}
		}
	}
	if len(stores) == 0 {
		c.Ob("C10.state", "uasc.SecureChannel·last received sequence number", c.P.Pos(recv.Pos()), false, "no field of SecureChannel/channelInstance is ever written from a received SequenceHeader.SequenceNumber: a verbatim re-send of a chunk is verified, decoded and delivered again")
		return
	}
	for _, s := range stores {
		c.Ob("C10.state", "uasc·"+ssax.FieldString(s.fl)+" updated from received SequenceNumber", pos(c, s.st), true, "in "+fname(s.f))
		// a comparison between a load of that field and a received number
		found := false
		for f := range fns {
			for _, b := range f.Blocks {
				for _, in := range b.Instrs {
					bo, ok := in.(*ssa.BinOp)
					if !ok {
						continue
					}
					switch bo.Op {
					case token.LSS, token.LEQ, token.GTR, token.GEQ, token.EQL, token.NEQ:
					default:
						continue
					}
					hasState, hasWire := false, false
					for _, side := range []ssa.Value{bo.X, bo.Y} {
						for _, o := range ssax.Origins(side, nil, 0) {
							if o.Field == s.fl {
								hasState = true
							}
							if o.Field == seqNum {
								hasWire = true
							}
						}
						if b2, ok := ssax.Strip(side).(*ssa.BinOp); ok {
							for _, s2 := range []ssa.Value{b2.X, b2.Y} {
								for _, o := range ssax.Origins(s2, nil, 0) {
									if o.Field == s.fl {
										hasState = true
									}
								}
							}
						}
					}
					if hasState && hasWire {
						found = true
					}
				}
			}
		}
		c.Ob("C10.compare", "uasc·"+ssax.FieldString(s.fl)+" compared with received SequenceNumber", pos(c, s.st), found, "comparison present: "+boolStr(found))
	}
}

func derefNamed(t types.Type) *types.Named {
	if p, ok := t.Underlying().(*types.Pointer); ok {
		t = p.Elem()
	}
	n, _ := t.(*types.Named)
	return n
}

// C12 — reassembly of conforming chunk streams.
func c12(c *core.Ctx) {
	initOwners(c)
	recv := fn(c, "uasc", "SecureChannel", "Receive")
	merge := fn(c, "uasc", "", "mergeChunks")
	chunks := field(c, "uasc", "SecureChannel", "chunks")
	chunksMu := field(c, "uasc", "SecureChannel", "chunksMu")
	reqID := field(c, "uasc", "SequenceHeader", "RequestID")
	seqNum := field(c, "uasc", "SequenceHeader", "SequenceNumber")
	dataF := field(c, "uasc", "MessageChunk", "Data")
	readChunk := obj(c, "uasc", "SecureChannel", "readChunk")
	if recv == nil || merge == nil || chunks == nil || chunksMu == nil || reqID == nil || seqNum == nil || dataF == nil || readChunk == nil {
		return
	}
	c.Rule("C12.key", "every access to SecureChannel.chunks is keyed by the RequestID of the decoded sequence header (partial messages of different requests never mix)", 5)
	c.Rule("C12.release", "every path of Receive from taking chunksMu to a return (abort, too-many-chunks, final chunk) deletes the request's entry from SecureChannel.chunks; only the intermediate-chunk path keeps it and loops", 1)
	c.Rule("C12.append", "an intermediate chunk is appended after the chunks already buffered for its request id, and the final chunk after all buffered ones (arrival order is preserved)", 1)
	c.Rule("C12.sentinel", "no received SequenceNumber is compared for equality with a loop-carried variable whose first value is a constant (0 is a legal sequence number after wrap; a zero-initialised 'previous number' drops the first chunk of a multi-chunk message)", 1)
	c.Rule("C12.order", "mergeChunks concatenates chunk.Data of the slice elements in index order (forward range), and returns the single chunk's own data for one chunk", 1)

	cg := c.P.CallGraph()
	// key
	for _, f := range libFns(c, "uasc") {
		for _, s := range ssax.ContainerSites(f, chunks) {
			switch s.Kind {
			case ssax.MapLookup, ssax.MapStore, ssax.MapDelete:
				ok := false
				var why []string
				for _, o := range ssax.Origins(s.Key, cg, c.Depth) {
					if o.Field == reqID {
						ok = true
					} else {
						why = append(why, o.String())
					}
				}
				if len(why) > 0 {
					ok = false
				}
				d := "keyed by SequenceHeader.RequestID"
				if !ok {
					d = "key is not the decoded request id: " + joinS(why)
				}
				c.Ob("C12.key", fname(f)+"·"+s.Kind.String()+"(SecureChannel.chunks)", pos(c, s.Instr), ok, d)
			}
		}
	}
	// no operation on the whole table on the receive path: partial messages of other requests must survive
	{
		bad := ""
		for f := range reachableFrom(c, []*ssa.Function{recv}, "uasc") {
			for _, b := range f.Blocks {
				for _, in := range b.Instrs {
					switch x := in.(type) {
					case ssa.CallInstruction:
						if ssax.IsBuiltin(x, "clear") && len(x.Common().Args) == 1 && loadedField(x.Common().Args[0]).f == chunks {
							bad = "clear(SecureChannel.chunks) at " + pos(c, in)
						}
					case *ssa.Store:
						if fa, ok := x.Addr.(*ssa.FieldAddr); ok && fieldOf(fa) == chunks {
							bad = "SecureChannel.chunks replaced at " + pos(c, in)
						}
					}
				}
			}
		}
		c.Ob("C12.key", fname(recv)+"·no whole-table reset of SecureChannel.chunks", c.P.Pos(recv.Pos()), bad == "", "the receive path only touches the entry of the request id at hand: "+orNone(bad)+" (an abort of one request must not discard the buffered chunks of another)")
	}
	// release
	{
		var lockCalls []ssa.CallInstruction
		for _, call := range ssax.Calls(recv) {
			cal := ssax.Callee(call)
			if cal != nil && cal.Name() == "Lock" && recvFromField(call, chunksMu) {
				lockCalls = append(lockCalls, call)
			}
		}
		if len(lockCalls) == 0 {
			c.Ob("C12.release", fname(recv)+"·chunksMu.Lock", c.P.Pos(recv.Pos()), false, "Receive no longer takes chunksMu around the chunk table")
		}
		isRealDelete := func(in ssa.Instruction) bool {
			call, ok := in.(ssa.CallInstruction)
			return ok && ssax.IsBuiltin(call, "delete") && loadedField(call.Common().Args[0]).f == chunks
		}
		// the delete itself, or a call of a private helper that performs it
		deletes := liftedSites(recv, isRealDelete)
		isDelete := func(in ssa.Instruction) bool {
			for _, d := range deletes {
				if d == in {
					return true
				}
			}
			return false
		}
		for _, lc := range lockCalls {
			reach, tr := ssax.Reach(recv, lc, func(in ssa.Instruction) bool { _, ok := in.(*ssa.Return); return ok }, isDelete, func(a, b *ssa.BasicBlock) bool {
				return b.Dominates(a) /* back edge: the intermediate-chunk path loops */
			})
			c.Ob("C12.release", fname(recv)+"·terminal paths delete the entry", pos(c, lc), !reach, "a terminal path keeps the partial message buffered: "+boolStr(reach), trace(c, tr)...)
		}
	}
	// append
	{
		var chunkV ssa.Value
		for _, call := range ssax.CallsTo(recv, readChunk) {
			chunkV = result(call, 0)
		}
		n := 0
		for _, g := range withHelpers(recv) {
			for _, b := range g.Blocks {
				for _, in := range b.Instrs {
					call, ok := in.(*ssa.Call)
					if !ok || !ssax.IsBuiltin(call, "append") {
						continue
					}
					// first arg: lookup on chunks
					first := ssax.Strip(call.Call.Args[0])
					lk, ok := first.(*ssa.Lookup)
					if !ok || loadedField(lk.X).f != chunks {
						continue
					}
					n++
					vals := appendedValues(call)
					ok2 := len(vals) == 1 && denotes(vals[0], chunkV)
					if !ok2 && len(vals) == 1 && g != recv {
						// in a helper: the appended value is a parameter that every call in Receive binds to the chunk just read
						if p, isP := ssax.Strip(vals[0]).(*ssa.Parameter); isP {
							idx := -1
							for i, q := range g.Params {
								if q == p {
									idx = i
								}
							}
							all, any := true, false
							for _, cs := range ssax.Calls(recv) {
								if cs.Common().StaticCallee() == g && idx >= 0 && idx < len(cs.Common().Args) {
									any = true
									if !denotes(cs.Common().Args[idx], chunkV) {
										all = false
									}
								}
							}
							ok2 = all && any
						}
					}
					c.Ob("C12.append", fname(recv)+"·append(chunks[reqID], chunk)", pos(c, call), ok2, "buffered chunks first, the chunk just read last: "+boolStr(ok2))
				}
			}
		}
		if n == 0 {
			c.Ob("C12.append", fname(recv)+"·append(chunks[reqID], chunk)", c.P.Pos(recv.Pos()), false, "no append to the buffered chunk list found")
		}
	}
	// sentinel
	{
		fns := reachableFrom(c, []*ssa.Function{recv}, "uasc")
		n := 0
		for f := range fns {
			for _, b := range f.Blocks {
				for _, in := range b.Instrs {
					bo, ok := in.(*ssa.BinOp)
					if !ok || (bo.Op != token.EQL && bo.Op != token.NEQ) {
						continue
					}
					var wire, other ssa.Value
					if loadedField(bo.X).f == seqNum {
						wire, other = bo.X, bo.Y
					} else if loadedField(bo.Y).f == seqNum {
						wire, other = bo.Y, bo.X
					}
					if wire == nil {
						continue
					}
					phi, ok := ssax.Strip(other).(*ssa.Phi)
					if !ok {
						continue
					}
					constEdge := false
					for _, e := range phi.Edges {
						if _, ok := e.(*ssa.Const); ok {
							constEdge = true
						}
					}
					if !constEdge {
						continue
					}
					n++
					// accepted if guarded by "not the first iteration"
					guarded := false
					for _, fct := range ssax.FactsAt(bo) {
						if p2, _ := ssax.Strip(fct.X).(*ssa.Phi); forwardIndex(fct.X) && p2 != phi {
							if k, ok := ssax.ConstInt(fct.Y); ok {
								if (fct.Op == token.GTR && k >= 0) || (fct.Op == token.NEQ && k == 0) || (fct.Op == token.GEQ && k >= 1) {
									guarded = true
								}
							}
						}
					}
					tr, _ := ssax.BoolFactsAt(bo)
					_ = tr
					c.Ob("C12.sentinel", fname(f)+"·SequenceNumber == loop-carried(const-initialised)", pos(c, bo), guarded, "comparison of a received sequence number with a variable that still holds its constant initial value on the first iteration; guarded by a not-first-iteration test: "+boolStr(guarded))
				}
			}
		}
		if n == 0 {
			c.Ob("C12.sentinel", "uasc·no zero-sentinel comparison on the receive path", c.P.Pos(merge.Pos()), true, "no equality comparison of a received sequence number with a constant-initialised loop variable")
		}
	}
	// order
	{
		ok := false
		detail := "no append(b, element.Data...) inside a forward range over the parameter"
		param := merge.Params[0]
		for _, b := range merge.Blocks {
			for _, in := range b.Instrs {
				call, isCall := in.(*ssa.Call)
				if !isCall || !ssax.IsBuiltin(call, "append") || len(call.Call.Args) != 2 {
					continue
				}
				ld := loadedField(call.Call.Args[1])
				if ld.f != dataF {
					continue
				}
				// base: element of param at index phi that steps +1
				el := ssax.Strip(ld.base)
				if u, isU := el.(*ssa.UnOp); isU {
					if ia, isIA := u.X.(*ssa.IndexAddr); isIA && ssax.Strip(ia.X) == param {
						if forwardIndex(ia.Index) {
							ok = true
							detail = "append(b, chunks[i].Data...) with i stepping +1"
						} else {
							detail = "index does not step forward by one"
						}
					}
				}
			}
		}
		c.Ob("C12.order", fname(merge)+"·concatenate in slice order", c.P.Pos(merge.Pos()), ok, detail)
	}
}

// forwardIndex: v is a phi (or phi+1) of an induction variable stepping by +1.
func forwardIndex(v ssa.Value) bool {
	v = ssax.Strip(v)
	if bo, ok := v.(*ssa.BinOp); ok && bo.Op == token.ADD {
		if k, ok := ssax.ConstInt(bo.Y); ok && k == 1 {
			if p, ok := bo.X.(*ssa.Phi); ok {
				for _, e := range p.Edges {
					if e == ssa.Value(bo) {
						return true
					}
				}
			}
		}
	}
	if p, ok := v.(*ssa.Phi); ok {
		for _, e := range p.Edges {
			if bo, ok := e.(*ssa.BinOp); ok && bo.Op == token.ADD && bo.X == ssa.Value(p) {
				if k, ok := ssax.ConstInt(bo.Y); ok && k == 1 {
					return true
				}
			}
		}
	}
	return false
}

func joinS(s []string) string {
	out := ""
	for i, x := range uniq(s) {
		if i > 0 {
			out += ", "
		}
		out += x
	}
	return out
}

// c10DupFilter: the only replay defence the receive path has today is the adjacent-duplicate filter of mergeChunks
// (C10.state records that there is no per-channel memory). It recognises a replayed chunk only if the number it
// compares with is the number of the chunk that was accepted last, i.e. the compared variable is loop carried and is
// re-assigned from the current chunk's SequenceNumber on every iteration that accepts a chunk.
func c10DupFilter(c *core.Ctx, seqNum *types.Var) {
	merge := fn(c, "uasc", "", "mergeChunks")
	if merge == nil {
		for _, f := range libFns(c, "uasc") {
			if f.Name() == "mergeChunks" {
				merge = f
			}
		}
	}
	if merge == nil {
		return
	}
	c.Rule("C10.dupfilter", "in mergeChunks the received SequenceNumber of each chunk is compared (==, with `continue` on equality) with a loop-carried variable that every accepting iteration re-assigns from that chunk's SequenceNumber: a verbatim copy of the chunk accepted last — whichever it is — is dropped", 1)
	n := 0
	for _, b := range merge.Blocks {
		for _, in := range b.Instrs {
			bo, ok := in.(*ssa.BinOp)
			if !ok || (bo.Op != token.EQL && bo.Op != token.NEQ) {
				continue
			}
			x, y := ssax.Strip(bo.X), ssax.Strip(bo.Y)
			if loadedField(y).f == seqNum {
				x, y = y, x
			}
			if loadedField(x).f != seqNum {
				continue
			}
			n++
			phi, isPhi := y.(*ssa.Phi)
			ok2 := false
			detail := "the received number is compared with " + ssax.Path(y) + ", which is not loop carried: only copies of one particular chunk are recognised"
			if isPhi {
				updated, foreign := false, ""
				var visit func(p *ssa.Phi, seen map[*ssa.Phi]bool)
				visit = func(p *ssa.Phi, seen map[*ssa.Phi]bool) {
					if seen[p] {
						return
					}
					seen[p] = true
					for i, e := range p.Edges {
						pred := p.Block().Preds[i]
						if !p.Block().Dominates(pred) && p == phi {
							continue // loop entry edge: the initial value (C12.sentinel decides that one)
						}
						ev := ssax.Strip(e)
						switch {
						case ev == ssa.Value(phi):
						case loadedField(ev).f == seqNum:
							updated = true
						default:
							if q, ok := ev.(*ssa.Phi); ok {
								visit(q, seen)
							} else {
								foreign = ssax.Path(ev)
							}
						}
					}
				}
				visit(phi, map[*ssa.Phi]bool{})
				ok2 = updated && foreign == ""
				detail = "compared variable is loop carried; re-assigned from the chunk's SequenceNumber: " + boolStr(updated)
				if foreign != "" {
					detail += "; also assigned " + foreign
				}
			}
			c.Ob("C10.dupfilter", fname(merge)+"·SequenceNumber == previous", pos(c, bo), ok2, detail)
		}
	}
	if n == 0 {
		c.Ob("C10.dupfilter", fname(merge)+"·SequenceNumber == previous", c.P.Pos(merge.Pos()), false, "mergeChunks no longer compares sequence numbers of consecutive chunks: a replayed intermediate chunk is spliced into the message twice")
	}
}
