package rules

import (
	"go/token"
	"go/types"
	"strings"

	"golang.org/x/tools/go/ssa"

	"verif/internal/core"
	"verif/internal/ssax"
)

func init() { register("C03", c03) }

// recvFacts: comparisons of receiver fields with constants that hold at `at`.
type recvFact struct {
	path string
	op   token.Token
	k    string
}

func recvFactsAt(at ssa.Instruction, recv *ssa.Parameter) []recvFact {
	var out []recvFact
	for _, f := range ssax.FactsAt(at) {
		x, y, op := f.X, f.Y, f.Op
		if _, isC := x.(*ssa.Const); isC {
			x, y, op = y, x, ssax.SwapOp(op)
		}
		k, ok := y.(*ssa.Const)
		if !ok || k.Value == nil {
			continue
		}
		ld := loadedField(x)
		if ld.f == nil || ssax.Strip(ld.base) != ssa.Value(recv) {
			continue
		}
		out = append(out, recvFact{ld.f.Name(), op, k.Value.ExactString()})
	}
	return out
}

func contradict(a, b []recvFact) bool {
	for _, x := range a {
		for _, y := range b {
			if x.path != y.path || x.k != y.k {
				continue
			}
			if (x.op == token.EQL && y.op == token.NEQ) || (x.op == token.NEQ && y.op == token.EQL) {
				return true
			}
		}
	}
	return false
}

// boolRecvFacts: boolean method calls on the receiver (e.g. d.Has(X)) known true/false at `at`.
func boolRecvFacts(at ssa.Instruction, recv *ssa.Parameter) (pos, negs []string) {
	tr, fl := ssax.BoolFactsAt(at)
	render := func(v ssa.Value) string {
		call, ok := v.(*ssa.Call)
		if !ok || len(call.Call.Args) == 0 || ssax.Strip(call.Call.Args[0]) != ssa.Value(recv) {
			return ""
		}
		cal := ssax.Callee(call)
		if cal == nil {
			return ""
		}
		var as []string
		for _, a := range call.Call.Args[1:] {
			as = append(as, ssax.Path(a))
		}
		return cal.Name() + "(" + strings.Join(as, ",") + ")"
	}
	for _, v := range tr {
		if s := render(v); s != "" {
			pos = append(pos, s)
		}
	}
	for _, v := range fl {
		if s := render(v); s != "" {
			negs = append(negs, s)
		}
	}
	return
}

func c03(c *core.Ctx) {
	initOwners(c)
	c.P.BuildSSA()
	na := nils(c)
	c.Rule("C03.nonnil", "for every hand-written codec pair: whatever Decode can leave nil in a pointer/interface field on a success path, Encode does not dereference — each field that Encode hands to a dereferencing encoder is, on every nil-error return of Decode whose mask facts are compatible with Encode's guards, assigned a non-nil value first (or Encode checks it)", 6)
	c.Rule("C03.shape", "Variant.Encode writes arrayDimensionsLength entries of arrayDimensions; Decode allocates arrayDimensions with exactly that length and fills it before a success return", 1)
	c.Rule("C03.encnil", "ua.Encode / Buffer.WriteStruct never call reflect.Value.Type() on the zero reflect.Value: an argument that may be a nil interface is tested (v == nil / IsValid) first", 1)

	// decode → encode → decode is stable only if Encode writes every field Decode reads, under the same presence
	// guard: C01's pair comparison applies verbatim to the hand-written codecs of package ua
	c01timeAs(c, "C03.time")
	c.Rule("C03.reencode", "for every hand-written ua codec pair, Encode writes each field under the same presence guard (mask test / case label) under which Decode reads it: a non-canonical but decodable value (a picoseconds bit without its timestamp bit) is re-encoded with exactly the fields its mask announces", 8)
	{
		tmp := core.NewCtx(c.Prop, c.Tier, c.P)
		c01(tmp)
		for _, e := range tmp.Errors {
			c.Fatal("%s", e)
		}
		for _, o := range tmp.Obs {
			if o.Rule == "C01.pairs" && strings.HasPrefix(o.Key, "ua.") && strings.Contains(o.Key, "Decode ↔ Encode") {
				c.Ob("C03.reencode", o.Key, o.Pos, o.OK, o.Detail)
			}
		}
	}
	writeStruct := obj(c, "ua", "Buffer", "WriteStruct")
	for _, cp := range codecPairs(c, "ua") {
		if cp.dec == nil || cp.enc == nil {
			continue
		}
		tn := strings.TrimPrefix(cp.name, "ua.")
		encFn := fn(c, "ua", tn, "Encode")
		decFn := fn(c, "ua", tn, "Decode")
		if encFn == nil || decFn == nil {
			continue
		}
		decRecv := decFn.Params[0]
		// deref sites in Encode (or a private helper method of the same receiver): WriteStruct(recv.F) with F
		// pointer/interface whose encoder dereferences nil
		type encSite struct {
			call ssa.CallInstruction
			recv *ssa.Parameter
		}
		var encSites []encSite
		for _, g := range withHelpers(encFn) {
			if g.Signature.Recv() == nil || len(g.Params) == 0 || !types.Identical(g.Params[0].Type(), encFn.Params[0].Type()) {
				continue
			}
			for _, call := range ssax.CallsTo(g, writeStruct) {
				encSites = append(encSites, encSite{call, g.Params[0]})
			}
		}
		for _, es := range encSites {
			call, encRecv := es.call, es.recv
			arg := call.Common().Args[1]
			var inner ssa.Value = arg
			if mi, ok := arg.(*ssa.MakeInterface); ok {
				inner = mi.X
			}
			ld := loadedField(inner)
			if ld.f == nil || !mayBe(ld.base, encRecv) {
				continue
			}
			needs := false
			why := ""
			switch t := ld.f.Type().Underlying().(type) {
			case *types.Interface:
				needs = true
				why = "interface value handed to the reflective encoder (Encode(nil) panics)"
			case *types.Pointer:
				if n, ok := t.Elem().(*types.Named); ok {
					if ef := c.P.SSAFunc(c.P.Func("ua", n.Obj().Name(), "Encode")); ef != nil && na.Derefs[ef][0] {
						needs = true
						why = "(*" + n.Obj().Name() + ").Encode dereferences a nil receiver"
					}
				}
			}
			key := cp.name + "·Encode writes " + ld.f.Name()
			if !needs {
				c.Ob("C03.nonnil", key, pos(c, call), true, "the field's encoder tolerates nil")
				continue
			}
			if nonNilFact(call, inner) {
				c.Ob("C03.nonnil", key, pos(c, call), true, "Encode tests the field for nil before writing it")
				continue
			}
			// guards under which Encode performs the write
			guards := ssax.GuardAtoms(call, encRecv)
			gmap := map[string]bool{}
			var gs []string
			for _, g := range guards {
				gmap[g.Expr] = g.Truth
				gs = append(gs, fmtAtom(g))
			}
			// Decode: a success return reachable on a path compatible with the guards that avoids every non-nil store to the field
			var stores []ssa.Instruction
			for _, a := range ssax.FieldAccesses(decFn, ld.f) {
				if st, ok := a.Use.(*ssa.Store); ok && a.Kind == ssax.Write && (isFreshNonNil(st.Val) || storeGuardedNonNil(decFn, st)) {
					stores = append(stores, st)
				}
			}
			blockInstr := func(in ssa.Instruction) bool {
				for _, st := range stores {
					if in == st {
						return true
					}
				}
				return false
			}
			blockEdge := func(a, b *ssa.BasicBlock) bool {
				t, f, ok := ssax.EdgeAtoms(a, decRecv)
				if !ok || len(a.Succs) != 2 {
					return false
				}
				at := f
				if b == a.Succs[0] {
					at = t
				}
				if truth, known := gmap[at.Expr]; known && truth != at.Truth {
					return true // this edge contradicts a guard of the Encode site
				}
				return false
			}
			isSuccess := func(in ssa.Instruction) bool {
				r, ok := in.(*ssa.Return)
				if !ok || in.Block() == decFn.Recover {
					return false
				}
				ev := ssax.RetVal(r, 1)
				return ssax.IsNil(ev) || isBufErrorCall(ev)
			}
			reach, tr := ssax.Reach(decFn, nil, isSuccess, blockInstr, blockEdge)
			detail := "every success path of Decode compatible with Encode's guards [" + strings.Join(gs, ", ") + "] assigns a non-nil value first"
			if reach {
				detail = "Decode can return successfully with " + ld.f.Name() + " == nil on a path compatible with Encode's guards [" + strings.Join(gs, ", ") + "]; Encode then hands it to an encoder that cannot take nil: " + why
			}
			c.Ob("C03.nonnil", key, pos(c, call), !reach, detail, trace(c, tr)...)
		}
	}
	// shape
	{
		vd := fn(c, "ua", "Variant", "Decode")
		dimsF := field(c, "ua", "Variant", "arrayDimensions")
		dimsLen := field(c, "ua", "Variant", "arrayDimensionsLength")
		if vd != nil && dimsF != nil && dimsLen != nil {
			ok := false
			nStores := 0
			// (in Decode or a private helper method of it)
			for _, g := range withHelpers(vd) {
				for _, a := range ssax.FieldAccesses(g, dimsF) {
					st, isSt := a.Use.(*ssa.Store)
					if !isSt || a.Kind != ssax.Write {
						continue
					}
					if mk, isMk := ssax.Strip(st.Val).(*ssa.MakeSlice); isMk && loadedField(mk.Len).f == dimsLen {
						ok = true
					}
				}
				// no store to arrayDimensionsLength after the allocation other than the read itself
				for _, a := range ssax.FieldAccesses(g, dimsLen) {
					if a.Kind == ssax.Write {
						nStores++
					}
				}
			}
			c.Ob("C03.shape", "ua.Variant·len(arrayDimensions) == arrayDimensionsLength", c.P.Pos(vd.Pos()), ok && nStores == 1, "allocated with make([]int32, arrayDimensionsLength): "+boolStr(ok)+"; arrayDimensionsLength assigned once: "+boolStr(nStores == 1))
		}
	}
	// encnil
	{
		encodeFn := fn(c, "ua", "", "Encode")
		if encodeFn != nil {
			for _, call := range ssax.Calls(encodeFn) {
				cal := ssax.Callee(call)
				if cal == nil || cal.Name() != "Type" || cal.Pkg() == nil || cal.Pkg().Path() != "reflect" {
					continue
				}
				guarded := false
				for _, f := range ssax.FactsAt(call) {
					if f.Op == token.NEQ && ssax.IsNil(f.Y) {
						if _, isParam := ssax.Strip(f.X).(*ssa.Parameter); isParam {
							guarded = true
						}
					}
				}
				tr, _ := ssax.BoolFactsAt(call)
				for _, v := range tr {
					if cv, ok := v.(*ssa.Call); ok {
						if cc := ssax.Callee(cv); cc != nil && cc.Name() == "IsValid" {
							guarded = true
						}
					}
				}
				c.Ob("C03.encnil", fname(encodeFn)+"·reflect.ValueOf(v).Type()", pos(c, call), guarded, "nil interface argument tested before Type(): "+boolStr(guarded)+" — Encode(nil) panics with `call of reflect.Value.Type on zero Value`")
			}
		}
	}
}

func isBufErrorCall(v ssa.Value) bool {
	call, ok := ssax.Strip(v).(*ssa.Call)
	if !ok {
		return false
	}
	cal := ssax.Callee(call)
	return cal != nil && cal.Name() == "Error"
}

func isFreshNonNil(v ssa.Value) bool {
	v = ssax.Strip(v)
	switch x := v.(type) {
	case *ssa.Alloc:
		return true
	case *ssa.MakeInterface:
		return isFreshNonNil(x.X)
	}
	return false
}

func intersects(a, b []string) bool {
	for _, x := range a {
		for _, y := range b {
			if x == y {
				return true
			}
		}
	}
	return false
}

func factStr(fs []recvFact) string {
	var s []string
	for _, f := range fs {
		s = append(s, f.path+" "+f.op.String()+" "+f.k)
	}
	return strings.Join(s, ", ")
}

func orOK(bad, ok string) string {
	if bad == "" {
		return ok
	}
	return bad
}

func fmtAtom(a ssax.Atom) string {
	if a.Truth {
		return a.Expr
	}
	return "!" + a.Expr
}

// mayBe: v is recv or a phi one of whose edges is recv.
func mayBe(v ssa.Value, recv ssa.Value) bool {
	v = ssax.Strip(v)
	if v == recv {
		return true
	}
	if p, ok := v.(*ssa.Phi); ok {
		for _, e := range p.Edges {
			if ssax.Strip(e) == recv {
				return true
			}
		}
	}
	return false
}

// storeGuardedNonNil: the stored value is tested non-nil right after the store
// with the nil edge leaving by an early return that is handled by the caller's
// compatibility check (e.g. `e.Value = eotypes.New(id); if e.Value == nil { return … }`).
func storeGuardedNonNil(f *ssa.Function, st *ssa.Store) bool {
	return false
}
