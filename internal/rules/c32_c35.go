package rules

import (
	"go/token"
	"go/types"
	"strings"

	"golang.org/x/tools/go/ssa"

	"verif/internal/core"
	"verif/internal/ssax"
)

func init() { register("C32", c32); register("C35", c35) }

var exemptHandlers = map[string]bool{
	"FindServers": true, "FindServersOnNetwork": true, "GetEndpoints": true, "RegisterServer": true, "RegisterServer2": true,
	"CreateSession": true, "ActivateSession": true,
}

// sessionLookups returns the calls in f that look a session up by token.
func sessionLookups(c *core.Ctx, f *ssa.Function) []ssa.CallInstruction {
	a := obj(c, "server", "Server", "Session")
	b := obj(c, "server", "sessionBroker", "Session")
	return ssax.CallsTo(f, a, b)
}

// nonNilFact: at is dominated by `v != nil`.
func nonNilFact(at ssa.Instruction, v ssa.Value) bool {
	for _, f := range ssax.FactsAt(at) {
		if f.Op == token.NEQ && ssax.IsNil(f.Y) && denotes(f.X, v) {
			return true
		}
		if f.Op == token.NEQ && ssax.IsNil(f.X) && denotes(f.Y, v) {
			return true
		}
	}
	return false
}

func c35(c *core.Ctx) {
	initOwners(c)
	c.Rule("C35.owner", "a request that carries another session's token performs no action on that session's objects: every effect on a subscription / monitored item is dominated by the equality of the caller's token with the object's owner (C32.owner applies verbatim: a result code alone is not enough)", 4)
	{
		tmp := core.NewCtx(c.Prop, c.Tier, c.P)
		c32(tmp)
		for _, e := range tmp.Errors {
			c.Fatal("%s", e)
		}
		for _, o := range tmp.Obs {
			if o.Rule == "C32.owner" {
				c.Ob("C35.owner", o.Key, o.Pos, o.OK, o.Detail)
			}
		}
	}
	handle := fn(c, "server", "Server", "handleService")
	activate := fn(c, "server", "SessionService", "ActivateSession")
	sbClose := fn(c, "server", "sessionBroker", "Close")
	sbSession := fn(c, "server", "sessionBroker", "Session")
	sbMap := field(c, "server", "sessionBroker", "s")
	verifySess := obj(c, "uasc", "SecureChannel", "VerifySessionSignature")
	if handle == nil || activate == nil || sbClose == nil || sbSession == nil || sbMap == nil || verifySess == nil {
		return
	}
	hs := registeredHandlers(c)
	c.Count("registered handlers", len(hs))
	c.Rule("C35.gate", "every registered handler outside the exempt set {FindServers, FindServersOnNetwork, GetEndpoints, RegisterServer, RegisterServer2, CreateSession, ActivateSession} returns a non-error answer only after looking the session up by the request's AuthenticationToken and finding it (a central gate in handleService in front of the dispatch satisfies all handlers); a return on the failing edge of the lookup must carry a Bad session status", 30)
	c.Rule("C35.state", "a session carries activation state: a field written in ActivateSession only after VerifySessionSignature succeeded, and read where the session gate decides", 1)
	c.Rule("C35.activate", "ActivateSession answers successfully only when the session exists and VerifySessionSignature returned nil", 1)
	c.Rule("C35.close", "CloseSession removes the session from the table the gate searches, keyed the same way as the lookup", 1)

	// central gate?
	central := false
	{
		for _, call := range sessionLookups(c, handle) {
			// the handler dispatch (dynamic call of h) must be dominated by non-nil fact
			for _, in := range ssax.Calls(handle) {
				if ssax.Callee(in) == nil && ssax.StaticFn(in) == nil && !in.Common().IsInvoke() {
					if nonNilFact(in, call.(ssa.Value)) {
						central = true
					}
				}
			}
		}
	}
	for _, h := range hs {
		name := h.Name()
		if exemptHandlers[name] {
			continue
		}
		key := fname(h) + "·session gate"
		if central {
			c.Ob("C35.gate", key, c.P.Pos(h.Pos()), true, "central gate in handleService dominates the dispatch")
			continue
		}
		lookups := sessionLookups(c, h)
		okAll := true
		detail := "every success return is dominated by a successful session lookup"
		n := 0
		for _, ret := range ssax.Returns(h) {
			if len(ret.Results) < 2 || !ssax.IsNil(ssax.RetVal(ret, 1)) {
				continue // error return → ServiceFault
			}
			n++
			gated := false
			for _, lk := range lookups {
				if nonNilFact(ret, lk.(ssa.Value)) {
					gated = true
				}
				// the gate's own failing edge: must answer with a session error
				if nilFact(ret, lk.(ssa.Value)) && returnsSessionError(c, ret) {
					gated = true
				}
			}
			if !gated {
				okAll = false
				detail = "answers (return at " + pos(c, ret) + ") without having found a session for the request's authentication token"
			}
		}
		if n == 0 {
			detail = "never answers successfully"
		}
		c.Ob("C35.gate", key, c.P.Pos(h.Pos()), okAll, detail)
	}
	// state
	{
		sessT := c.P.Named("server", "session")
		var written []*types.Var
		var vcall ssa.CallInstruction
		for _, call := range ssax.CallsTo(activate, verifySess) {
			vcall = call
		}
		for _, b := range activate.Blocks {
			for _, in := range b.Instrs {
				st, ok := in.(*ssa.Store)
				if !ok {
					continue
				}
				fa, ok := st.Addr.(*ssa.FieldAddr)
				if !ok || derefNamed(fa.X.Type()) != sessT {
					continue
				}
				if vcall != nil && okEdge(st, vcall) {
					written = append(written, ssax.FieldOf(fa.X.Type(), fa.Field))
				}
			}
		}
		// read by a gate: in handleService, sessionBroker.Session, Server.Session or any non-exempt handler, compared in an If
		readByGate := false
		var which string
		gateFns := []*ssa.Function{handle, sbSession}
		if f := fn(c, "server", "Server", "Session"); f != nil {
			gateFns = append(gateFns, f)
		}
		for _, w := range written {
			for _, g := range gateFns {
				for _, a := range ssax.FieldAccesses(g, w) {
					if a.Kind == ssax.Read {
						readByGate = true
						which = ssax.FieldString(w)
					}
				}
			}
		}
		var names []string
		for _, w := range written {
			names = append(names, ssax.FieldString(w))
		}
		c.Ob("C35.state", "server.session·activation state", c.P.Pos(activate.Pos()), readByGate, "fields written after successful verification in ActivateSession: ["+strings.Join(names, ", ")+"]; read by the session gate: "+boolStr(readByGate)+" "+which+" — a session that was created but never activated is indistinguishable from an activated one")
	}
	// activate (the lookup and the verification may live in a private helper whose nil error implies both)
	{
		established := map[*ssa.Function]bool{}
		holdsAt := func(at ssa.Instruction, g *ssa.Function) bool {
			for _, call := range ssax.Calls(g) {
				if h := call.Common().StaticCallee(); h != nil && established[h] && okEdge(at, call) {
					return true
				}
			}
			verified := false
			for _, call := range ssax.CallsTo(g, verifySess) {
				if okEdge(at, call) {
					verified = true
				}
			}
			found := false
			for _, lk := range sessionLookups(c, g) {
				if nonNilFact(at, lk.(ssa.Value)) {
					found = true
				}
			}
			return verified && found
		}
		for round := 0; round < 2; round++ {
			for _, g := range libFns(c, "server") {
				if established[g] || g == activate || g.Parent() != nil || len(g.Blocks) == 0 {
					continue
				}
				res := g.Signature.Results()
				if res.Len() == 0 || res.At(res.Len()-1).Type().String() != "error" {
					continue
				}
				all, n := true, 0
				for _, r := range ssax.Returns(g) {
					if !ssax.IsNil(ssax.RetVal(r, res.Len()-1)) {
						continue
					}
					n++
					if !holdsAt(r, g) {
						all = false
					}
				}
				if all && n > 0 {
					established[g] = true
				}
			}
		}
		okAll, n := true, 0
		for _, ret := range ssax.Returns(activate) {
			if !ssax.IsNil(ssax.RetVal(ret, 1)) {
				continue
			}
			n++
			if !holdsAt(ret, activate) {
				okAll = false
			}
		}
		okAll = okAll && n > 0
		c.Ob("C35.activate", fname(activate)+"·success only after lookup and signature verification", c.P.Pos(activate.Pos()), okAll, "success return dominated by session != nil and VerifySessionSignature err == nil: "+boolStr(okAll))
	}
	// close
	{
		del := false
		sameKey := false
		var lookupKey string
		for _, s := range ssax.ContainerSites(sbSession, sbMap) {
			if s.Kind == ssax.MapLookup {
				lookupKey = keyShape(s.Key)
			}
		}
		for _, s := range ssax.ContainerSites(sbClose, sbMap) {
			if s.Kind == ssax.MapDelete {
				del = true
				if keyShape(s.Key) == lookupKey && lookupKey != "" {
					sameKey = true
				}
			}
		}
		c.Ob("C35.close", fname(sbClose)+"·delete session", c.P.Pos(sbClose.Pos()), del && sameKey, "deletes from sessionBroker.s: "+boolStr(del)+"; same key function as the lookup ("+lookupKey+"): "+boolStr(sameKey))
		// the table is keyed by the authentication token at insertion: every caller of the lookup and of Close passes an
		// authentication token (RequestHeader.AuthenticationToken or session.AuthTokenID), never another NodeID such as
		// the session id — Close under a key the table does not contain deletes nothing and answers Good
		{
			tokClass := map[*types.Var]bool{}
			for _, f := range [][3]string{{"ua", "RequestHeader", "AuthenticationToken"}, {"server", "session", "AuthTokenID"}} {
				if v := field(c, f[0], f[1], f[2]); v != nil {
					tokClass[v] = true
				}
			}
			cg := c.P.CallGraph()
			for _, callee := range []*ssa.Function{sbClose, sbSession} {
				co := callee.Object().(*types.Func)
				for _, f := range libFns(c, "server") {
					for _, call := range ssax.CallsTo(f, co) {
						args := call.Common().Args
						arg := args[len(args)-1]
						var good, bad []string
						for _, o := range ssax.Origins(arg, cg, c.Depth) {
							if o.Field != nil && tokClass[o.Field] {
								good = append(good, ssax.FieldString(o.Field))
							} else {
								bad = append(bad, o.String())
							}
						}
						ok := len(bad) == 0 && len(good) > 0
						d := "key from " + strings.Join(uniq(good), ", ")
						if !ok {
							d = "the key is not an authentication token: " + strings.Join(uniq(bad), ", ") + " — the table is keyed by AuthTokenID.String()"
						}
						c.Ob("C35.close", fname(f)+"·"+callee.Name()+"(key)", pos(c, call), ok, d)
					}
				}
			}
		}
		// CloseSession handler calls it with the request's token
		cs := fn(c, "server", "SessionService", "CloseSession")
		if cs != nil {
			called := len(ssax.CallsTo(cs, sbClose.Object().(*types.Func))) > 0
			c.Ob("C35.close", fname(cs)+"·calls sessionBroker.Close", c.P.Pos(cs.Pos()), called, "CloseSession removes the session: "+boolStr(called))
		}
	}
}

// keyShape renders how a map key is derived from a parameter, e.g. "String(param0)".
func keyShape(v ssa.Value) string {
	v = ssax.Strip(v)
	if call, ok := v.(*ssa.Call); ok {
		if cal := ssax.Callee(call); cal != nil && len(call.Call.Args) > 0 {
			if _, isParam := ssax.Strip(call.Call.Args[0]).(*ssa.Parameter); isParam {
				return cal.Name() + "(param)"
			}
		}
	}
	if _, ok := v.(*ssa.Parameter); ok {
		return "param"
	}
	return ssax.Path(v)
}

// ---------------------------------------------------------------------------

func c32(c *core.Ctx) {
	initOwners(c)
	c32IDSpace(c)
	subs := field(c, "server", "SubscriptionService", "Subs")
	items := field(c, "server", "MonitoredItemService", "Items")
	nodes := field(c, "server", "MonitoredItemService", "Nodes")
	isubs := field(c, "server", "MonitoredItemService", "Subs")
	authTok := field(c, "server", "session", "AuthTokenID")
	delItem := obj(c, "server", "MonitoredItemService", "DeleteMonitoredItem")
	delSub := obj(c, "server", "SubscriptionService", "DeleteSubscription")
	if subs == nil || items == nil || nodes == nil || isubs == nil || authTok == nil || delItem == nil || delSub == nil {
		return
	}
	c.Rule("C32.fresh", "a key inserted into SubscriptionService.Subs / MonitoredItemService.Items comes from a monotone counter, not from len() of a container that has delete sites (create, create, delete #1, create hands out id 2 twice)", 2)
	c.Rule("C32.owner", "in every handler that takes subscription or monitored-item ids, each effect on a looked-up object (state store, `go DeleteMonitoredItem`, `go DeleteSubscription`, insertion into the item tables) is dominated by the ok edge of the lookup and by the equal edge of a comparison between the requesting session's token and the owner session's token", 5)

	cg := c.P.CallGraph()
	// fresh
	for _, t := range []struct {
		f    *types.Var
		name string
	}{{subs, "SubscriptionService.Subs"}, {items, "MonitoredItemService.Items"}} {
		hasDelete := false
		for _, f := range libFns(c, "server") {
			for _, s := range ssax.ContainerSites(f, t.f) {
				if s.Kind == ssax.MapDelete {
					hasDelete = true
				}
			}
		}
		for _, f := range libFns(c, "server") {
			for _, s := range ssax.ContainerSites(f, t.f) {
				if s.Kind != ssax.MapStore {
					continue
				}
				lenDerived := false
				monotone := false
				src := ""
				var walk func(v ssa.Value, d int)
				seen := map[ssa.Value]bool{}
				walk = func(v ssa.Value, d int) {
					v = ssax.Strip(v)
					if d > 8 || seen[v] {
						return
					}
					seen[v] = true
					switch x := v.(type) {
					case *ssa.BinOp:
						walk(x.X, d+1)
						walk(x.Y, d+1)
					case *ssa.Call:
						if ssax.IsBuiltin(x, "len") {
							if loadedField(x.Call.Args[0]).f == t.f {
								lenDerived = true
							}
							src = "len(" + ssax.Path(x.Call.Args[0]) + ")"
						} else if cal := ssax.Callee(x); cal != nil {
							src = cal.Name() + "()"
							if atomicAdd(x) {
								monotone = true
							} else if h := x.Call.StaticCallee(); h != nil && len(h.Blocks) > 0 {
								// an id generator: its result derives from an atomic add or from a counter field
								for _, b := range h.Blocks {
									for _, in := range b.Instrs {
										if hc, ok := in.(*ssa.Call); ok && atomicAdd(hc) {
											monotone = true
										}
									}
								}
								for _, r := range ssax.Returns(h) {
									if len(r.Results) > 0 {
										if ld := loadedField(ssax.RetVal(r, 0)); ld.f != nil && monotoneCounter(c, ld.f) {
											monotone = true
											src += " → field " + ssax.FieldString(ld.f)
										}
									}
								}
							}
						}
					case *ssa.Phi:
						for _, e := range x.Edges {
							walk(e, d+1)
						}
					case *ssa.UnOp:
						if ld := loadedField(x); ld.f != nil {
							src = "field " + ssax.FieldString(ld.f)
							if monotoneCounter(c, ld.f) {
								monotone = true
							}
							// a field copied from a fresh id: follow stores in this function
							for _, a := range ssax.FieldAccesses(f, ld.f) {
								if st, ok := a.Use.(*ssa.Store); ok && a.Kind == ssax.Write {
									walk(st.Val, d+1)
								}
							}
						} else if al, ok := x.X.(*ssa.Alloc); ok {
							if refs := al.Referrers(); refs != nil {
								for _, r := range *refs {
									if st, ok := r.(*ssa.Store); ok && st.Addr == al {
										walk(st.Val, d+1)
									}
								}
							}
						}
					}
				}
				walk(s.Key, 0)
				bad := lenDerived && hasDelete
				c.Ob("C32.fresh", fname(f)+"·insert into "+t.name, pos(c, s.Instr), !bad && monotone, "key source: "+src+"; derived from len() of a table that has delete sites: "+boolStr(bad)+"; from a counter that only ever grows (a field every store to which is field+k, or an atomic add): "+boolStr(monotone)+" — an id that can be handed out again while stale deletes by bare id are pending kills another session's object")
			}
		}
	}
	_ = cg
	// owner
	for _, h := range registeredHandlers(c) {
		// effects
		type effect struct {
			in   ssa.Instruction
			what string
			obj  ssa.Value // looked-up object the effect concerns (may be nil)
		}
		var effects []effect
		for _, call := range ssax.Calls(h) {
			if g, ok := call.(*ssa.Go); ok {
				cal := ssax.Callee(g)
				if cal == delItem || cal == delSub {
					effects = append(effects, effect{g, "go " + cal.Name(), nil})
				}
			}
		}
		miT := c.P.Named("server", "MonitoredItem")
		subT := c.P.Named("server", "Subscription")
		for _, b := range h.Blocks {
			for _, in := range b.Instrs {
				if st, ok := in.(*ssa.Store); ok {
					if fa, ok := st.Addr.(*ssa.FieldAddr); ok {
						on := derefNamed(fa.X.Type())
						if on == miT || on == subT {
							// only stores into objects obtained by lookup (not freshly built ones)
							fromLookup := false
							for _, o := range ssax.Origins(fa.X, nil, 0) {
								if ex, ok := o.Other.(*ssa.Extract); ok {
									if lk, ok := ex.Tuple.(*ssa.Lookup); ok {
										if lf := loadedField(lk.X).f; lf == subs || lf == items {
											fromLookup = true
										}
									}
								}
								if lk, ok := o.Other.(*ssa.Lookup); ok {
									if lf := loadedField(lk.X).f; lf == subs || lf == items {
										fromLookup = true
									}
								}
							}
							if !fromLookup {
								continue
							}
							effects = append(effects, effect{st, "store " + ssax.FieldString(ssax.FieldOf(fa.X.Type(), fa.Field)), fa.X})
						}
					}
				}
			}
		}
		for _, fl := range []*types.Var{items, nodes, isubs} {
			for _, s := range ssax.ContainerSites(h, fl) {
				if s.Kind == ssax.MapStore {
					effects = append(effects, effect{s.Instr, "insert into " + ssax.FieldString(fl), nil})
				}
			}
		}
		if len(effects) == 0 {
			continue
		}
		// lookups in this handler on Subs / Items
		var lookups []*ssa.Lookup
		for _, fl := range []*types.Var{subs, items} {
			for _, s := range ssax.ContainerSites(h, fl) {
				if s.Kind == ssax.MapLookup {
					lookups = append(lookups, s.Instr.(*ssa.Lookup))
				}
			}
		}
		for _, e := range effects {
			// the lookup the effect is about: keyed by the id the effect is applied to (go Delete…(id)), or the one
			// the modified object came from (store); nil for insertions
			var about []*ssa.Lookup
			if g, isGo := e.in.(*ssa.Go); isGo {
				args := g.Call.Args
				idp := ssax.Path(args[len(args)-1])
				want := items
				if ssax.Callee(g) == delSub {
					want = subs
				}
				for _, lk := range lookups {
					if loadedField(lk.X).f == want && (lk.Index == args[len(args)-1] || ssax.Path(lk.Index) == idp) {
						about = append(about, lk)
					}
				}
			} else if e.obj != nil {
				for _, lk := range lookups {
					if rootedAt(e.obj, lk) {
						about = append(about, lk)
					}
				}
			}
			considered := lookups
			if _, isIns := e.in.(*ssa.MapUpdate); !isIns {
				considered = about
			}
			okLookup := false
			trues, _ := ssax.BoolFactsAt(e.in)
			for _, lk := range considered {
				for _, v := range trues {
					if ex, ok := v.(*ssa.Extract); ok && ex.Tuple == ssa.Value(lk) && ex.Index == 1 {
						okLookup = true
					}
				}
			}
			owner := false
			for _, f := range ssax.FactsAt(e.in) {
				if f.Op != token.EQL {
					continue
				}
				if tokenString(f.X, authTok) && tokenString(f.Y, authTok) {
					// one side must be the owner of the very object the effect is about
					for _, lk := range considered {
						if tokenRootedAt(f.X, lk) || tokenRootedAt(f.Y, lk) {
							owner = true
						}
					}
				}
			}
			ok := okLookup && owner
			c.Ob("C32.owner", fname(h)+"·"+e.what, pos(c, e.in), ok, "dominated by the ok edge of the lookup of the object concerned: "+boolStr(okLookup)+"; dominated by equality of the caller's token with that object's owner token: "+boolStr(owner))
		}
	}
}

// rootedAt: v is the looked-up value of lk or is loaded from it through a chain of field loads.
func rootedAt(v ssa.Value, lk *ssa.Lookup) bool {
	for i := 0; i < 8; i++ {
		v = ssax.Strip(v)
		if ex, ok := v.(*ssa.Extract); ok && ex.Tuple == ssa.Value(lk) {
			return true
		}
		if v == ssa.Value(lk) {
			return true
		}
		for _, o := range ssax.Origins(v, nil, 0) {
			if ex, ok := o.Other.(*ssa.Extract); ok && ex.Tuple == ssa.Value(lk) {
				return true
			}
			if o.Other == ssa.Value(lk) {
				return true
			}
		}
		ld := loadedField(v)
		if ld.f == nil {
			return false
		}
		v = ld.base
	}
	return false
}

// tokenRootedAt: v is <object of lk>.….AuthTokenID(.String()).
func tokenRootedAt(v ssa.Value, lk *ssa.Lookup) bool {
	v = ssax.Strip(v)
	if call, ok := v.(*ssa.Call); ok && len(call.Call.Args) > 0 {
		v = call.Call.Args[0]
	}
	return rootedAt(v, lk)
}

// tokenString: v is X.AuthTokenID.String() (or a load of AuthTokenID).
func tokenString(v ssa.Value, authTok *types.Var) bool {
	v = ssax.Strip(v)
	if call, ok := v.(*ssa.Call); ok {
		if cal := ssax.Callee(call); cal != nil && cal.Name() == "String" && len(call.Call.Args) > 0 {
			return loadedField(call.Call.Args[0]).f == authTok
		}
	}
	return loadedField(v).f == authTok
}

func nilFact(at ssa.Instruction, v ssa.Value) bool {
	for _, f := range ssax.FactsAt(at) {
		if f.Op == token.EQL && ssax.IsNil(f.Y) && denotes(f.X, v) {
			return true
		}
	}
	return false
}

// returnsSessionError: the response returned by ret is a composite literal
// whose ResponseHeader.ServiceResult is StatusBadSessionIDInvalid (or another
// Bad session status), or the error result is such a status.
func returnsSessionError(c *core.Ctx, ret *ssa.Return) bool {
	want := map[string]bool{"StatusBadSessionIDInvalid": true, "StatusBadSessionClosed": true, "StatusBadSessionNotActivated": true}
	sr := field(c, "ua", "ResponseHeader", "ServiceResult")
	f := ret.Parent()
	for _, a := range ssax.FieldAccesses(f, sr) {
		if st, ok := a.Use.(*ssa.Store); ok && a.Kind == ssax.Write && st.Block() == ret.Block() {
			if want[statusName(st.Val)] {
				return true
			}
		}
	}
	return false
}

// statusName returns the name of the ua.Status* package variable v is loaded from.
func statusName(v ssa.Value) string {
	v = ssax.Strip(v)
	if u, ok := v.(*ssa.UnOp); ok && u.Op == token.MUL {
		if g, ok := u.X.(*ssa.Global); ok {
			return g.Name()
		}
	}
	return ""
}

func atomicAdd(call *ssa.Call) bool {
	cal := ssax.Callee(call)
	return cal != nil && cal.Pkg() != nil && cal.Pkg().Path() == "sync/atomic" && strings.HasPrefix(cal.Name(), "Add")
}

// monotoneCounter: every store to field fl in package server writes fl+k (k > 0) or a constant (the wrap reset).
func monotoneCounter(c *core.Ctx, fl *types.Var) bool {
	n := 0
	for _, f := range libFns(c, "server") {
		for _, a := range ssax.FieldAccesses(f, fl) {
			st, ok := a.Use.(*ssa.Store)
			if !ok || a.Kind != ssax.Write {
				continue
			}
			n++
			if _, isK := ssax.ConstInt(st.Val); isK {
				continue
			}
			bo, isAdd := ssax.Strip(st.Val).(*ssa.BinOp)
			if !isAdd || bo.Op != token.ADD {
				return false
			}
			k, isK := ssax.ConstInt(bo.Y)
			if !isK || k <= 0 || loadedField(bo.X).f != fl {
				return false
			}
		}
	}
	return n > 0
}
