package rules

import (
	"go/token"
	"go/types"
	"strings"

	"golang.org/x/tools/go/callgraph"
	"golang.org/x/tools/go/ssa"

	"verif/internal/core"
	"verif/internal/ssax"
)

func init() { register("C17", c17) }

// C17 — chunks secured with an expired token are rejected.
// Decided clause: a superseded token can only stop being accepted if it is
// removed from the table the receiver searches (DESIGN §4 C17).
type retainFilter struct {
	at       ssa.Instruction
	ok       bool // the expiring instance is not retained
	identity bool // ... and nothing else is dropped (identity comparison)
	detail   string
}

// retainFilters describes how the expiry routine (f and its private helpers) rebuilds the entry of the token table:
// for every store of a slice into SecureChannel.instances, each append that contributes to the stored slice (directly
// `table[k] = append(table[k], e)`, or through a local `remaining = append(remaining, e)` that is stored afterwards)
// is reported with the comparison that guards it.
func retainFilters(c *core.Ctx, f *ssa.Function, instances, tokField *types.Var) []retainFilter {
	var out []retainFilter
	ciT := c.P.Named("uasc", "channelInstance")
	for _, g := range withHelpers(f) {
		// the expiring instance: g's *channelInstance parameter
		var inst ssa.Value
		for _, p := range g.Params {
			if derefNamed(p.Type()) == ciT && ciT != nil && p != g.Params[0] || (derefNamed(p.Type()) == ciT && g.Signature.Recv() == nil) {
				inst = p
			}
		}
		if inst == nil {
			continue
		}
		seenAppend := map[*ssa.Call]bool{}
		for _, s := range ssax.ContainerSites(g, instances) {
			if s.Kind != ssax.MapStore {
				continue
			}
			var appends []*ssa.Call
			var walk func(v ssa.Value, d int)
			seen := map[ssa.Value]bool{}
			walk = func(v ssa.Value, d int) {
				v = ssax.Strip(v)
				if v == nil || seen[v] || d > 8 {
					return
				}
				seen[v] = true
				switch x := v.(type) {
				case *ssa.Call:
					if ssax.IsBuiltin(x, "append") {
						appends = append(appends, x)
						walk(x.Call.Args[0], d+1)
					}
				case *ssa.Phi:
					for _, e := range x.Edges {
						walk(e, d+1)
					}
				}
			}
			walk(s.Val, 0)
			for _, ap := range appends {
				if seenAppend[ap] {
					continue
				}
				seenAppend[ap] = true
				vals := appendedValues(ap)
				if len(vals) == 0 {
					// append(dst, src...) of a whole (sub-)slice: entries are kept by position, not by a test
					if len(ap.Call.Args) == 2 {
						if _, isSl := ssax.Strip(ap.Call.Args[1]).(*ssa.Slice); isSl {
							out = append(out, retainFilter{at: ap, detail: "the retained entries are the sub-slice " + ssax.Path(ap.Call.Args[1]) + ": which instance is dropped depends on its position, not on which token expired (tokens need not expire in the order they were issued)"})
						}
					}
					continue
				}
				r := retainFilter{at: ap, detail: "append-back is not guarded by an inequality of the entry and the expiring instance (identity or securityTokenID)"}
				for _, fact := range ssax.FactsAt(ap) {
					if fact.Op != token.NEQ {
						continue
					}
					if (isVal(fact.X, vals) && ssax.Strip(fact.Y) == inst) || (isVal(fact.Y, vals) && ssax.Strip(fact.X) == inst) {
						r.ok, r.identity = true, true
						r.detail = "retained entries satisfy entry != expiring instance (identity): exactly the expired instance is dropped"
					}
					lx, ly := loadedField(fact.X), loadedField(fact.Y)
					if lx.f == tokField && ly.f == tokField {
						// one side the loop element being appended, the other the parameter
						a, b := lx.base, ly.base
						if (isVal(a, vals) && ssax.Strip(b) == inst) || (isVal(b, vals) && ssax.Strip(a) == inst) {
							r.ok = true
							if !r.identity {
								r.detail = "retained entries satisfy entry.securityTokenID != expiring.securityTokenID"
							}
						}
					}
				}
				out = append(out, r)
			}
		}
	}
	return out
}

func c17(c *core.Ctx) {
	initOwners(c)
	c.P.BuildSSA()
	instances := field(c, "uasc", "SecureChannel", "instances")
	schedExp := fn(c, "uasc", "SecureChannel", "scheduleExpiration")
	tokField := field(c, "uasc", "channelInstance", "securityTokenID")
	if instances == nil || schedExp == nil || tokField == nil {
		return
	}
	chanIDClass := map[*types.Var]bool{}
	for _, f := range [][3]string{{"ua", "ChannelSecurityToken", "ChannelID"}, {"uasc", "channelInstance", "secureChannelID"}, {"uasc", "Header", "SecureChannelID"}, {"uasc", "MessageBody", "SecureChannelID"}} {
		if v := field(c, f[0], f[1], f[2]); v != nil {
			chanIDClass[v] = true
		}
	}

	c.Rule("C17.key", "every index expression on SecureChannel.instances (lookup, insertion, deletion) uses a key loaded from a channel-id field (ChannelSecurityToken.ChannelID, channelInstance.secureChannelID, Header.SecureChannelID); a site keyed by any other field contradicts the insertion sites and can never find/remove the entry", 7)
	c.Rule("C17.sched", "every function that appends an instance to SecureChannel.instances either starts `go scheduleExpiration(x)` with the installed instance on every path from the insertion to its return (exhaustive enum switches have no default path), or installs the re-used openingInstance object whose keys (algo) it has just overwritten in place, which destroys the superseded keys immediately", 2)
	c.Rule("C17.delay", "scheduleExpiration arms its timer from the expiring instance's own createdAt and revisedLifetime × K (K >= 1.25 is C16.fraction): a delay computed from any other quantity (the requested lifetime in the configuration, another instance) keeps superseded keys acceptable beyond lifetime + 25%", 2)
	if lifetimeF := field(c, "uasc", "channelInstance", "revisedLifetime"); lifetimeF != nil {
		sites := floatScaleSites(schedExp)
		if len(sites) == 0 {
			c.Ob("C17.delay", fname(schedExp)+"·scaled quantity", c.P.Pos(schedExp.Pos()), false, "no lifetime × K scaling found")
		}
		for _, s := range sites {
			okL, why := scaledFromInstanceLifetime(schedExp, s, lifetimeF)
			c.Ob("C17.delay", fname(schedExp)+"·scaled quantity", pos(c, s.in), okL, why)
			armed := false
			for _, a := range timerArgs(schedExp) {
				if inBackSlice(a, s.in) {
					armed = true
				}
			}
			c.Ob("C17.delay", fname(schedExp)+"·timer armed with the scaled lifetime", pos(c, s.in), armed, "a time.NewTimer/After duration in the function is computed from lifetime×K: "+boolStr(armed))
		}
	}
	c.Rule("C17.remove", "scheduleExpiration, after its timer fired, rewrites SecureChannel.instances under instancesMu and does not retain the expiring instance: the append-back is dominated by a `!=` comparison of the entry with the expiring instance (identity) or of their securityTokenIDs", 1)

	cg := c.P.CallGraph()
	fns := libFns(c, "uasc")
	c.Count("functions", len(fns))
	expiryFns := map[*ssa.Function]bool{}
	for _, g := range withHelpers(schedExp) {
		expiryFns[g] = true // the expiry routine re-stores retained entries; it installs nothing
	}
	var installers []ssax.MapSite
	for _, f := range fns {
		for _, s := range ssax.ContainerSites(f, instances) {
			switch s.Kind {
			case ssax.MapLookup, ssax.MapStore, ssax.MapDelete:
				origins := ssax.Origins(s.Key, cg, c.Depth)
				var bad []string
				var good []string
				for _, o := range origins {
					if o.Field != nil && chanIDClass[o.Field] {
						good = append(good, ssax.FieldString(o.Field))
					} else {
						bad = append(bad, o.String())
					}
				}
				key := fname(f) + "·" + s.Kind.String() + "(SecureChannel.instances)"
				if len(bad) == 0 && len(good) > 0 {
					c.Ob("C17.key", key, pos(c, s.Instr), true, "key from "+strings.Join(uniq(good), ", "))
				} else {
					c.Ob("C17.key", key, pos(c, s.Instr), false, "key is not a channel id: "+strings.Join(uniq(bad), ", ")+" — entries are inserted under the channel id, so this site never addresses them")
				}
				if s.Kind == ssax.MapStore && isAppendOf(s.Val) && !expiryFns[f] {
					installers = append(installers, s)
				}
			}
		}
	}

	// C17.sched
	schedObj := schedExp.Object()
	// an installation performed by a private helper on behalf of its callers (the installed value is the helper's
	// parameter) is judged at each call site, with the argument as installed value
	type installation struct {
		fn   *ssa.Function
		at   ssa.Instruction
		vals []ssa.Value
	}
	var insts []installation
	for _, s := range installers {
		vals := appendedValues(s.Val)
		lifted := false
		if len(vals) == 1 {
			if p, isP := ssax.Strip(vals[0]).(*ssa.Parameter); isP {
				idx := -1
				for i, q := range s.Fn.Params {
					if q == p {
						idx = i
					}
				}
				callers := ipCallers(s.Fn)
				if o := s.Fn.Object(); o != nil && !o.Exported() && len(callers) > 0 && idx >= 0 {
					for _, k := range callers {
						for _, cs := range ssax.Calls(k) {
							if cs.Common().StaticCallee() == s.Fn && idx < len(cs.Common().Args) {
								insts = append(insts, installation{k, cs, []ssa.Value{cs.Common().Args[idx]}})
								lifted = true
							}
						}
					}
				}
			}
		}
		if !lifted {
			insts = append(insts, installation{s.Fn, s.Instr, vals})
		}
	}
	for _, s := range insts {
		f := s.fn
		installed := s.vals
		// every path from the MapUpdate to a return must pass a `go scheduleExpiration(x)`
		isSched := func(in ssa.Instruction) bool {
			g, ok := in.(*ssa.Go)
			if !ok {
				return false
			}
			return ssax.Callee(g) == schedObj
		}
		reach, tr := ssax.Reach(f, s.at, func(in ssa.Instruction) bool { _, ok := in.(*ssa.Return); return ok }, isSched,
			func(a, b *ssa.BasicBlock) bool {
				return len(a.Succs) == 2 && a.Succs[1] == b && ssax.InfeasibleEnumDefault(a)
			})
		key := fname(f) + "·install→go scheduleExpiration"
		if reach {
			if ok, why := inPlaceRekey(c, f, s.at, s.vals, cg); ok {
				c.Ob("C17.sched", key, pos(c, s.at), true, why)
				continue
			}
			c.Ob("C17.sched", key, pos(c, s.at), false, "a path from the insertion to return starts no expiration timer: the superseded token is accepted forever", trace(c, tr)...)
			continue
		}
		// argument must be (an alias of) the installed instance
		okArg := true
		detail := "expiration timer started on every path"
		for _, b := range f.Blocks {
			for _, in := range b.Instrs {
				if isSched(in) {
					g := in.(*ssa.Go)
					arg := g.Call.Args[len(g.Call.Args)-1]
					if !sameObject(arg, installed, c) {
						okArg = false
						detail = "scheduleExpiration is started for " + ssax.Path(arg) + ", not for the installed instance " + pathsOf(installed)
					}
				}
			}
		}
		c.Ob("C17.sched", key, pos(c, s.at), okArg, detail)
	}

	// C17.always: once the timer has fired nothing lets the instance stay
	c.Rule("C17.always", "in scheduleExpiration every path from the fired timer to a return rewrites SecureChannel.instances (the removal): no early return — `still the active one`, `renewal pending` — leaves an expired token in the table, where verifyAndDecrypt would keep accepting chunks under its keys", 1)
	{
		f := schedExp
		var rewrites []ssa.Instruction
		isRewrite := func(in ssa.Instruction) bool {
			for _, r := range rewrites {
				if r == in {
					return true
				}
			}
			return false
		}
		for _, s := range ssax.ContainerSites(f, instances) {
			if s.Kind == ssax.MapStore || s.Kind == ssax.MapDelete {
				rewrites = append(rewrites, s.Instr)
			}
		}
		// removal moved into a private helper: the call stands for it
		for _, call := range ssax.Calls(f) {
			h := call.Common().StaticCallee()
			if _, isDefer := call.(*ssa.Defer); isDefer || !isPrivateHelper(f, h) {
				continue
			}
			for _, s := range ssax.ContainerSites(h, instances) {
				if s.Kind == ssax.MapStore || s.Kind == ssax.MapDelete {
					rewrites = append(rewrites, call)
				}
			}
		}
		n := 0
		for _, b := range f.Blocks {
			for _, in := range b.Instrs {
				// the fired timer: a receive from a timer channel (select arm or plain receive)
				var start ssa.Instruction
				switch x := in.(type) {
				case *ssa.Select:
					for i, st := range x.States {
						if shutdownChan(st.Chan) == "timer" {
							start = selectArmStart(x, i)
						}
					}
				case *ssa.UnOp:
					if x.Op == token.ARROW && shutdownChan(x.X) == "timer" {
						start = x
					}
				}
				if start == nil {
					continue
				}
				n++
				if isRewrite(start) {
					// the arm begins with the removal itself
					c.Ob("C17.always", fname(f)+"·the fired timer always removes", pos(c, in), true, "the first thing the timer arm does is the rewrite of the instance table")
					continue
				}
				miss, tr := ssax.Reach(f, start, func(in ssa.Instruction) bool { _, r := in.(*ssa.Return); return r }, isRewrite, nil)
				c.Ob("C17.always", fname(f)+"·the fired timer always removes", pos(c, in), !miss && len(rewrites) > 0, "a path from the fired timer to a return skips the rewrite of the instance table: "+boolStr(miss), trace(c, tr)...)
			}
		}
		if n == 0 {
			// the wait may live in a private helper that reports whether the timer fired (`if !s.waitUnlessClosing(d)
			// { return }`): the paths that count start at the call and leave it by the "fired" edge
			for _, call := range ssax.Calls(f) {
				h := call.Common().StaticCallee()
				cv, isVal := call.(*ssa.Call)
				if !isVal || !isPrivateHelper(f, h) {
					continue
				}
				fired, found := false, false
				for _, hb := range h.Blocks {
					for _, hin := range hb.Instrs {
						sel, ok := hin.(*ssa.Select)
						if !ok {
							continue
						}
						for i, st := range sel.States {
							if shutdownChan(st.Chan) != "timer" {
								continue
							}
							arm := selectArmStart(sel, i)
							if arm == nil {
								continue
							}
							for _, r := range ssax.Returns(h) {
								if len(r.Results) != 1 || !(ssax.Dominates(arm, r) || arm == ssa.Instruction(r)) {
									continue
								}
								if k, ok := ssax.Strip(ssax.RetVal(r, 0)).(*ssa.Const); ok && k.Value != nil {
									fired, found = k.Value.String() == "true", true
								}
							}
						}
					}
				}
				if !found {
					continue
				}
				n++
				notFired := func(a, b *ssa.BasicBlock) bool {
					ifi, ok := a.Instrs[len(a.Instrs)-1].(*ssa.If)
					if !ok || len(a.Succs) != 2 {
						return false
					}
					v, pos := ifi.Cond, true
					for {
						if u, ok := v.(*ssa.UnOp); ok && u.Op == token.NOT {
							v, pos = u.X, !pos
							continue
						}
						break
					}
					if v != ssa.Value(cv) {
						return false
					}
					// the edge on which the call's result equals `fired` is the one that counts
					tookTrue := b == a.Succs[0]
					val := tookTrue == pos
					return val != fired
				}
				miss, tr := ssax.Reach(f, call, func(in ssa.Instruction) bool { _, r := in.(*ssa.Return); return r }, isRewrite, notFired)
				c.Ob("C17.always", fname(f)+"·the fired timer always removes", pos(c, call), !miss && len(rewrites) > 0, "the wait is in "+fname(h)+"; a path from its `fired` result to a return skips the rewrite of the instance table: "+boolStr(miss), trace(c, tr)...)
			}
		}
		if n == 0 {
			c.Ob("C17.always", fname(f)+"·the fired timer always removes", c.P.Pos(f.Pos()), false, "no receive from a timer found in scheduleExpiration")
		}
	}

	// C17.remove
	{
		f := schedExp
		fl := retainFilters(c, f, instances, tokField)
		for _, r := range fl {
			c.Ob("C17.remove", fname(f)+"·retain-filter", pos(c, r.at), r.ok, r.detail)
		}
		if len(fl) == 0 {
			// the table must at least be rewritten (a removal) after the timer
			rew := false
			positional := ""
			for _, g := range withHelpers(f) {
				for _, s := range ssax.ContainerSites(g, instances) {
					if s.Kind == ssax.MapStore || s.Kind == ssax.MapDelete {
						rew = true
					}
					// table[k] = old[i:j]: entries are dropped by position, whichever instance expired
					if s.Kind == ssax.MapStore {
						if sl, isSl := ssax.Strip(s.Val).(*ssa.Slice); isSl {
							positional = ssax.Path(sl) + " at " + pos(c, s.Instr)
						}
					}
				}
			}
			if positional != "" {
				c.Ob("C17.remove", fname(f)+"·retain-filter", c.P.Pos(f.Pos()), false, "the table entry is replaced by the sub-slice "+positional+": which instance is dropped depends on its position, not on which token expired (tokens need not expire in the order they were issued)")
				rew = false
				positional = "reported"
			}
			if positional == "reported" {
				// already reported
			} else {
				c.Ob("C17.remove", fname(f)+"·retain-filter", c.P.Pos(f.Pos()), rew, "no append-back loop; table rewritten/deleted: "+boolStr(rew))
			}
		}
	}

}

// inPlaceRekey: the installed value is loaded from SecureChannel.openingInstance,
// no caller chain resets that slot (so the same object is re-used for every
// token), and this function overwrites the object's algo before installing it.
func inPlaceRekey(c *core.Ctx, f *ssa.Function, at ssa.Instruction, vals []ssa.Value, cg *callgraph.Graph) (bool, string) {
	opening := field(c, "uasc", "SecureChannel", "openingInstance")
	algo := field(c, "uasc", "channelInstance", "algo")
	fromOpening := false
	for _, v := range vals {
		for _, o := range ssax.Origins(v, cg, c.Depth) {
			if o.Field == opening {
				fromOpening = true
			}
		}
	}
	if !fromOpening {
		return false, ""
	}
	if fresh, _ := resetsOpening(c, f, opening, c.Depth); fresh {
		return false, ""
	}
	for _, a := range ssax.FieldAccesses(f, algo) {
		if a.Kind != ssax.Write {
			continue
		}
		fa := a.Instr.(*ssa.FieldAddr)
		if isVal(fa.X, vals) && ssax.Dominates(a.Use, at) {
			return true, "installs the re-used openingInstance object after overwriting its algo in place: the superseded keys no longer exist (whether traffic under the old token survives the overlap is C16's question)"
		}
	}
	return false, ""
}

func boolStr(b bool) string {
	if b {
		return "yes"
	}
	return "no"
}

func uniq(in []string) []string {
	seen := map[string]bool{}
	var out []string
	for _, s := range in {
		if !seen[s] {
			seen[s] = true
			out = append(out, s)
		}
	}
	return out
}

// isAppendOf reports whether v is the result of append(...).
func isAppendOf(v ssa.Value) bool {
	call, ok := ssax.Strip(v).(*ssa.Call)
	return ok && ssax.IsBuiltin(call, "append")
}

// appendedValues returns the element values appended by an append call whose
// variadic part is a literal slice.
func appendedValues(v ssa.Value) []ssa.Value {
	call, ok := ssax.Strip(v).(*ssa.Call)
	if !ok || !ssax.IsBuiltin(call, "append") || len(call.Call.Args) < 2 {
		return nil
	}
	var out []ssa.Value
	// variadic arg: Slice of an Alloc'd array whose elements are stored individually
	if sl, ok := call.Call.Args[1].(*ssa.Slice); ok {
		if al, ok := sl.X.(*ssa.Alloc); ok {
			if refs := al.Referrers(); refs != nil {
				for _, r := range *refs {
					if ia, ok := r.(*ssa.IndexAddr); ok {
						if rr := ia.Referrers(); rr != nil {
							for _, s := range *rr {
								if st, ok := s.(*ssa.Store); ok && st.Addr == ia {
									out = append(out, st.Val)
								}
							}
						}
					}
				}
			}
		}
	}
	return out
}

type loaded struct {
	f    *types.Var
	base ssa.Value
}

func loadedField(v ssa.Value) loaded {
	v = ssax.Strip(v)
	switch x := v.(type) {
	case *ssa.UnOp:
		if fa, ok := x.X.(*ssa.FieldAddr); ok && x.Op == token.MUL {
			return loaded{ssax.FieldOf(fa.X.Type(), fa.Field), fa.X}
		}
	case *ssa.Field:
		return loaded{ssax.FieldOf(x.X.Type(), x.Field), x.X}
	case *ssax.Synth:
		// a fact operand translated from a helper: field known, no base value in this function
		if x.Field != nil {
			return loaded{x.Field, x}
		}
	}
	return loaded{}
}

func isVal(v ssa.Value, vals []ssa.Value) bool {
	v = ssax.Strip(v)
	for _, x := range vals {
		if ssax.Strip(x) == v || ssax.Path(x) == ssax.Path(v) {
			return true
		}
	}
	return false
}

func pathsOf(vs []ssa.Value) string {
	var s []string
	for _, v := range vs {
		s = append(s, ssax.Path(v))
	}
	return strings.Join(s, ",")
}

// sameObject reports whether arg denotes the same object as one of vals, either
// the same SSA value/path, or both loaded from / stored to the same place in
// this function (e.g. `instance` parameter installed as s.openingInstance where
// the caller passes s.openingInstance for the parameter).
func sameObject(arg ssa.Value, vals []ssa.Value, c *core.Ctx) bool {
	if isVal(arg, vals) {
		return true
	}
	cg := c.P.CallGraph()
	ao := ssax.Origins(arg, cg, c.Depth)
	for _, v := range vals {
		vo := ssax.Origins(v, cg, c.Depth)
		for _, a := range ao {
			for _, b := range vo {
				if a.Field != nil && a.Field == b.Field {
					return true
				}
			}
		}
	}
	return false
}

// resetsOpening: f, or each of its callers up to depth (all call chains), stores
// nil into `opening` after the call on every path (a deferred closure counts).
func resetsOpening(c *core.Ctx, f *ssa.Function, opening *types.Var, depth int) (bool, string) {
	if storesNil(f, opening) {
		return true, fname(f) + " resets openingInstance to nil"
	}
	if depth == 0 {
		return false, "no reset of openingInstance found within the interprocedural bound"
	}
	node := c.P.CallGraph().Nodes[f]
	if node == nil || len(node.In) == 0 {
		return false, fname(f) + " has no caller that resets openingInstance: the same object is re-installed and mutated by every later OpenSecureChannel exchange"
	}
	seen := map[*ssa.Function]bool{}
	for _, e := range node.In {
		caller := e.Caller.Func
		if seen[caller] {
			continue
		}
		seen[caller] = true
		// a closure: the enclosing function's deferred reset counts too
		outer := caller
		okOne := false
		why := ""
		for outer != nil {
			if storesNil(outer, opening) {
				okOne = true
				break
			}
			for _, an := range outer.AnonFuncs {
				if isDeferred(outer, an) && storesNil(an, opening) {
					okOne = true
				}
			}
			if okOne {
				break
			}
			outer = outer.Parent()
		}
		if !okOne {
			okOne, why = resetsOpening(c, caller, opening, depth-1)
		}
		if !okOne {
			if why == "" {
				why = "caller " + fname(caller) + " never resets openingInstance"
			}
			return false, "via " + fname(caller) + ": " + why
		}
	}
	return true, "every caller chain resets openingInstance to nil after the exchange"
}

func storesNil(f *ssa.Function, fld *types.Var) bool {
	for _, a := range ssax.FieldAccesses(f, fld) {
		if a.Kind == ssax.Write {
			if st, ok := a.Use.(*ssa.Store); ok && ssax.IsNil(st.Val) {
				return true
			}
		}
	}
	return false
}

func isDeferred(outer, an *ssa.Function) bool {
	for _, b := range outer.Blocks {
		for _, in := range b.Instrs {
			if d, ok := in.(*ssa.Defer); ok {
				if mc, ok := d.Call.Value.(*ssa.MakeClosure); ok && mc.Fn == an {
					return true
				}
				if d.Call.StaticCallee() == an {
					return true
				}
			}
		}
	}
	return false
}
