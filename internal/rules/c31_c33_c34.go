package rules

import (
	"go/token"
	"go/types"
	"strconv"
	"strings"

	"golang.org/x/tools/go/ssa"

	"verif/internal/core"
	"verif/internal/lockset"
	"verif/internal/ssax"
)

func init() { register("C31", c31); register("C33", c33); register("C34", c34) }

// requestReachable returns the library functions reachable from the server's
// request dispatch (handleService and every registered handler) and from the
// notification path.
func requestReachable(c *core.Ctx) map[*ssa.Function]bool {
	var roots []*ssa.Function
	if f := fn(c, "server", "Server", "handleService"); f != nil {
		roots = append(roots, f)
	}
	roots = append(roots, registeredHandlers(c)...)
	if f := fn(c, "server", "MonitoredItemService", "ChangeNotification"); f != nil {
		roots = append(roots, f)
	}
	return reachableFrom(c, roots)
}

// registeredHandlers returns the functions passed to RegisterHandler in initHandlers.
func registeredHandlers(c *core.Ctx) []*ssa.Function {
	ih := fn(c, "server", "Server", "initHandlers")
	reg := obj(c, "server", "Server", "RegisterHandler")
	if ih == nil || reg == nil {
		return nil
	}
	var out []*ssa.Function
	for _, call := range ssax.CallsTo(ih, reg) {
		args := call.Common().Args
		h := ssax.Strip(args[len(args)-1])
		switch x := h.(type) {
		case *ssa.MakeClosure:
			// bound method value: the closure wraps the method
			if f, ok := x.Fn.(*ssa.Function); ok {
				out = append(out, boundTarget(f))
			}
		case *ssa.Function:
			out = append(out, x)
		}
	}
	return out
}

// boundTarget resolves a `recv.Method` bound-method wrapper to the method.
func boundTarget(f *ssa.Function) *ssa.Function {
	if f.Synthetic == "" {
		return f
	}
	for _, b := range f.Blocks {
		for _, in := range b.Instrs {
			if call, ok := in.(*ssa.Call); ok {
				if sf := call.Call.StaticCallee(); sf != nil {
					return sf
				}
			}
		}
	}
	return f
}

// accessFact reports whether `at` is dominated by the true result of
// node.Access(flag) where node is the same object as recv.
func accessFact(c *core.Ctx, at ssa.Instruction, recv ssa.Value, flag int64) bool {
	access := obj(c, "server", "Node", "Access")
	trues, _ := ssax.BoolFactsAt(at)
	for _, v := range trues {
		call, ok := v.(*ssa.Call)
		if !ok || ssax.Callee(call) != access {
			continue
		}
		args := call.Call.Args
		if k, ok := ssax.ConstInt(args[len(args)-1]); !ok || k != flag {
			continue
		}
		// Access has a value receiver: args[0] is a load of the node pointer
		r := ssax.Strip(args[0])
		if u, ok := r.(*ssa.UnOp); ok && u.Op == token.MUL {
			r = ssax.Strip(u.X)
		}
		if r == ssax.Strip(recv) || ssax.Path(r) == ssax.Path(recv) {
			return true
		}
	}
	return false
}

func c31(c *core.Ctx) {
	initOwners(c)
	setAttr := obj(c, "server", "Node", "SetAttribute")
	getAttr := obj(c, "server", "Node", "Attribute")
	getVal := obj(c, "server", "Node", "Value")
	accessFn := fn(c, "server", "Node", "Access")
	valF := field(c, "server", "Node", "val")
	if setAttr == nil || getAttr == nil || getVal == nil || accessFn == nil || valF == nil {
		return
	}
	curRead := enumConst(c, "ua", "AccessLevelTypeCurrentRead")
	curWrite := enumConst(c, "ua", "AccessLevelTypeCurrentWrite")
	attrValue := enumConst(c, "ua", "AttributeIDValue")
	if curRead == nil || curWrite == nil || attrValue == nil {
		return
	}
	c.Rule("C31.write", "every call of (*Node).SetAttribute reachable from a service request is dominated by the true result of Access(CurrentWrite) on the same node", 1)
	c.Rule("C31.read", "every read of a node's value storage reachable from a service request — (*Node).Attribute with an attribute id that may be Value, (*Node).Value, or a call of the val function — is dominated by the true result of Access(CurrentRead) on the same node (the accessors themselves and nodes built in place with a nil value function carry no obligation)", 2)
	c.Rule("C31.failclosed", "Node.Access returns true only if, for each of UserAccessLevel and AccessLevel, the attribute is absent (err != nil) or its uint8 value has the flag bit set; a present attribute of another Go type yields false (also when the lookup lives in a helper of Access that reports the failed assertion through a flag)", 1)

	reach := requestReachable(c)
	c.Count("request-reachable functions", len(reach))
	accessors := map[*ssa.Function]bool{}
	for _, o := range []*types.Func{getAttr, getVal} {
		accessors[c.P.SSAFunc(o)] = true
	}
	accessors[accessFn] = true
	// helpers of Access: Node methods it calls that read the level attributes
	var accessHelpers []*ssa.Function
	for _, call := range ssax.Calls(accessFn) {
		if sf := call.Common().StaticCallee(); sf != nil && sf != c.P.SSAFunc(getAttr) && recvName(sf) == "Node" && len(ssax.CallsTo(sf, getAttr)) > 0 && !accessors[sf] {
			accessors[sf] = true
			accessHelpers = append(accessHelpers, sf)
		}
	}
	for _, f := range libFns(c, "server") {
		if !reach[f] {
			continue
		}
		for _, call := range ssax.Calls(f) {
			cal := ssax.Callee(call)
			args := call.Common().Args
			switch {
			case cal == setAttr:
				ok := accessFact(c, call, args[0], *curWrite)
				c.Ob("C31.write", fname(f)+"·Node.SetAttribute", pos(c, call), ok, "dominated by Access(CurrentWrite)==true on the same node: "+boolStr(ok))
			case cal == getAttr && !accessors[f]:
				if k, isConst := ssax.ConstInt(args[1]); isConst && k != *attrValue {
					continue // constant attribute id other than Value
				}
				if builtWithNilValue(c, args[0]) {
					c.Ob("C31.read", fname(f)+"·Node.Attribute(id may be Value)", pos(c, call), true, "receiver is built in place with a nil value function: there is no value to protect")
					continue
				}
				ok := accessFact(c, call, args[0], *curRead)
				c.Ob("C31.read", fname(f)+"·Node.Attribute(id may be Value)", pos(c, call), ok, "dominated by Access(CurrentRead)==true on the same node: "+boolStr(ok))
			case cal == getVal && !accessors[f]:
				ok := accessFact(c, call, args[0], *curRead)
				c.Ob("C31.read", fname(f)+"·Node.Value()", pos(c, call), ok, "dominated by Access(CurrentRead)==true: "+boolStr(ok))
			case cal == nil && !accessors[f]:
				// dynamic call of a loaded `val` field
				if ld := loadedField(call.Common().Value); ld.f == valF {
					ok := accessFact(c, call, ld.base, *curRead)
					c.Ob("C31.read", fname(f)+"·n.val()", pos(c, call), ok, "dominated by Access(CurrentRead)==true: "+boolStr(ok))
				}
			}
		}
	}

	// both level attributes are consulted before access is granted
	{
		isConsult := func(in ssa.Instruction) bool {
			call, ok := in.(ssa.CallInstruction)
			return ok && ssax.Callee(call) == getAttr
		}
		consults := liftedSites(accessFn, isConsult)
		loops := ssax.Loops(accessFn)
		bad := ""
		for _, rp := range boolReturnPoints(accessFn) {
			v, r := rp.v, rp.at
			if k, ok := v.(*ssa.Const); ok && k.Value != nil && k.Value.String() == "false" {
				continue
			}
			for _, cs := range consults {
				inLoop := false
				for _, l := range loops {
					if l.Blocks[cs.Block()] {
						inLoop = true
						// the consult is repeated per attribute: a result returned within an iteration (the
						// return is dominated by that iteration's consult) skips the attributes not yet visited
						if l.Blocks[r.Block()] || ssax.Dominates(cs, r) {
							bad = "the result " + ssax.Path(v) + " is returned at " + pos(c, r) + " from inside the loop over the level attributes: the attributes not yet visited are never consulted"
						}
					}
				}
				if !inLoop && !ssax.Dominates(cs, r) {
					bad = "the result " + ssax.Path(v) + " returned at " + pos(c, r) + " is not preceded by the level check at " + pos(c, cs)
				}
			}
		}
		c.Ob("C31.failclosed", fname(accessFn)+"·access is granted only after every level attribute was consulted", c.P.Pos(accessFn.Pos()), bad == "" && len(consults) > 0, orOK(bad, "every return that can be true lies behind all level checks (outside the loop over the attributes)"))
	}
	// fail-closed
	{
		for _, call := range ssax.CallsTo(accessFn, getAttr) {
			k, _ := ssax.ConstInt(call.Common().Args[1])
			errV := errResult(call)
			// the err == nil edge
			var from, to *ssa.BasicBlock
			for _, b := range accessFn.Blocks {
				if len(b.Instrs) == 0 {
					continue
				}
				ifi, ok := b.Instrs[len(b.Instrs)-1].(*ssa.If)
				if !ok {
					continue
				}
				cmp, neg, ok := ssax.AsCmp(ifi.Cond)
				if !ok || !denotes(cmp.X, errV) || !ssax.IsNil(cmp.Y) {
					continue
				}
				op := cmp.Op
				if neg {
					op = ssax.NegOp(op)
				}
				if op == token.EQL {
					from, to = b, b.Succs[0]
				} else if op == token.NEQ {
					from, to = b, b.Succs[1]
				}
			}
			key := fname(accessFn) + "·attribute " + attrName(k) + " present ⇒ flag bit required"
			if from == nil {
				c.Ob("C31.failclosed", key, pos(c, call), false, "the attribute lookup's error is not tested: absence and presence are not distinguished")
				continue
			}
			// good edges: false edge of `(v & flag) == 0` and true edge of the uint8 comma-ok
			// where v / ok derive from this call's result
			good := func(a, b *ssa.BasicBlock) bool {
				ifi, ok := a.Instrs[len(a.Instrs)-1].(*ssa.If)
				if !ok || len(a.Succs) != 2 {
					return false
				}
				cmp, neg, ok := ssax.AsCmp(ifi.Cond)
				if !ok {
					return false
				}
				bo, isAnd := ssax.Strip(cmp.X).(*ssa.BinOp)
				if !isAnd || bo.Op != token.AND {
					return false
				}
				if z, ok := ssax.ConstInt(cmp.Y); !ok || z != 0 {
					return false
				}
				if !fromCall(bo.X, call) && !fromCall(bo.Y, call) {
					return false
				}
				op := cmp.Op
				if neg {
					op = ssax.NegOp(op)
				}
				// edge on which (v&flag) != 0
				if op == token.EQL {
					return b == a.Succs[1]
				}
				if op == token.NEQ {
					return b == a.Succs[0]
				}
				return false
			}
			first := to.Instrs[0]
			isTrueRet := func(in ssa.Instruction) bool {
				r, ok := in.(*ssa.Return)
				if !ok || r.Block() == accessFn.Recover {
					return false
				}
				v, ok := ssax.RetVal(r, 0).(*ssa.Const)
				return ok && v.Value != nil && v.Value.String() == "true"
			}
			bad := isTrueRet(first)
			var tr []ssa.Instruction
			if !bad {
				bad, tr = ssax.Reach(accessFn, first, isTrueRet, nil, good)
			}
			_ = from
			c.Ob("C31.failclosed", key, pos(c, call), !bad, "`return true` reachable with the attribute present but without passing the flag-bit test: "+boolStr(bad), trace(c, tr)...)
		}
		// the lookup lives in a helper: a failed uint8 assertion must reach Access as a flag whose false edge cannot
		// end in `return true`
		isTrueRet := func(in ssa.Instruction) bool {
			r, ok := in.(*ssa.Return)
			if !ok || r.Block() == accessFn.Recover {
				return false
			}
			v, ok := ssax.RetVal(r, 0).(*ssa.Const)
			return ok && v.Value != nil && v.Value.String() == "true"
		}
		for _, h := range accessHelpers {
			if permitHelper(c, h, accessFn, getAttr) {
				continue
			}
			for _, gc := range ssax.CallsTo(h, getAttr) {
				var ta *ssa.TypeAssert
				for _, b := range h.Blocks {
					for _, in := range b.Instrs {
						if t, ok := in.(*ssa.TypeAssert); ok && fromCall(t.X, gc) {
							ta = t
						}
					}
				}
				key := fname(accessFn) + "·level attribute read in " + fname(h) + " present ⇒ flag bit required"
				if ta == nil || !ta.CommaOk {
					c.Ob("C31.failclosed", key, pos(c, gc), false, "the helper does not test the Go type of the attribute value with a comma-ok assertion")
					continue
				}
				okIdx := -1
				for _, r := range ssax.Returns(h) {
					for i := range r.Results {
						if ex, ok := ssax.Strip(ssax.RetVal(r, i)).(*ssa.Extract); ok && ex.Tuple == ssa.Value(ta) && ex.Index == 1 {
							okIdx = i
						}
					}
				}
				if okIdx < 0 {
					c.Ob("C31.failclosed", key, pos(c, ta), false, "the helper does not report a failed uint8 assertion to Access")
					continue
				}
				for _, hc := range ssax.Calls(accessFn) {
					if hc.Common().StaticCallee() != h {
						continue
					}
					flag := result(hc, okIdx)
					bad, tested := false, false
					var tr []ssa.Instruction
					for _, b := range accessFn.Blocks {
						ifi, ok := b.Instrs[len(b.Instrs)-1].(*ssa.If)
						if !ok || flag == nil {
							continue
						}
						cond := ssax.Strip(ifi.Cond)
						falseEdge := b.Succs[1]
						if u, isNot := cond.(*ssa.UnOp); isNot && u.Op == token.NOT {
							cond, falseEdge = ssax.Strip(u.X), b.Succs[0]
						}
						if cond != ssax.Strip(flag) {
							continue
						}
						tested = true
						first := falseEdge.Instrs[0]
						if isTrueRet(first) {
							bad = true
						} else if r, t := ssax.Reach(accessFn, first, isTrueRet, nil, nil); r {
							bad, tr = true, t
						}
					}
					d := "on the false edge of the flag that reports a failed uint8 assertion Access can still reach `return true` (a flag that is also false for an absent attribute cannot fail closed): " + boolStr(bad)
					if !tested {
						bad, d = true, "Access never branches on the flag that reports the failed assertion"
					}
					c.Ob("C31.failclosed", key, pos(c, hc), !bad, d, trace(c, tr)...)
				}
			}
		}
	}
}

func attrName(k int64) string {
	switch k {
	case 17:
		return "AccessLevel"
	case 18:
		return "UserAccessLevel"
	}
	return "?"
}

// fromCall: v derives (through Value() calls, field loads, type assertions,
// conversions) from the result of call.
func fromCall(v ssa.Value, call ssa.CallInstruction) bool {
	target := result(call, 0)
	seen := map[ssa.Value]bool{}
	var walk func(v ssa.Value, d int) bool
	walk = func(v ssa.Value, d int) bool {
		if v == nil || d > 12 || seen[v] {
			return false
		}
		seen[v] = true
		v = ssax.Strip(v)
		if v == target || v == call.(ssa.Value) {
			return true
		}
		switch x := v.(type) {
		case *ssa.Extract:
			return walk(x.Tuple, d+1)
		case *ssa.TypeAssert:
			return walk(x.X, d+1)
		case *ssa.UnOp:
			return walk(x.X, d+1)
		case *ssa.FieldAddr:
			return walk(x.X, d+1)
		case *ssa.Field:
			return walk(x.X, d+1)
		case *ssa.Call:
			if x.Call.IsInvoke() {
				return walk(x.Call.Value, d+1)
			}
			for _, a := range x.Call.Args {
				if walk(a, d+1) {
					return true
				}
			}
		case *ssa.Phi:
			for _, e := range x.Edges {
				if walk(e, d+1) {
					return true
				}
			}
		case *ssa.BinOp:
			return walk(x.X, d+1) || walk(x.Y, d+1)
		}
		return false
	}
	return walk(v, 0)
}

// builtWithNilValue: recv is the result of a call to a function all of whose
// returns are NewNode(..., nil) results.
func builtWithNilValue(c *core.Ctx, recv ssa.Value) bool {
	newNode := obj(c, "server", "", "NewNode")
	call, ok := ssax.Strip(recv).(*ssa.Call)
	if !ok {
		return false
	}
	var callees []*ssa.Function
	if sf := call.Call.StaticCallee(); sf != nil {
		callees = append(callees, sf)
	} else if call.Call.IsInvoke() {
		// all implementations in the library
		for _, f := range libFns(c, "server") {
			if f.Name() == call.Call.Method.Name() && f.Signature.Recv() != nil && types.Identical(f.Signature.Results(), call.Call.Method.Type().(*types.Signature).Results()) {
				callees = append(callees, f)
			}
		}
	}
	if len(callees) == 0 {
		return false
	}
	for _, cf := range callees {
		rets := ssax.Returns(cf)
		if len(rets) == 0 {
			return false
		}
		for _, r := range rets {
			rc, ok := ssax.Strip(ssax.RetVal(r, 0)).(*ssa.Call)
			if !ok || ssax.Callee(rc) != newNode {
				return false
			}
			if !ssax.IsNil(rc.Call.Args[len(rc.Call.Args)-1]) {
				return false
			}
		}
	}
	return true
}

// ---------------------------------------------------------------------------

// nameSpaceImpls returns the implementations of NameSpace.<method>.
func nameSpaceImpls(c *core.Ctx, method string) []*ssa.Function {
	nsT := c.P.Lib["server"].Types.Scope().Lookup("NameSpace")
	if nsT == nil {
		c.Fatal("unresolved anchor: server.NameSpace")
		return nil
	}
	iface := nsT.Type().Underlying().(*types.Interface)
	var out []*ssa.Function
	sc := c.P.Lib["server"].Types.Scope()
	for _, n := range sc.Names() {
		tn, ok := sc.Lookup(n).(*types.TypeName)
		if !ok {
			continue
		}
		pt := types.NewPointer(tn.Type())
		if _, isIface := tn.Type().Underlying().(*types.Interface); isIface {
			continue
		}
		if !types.Implements(pt, iface) {
			continue
		}
		o, _, _ := types.LookupFieldOrMethod(pt, true, c.P.Lib["server"].Types, method)
		if f, ok := o.(*types.Func); ok {
			if sf := c.P.SSAFunc(f); sf != nil && sf.Blocks != nil {
				out = append(out, sf)
			}
		}
	}
	return out
}

func c33(c *core.Ctx) {
	initOwners(c)
	suitable := obj(c, "server", "", "suitableRef")
	suitableFn := fn(c, "server", "", "suitableRef")
	refsF := field(c, "ua", "BrowseResult", "References")
	if suitable == nil || suitableFn == nil || refsF == nil {
		return
	}
	c.Rule("C33.filter", "in every implementation of NameSpace.Browse each ReferenceDescription that reaches BrowseResult.References was appended on the true edge of suitableRef(request, reference) (an implementation that returns references without consulting the filter ignores direction, reference type and class mask)", 2)
	c.Rule("C33.fields", "suitableRef consults all of BrowseDirection, ReferenceTypeID, IncludeSubtypes and NodeClassMask of the request, and the reference's IsForward, ReferenceTypeID and NodeClass, before returning true", 1)

	c33Subtypes(c)
	c.Rule("C33.nullref", "suitableRefType answers `true` without looking at the reference only for the null NodeID: every constant-true return is on the true edge of a (*NodeID).Equal call (the all-types shortcut compares the requested type with i=0 in namespace 0; a weaker test such as IntID() == 0 switches the filter off for every string / GUID / opaque reference type id)", 1)
	if srt := fn(c, "server", "", "suitableRefType"); srt != nil {
		n := 0
		for _, r := range ssax.Returns(srt) {
			k, ok := ssax.Strip(ssax.RetVal(r, 0)).(*ssa.Const)
			if !ok || k.Value == nil || k.Value.String() != "true" {
				continue
			}
			n++
			trues, _ := ssax.BoolFactsAt(r)
			byEqual := false
			for _, t := range trues {
				if call, isCall := ssax.Strip(t).(*ssa.Call); isCall {
					if cal := ssax.Callee(call); cal != nil && cal.Name() == "Equal" {
						byEqual = true
					}
				}
			}
			if !byEqual {
				// `a.Equal(null) || a.Equal(b)`: several ways into the return, each the true edge of an Equal call —
				// decided over all paths: can the return be reached from the entry without taking such an edge?
				equalEdge := func(a, b *ssa.BasicBlock) bool {
					ifi, ok := a.Instrs[len(a.Instrs)-1].(*ssa.If)
					if !ok || len(a.Succs) != 2 {
						return false
					}
					v, pos := ifi.Cond, true
					for {
						if u, ok := v.(*ssa.UnOp); ok && u.Op == token.NOT {
							v, pos = u.X, !pos
							continue
						}
						break
					}
					call, isCall := ssax.Strip(v).(*ssa.Call)
					if !isCall {
						return false
					}
					if cal := ssax.Callee(call); cal == nil || cal.Name() != "Equal" {
						return false
					}
					return (b == a.Succs[0]) == pos
				}
				other, _ := ssax.Reach(srt, nil, func(in ssa.Instruction) bool { return in == ssa.Instruction(r) }, nil, equalEdge)
				byEqual = !other
			}
			c.Ob("C33.nullref", fname(srt)+"·return true", pos(c, r), byEqual, "on the true edge of a NodeID.Equal comparison: "+boolStr(byEqual))
		}
		if n == 0 {
			c.Ob("C33.nullref", fname(srt)+"·return true", c.P.Pos(srt.Pos()), true, "no constant-true shortcut")
		}
	}
	impls := nameSpaceImpls(c, "Browse")
	c.Count("NameSpace.Browse implementations", len(impls))
	for _, f := range impls {
		// find composite BrowseResult literals with a References store
		n := 0
		for _, a := range ssax.FieldAccesses(f, refsF) {
			st, ok := a.Use.(*ssa.Store)
			if a.Kind != ssax.Write || !ok {
				continue
			}
			n++
			ok2, why := refsFiltered(c, f, st.Val, suitable)
			c.Ob("C33.filter", fname(f)+"·BrowseResult.References", pos(c, st), ok2, why)
		}
		if n == 0 {
			c.Ob("C33.filter", fname(f)+"·BrowseResult.References", c.P.Pos(f.Pos()), true, "returns no references")
		}
	}
	// fields
	{
		need := [][3]string{{"ua", "BrowseDescription", "BrowseDirection"}, {"ua", "BrowseDescription", "ReferenceTypeID"}, {"ua", "BrowseDescription", "IncludeSubtypes"}, {"ua", "BrowseDescription", "NodeClassMask"}, {"ua", "ReferenceDescription", "IsForward"}, {"ua", "ReferenceDescription", "ReferenceTypeID"}, {"ua", "ReferenceDescription", "NodeClass"}}
		var trueRet *ssa.Return
		for _, r := range ssax.Returns(suitableFn) {
			if k, ok := ssax.RetVal(r, 0).(*ssa.Const); ok && k.Value != nil && k.Value.String() == "true" {
				trueRet = r
			}
		}
		missing := ""
		for _, nf := range need {
			fl := field(c, nf[0], nf[1], nf[2])
			read := false
			for _, a := range ssax.FieldAccesses(suitableFn, fl) {
				if a.Kind == ssax.Read && trueRet != nil {
					if r, _ := ssax.Reach(suitableFn, a.Use, func(in ssa.Instruction) bool { return in == ssa.Instruction(trueRet) }, nil, nil); r {
						read = true
					}
				}
			}
			if !read {
				missing += " " + nf[1] + "." + nf[2]
			}
		}
		p := c.P.Pos(suitableFn.Pos())
		c.Ob("C33.fields", fname(suitableFn)+"·consults all request fields", p, missing == "" && trueRet != nil, "fields not consulted before `return true`:"+missing)
		// each sub-test's failure returns false: `return true` not reachable via the failing edge
		for _, call := range ssax.Calls(suitableFn) {
			cal := ssax.Callee(call)
			if cal == nil || (cal.Name() != "suitableDirection" && cal.Name() != "suitableRefType") {
				continue
			}
			ok := false
			if trueRet != nil {
				tr, _ := ssax.BoolFactsAt(trueRet)
				for _, v := range tr {
					if v == call.(ssa.Value) {
						ok = true
					}
				}
			}
			c.Ob("C33.fields", fname(suitableFn)+"·"+cal.Name()+" must hold", pos(c, call), ok, "`return true` dominated by "+cal.Name()+"()==true: "+boolStr(ok))
		}
	}
}

// refsFiltered: every element that may be in slice value v was appended under
// suitableRef == true.
func refsFiltered(c *core.Ctx, f *ssa.Function, v ssa.Value, suitable *types.Func) (bool, string) {
	seen := map[ssa.Value]bool{}
	okAll := true
	why := "every appended reference is dominated by suitableRef(...)==true"
	elems := 0
	var walk func(v ssa.Value)
	walk = func(v ssa.Value) {
		v = ssax.Strip(v)
		if seen[v] {
			return
		}
		seen[v] = true
		// elements written by index into this slice value
		if refs := v.Referrers(); refs != nil {
			if _, isAlloc := v.(*ssa.Alloc); !isAlloc {
				for _, r := range *refs {
					if ia, ok := r.(*ssa.IndexAddr); ok && ia.X == v {
						if rr := ia.Referrers(); rr != nil {
							for _, s := range *rr {
								if st, ok := s.(*ssa.Store); ok && st.Addr == ia {
									elems++
									if !suitableDominates(st, suitable) {
										okAll = false
										why = "a reference is stored at " + c.P.Pos(st.Pos()) + " without the suitableRef test"
									}
								}
							}
						}
					}
				}
			}
		}
		switch x := v.(type) {
		case *ssa.Phi:
			for _, e := range x.Edges {
				walk(e)
			}
		case *ssa.Call:
			if ssax.IsBuiltin(x, "append") {
				walk(x.Call.Args[0])
				if len(x.Call.Args) > 1 {
					// appended elements: either literal elements or another slice
					vals := appendedValues(x)
					if len(vals) == 0 {
						walk(x.Call.Args[1])
					}
					for range vals {
						elems++
						if !suitableDominates(x, suitable) {
							okAll = false
							why = "a reference is appended at " + c.P.Pos(x.Pos()) + " without the suitableRef test"
						}
					}
				}
			}
		case *ssa.Slice:
			// literal []T{rf} prefix or a slice of a make
			walk(x.X)
		case *ssa.Alloc:
			// array literal: elements stored individually
			if refs := x.Referrers(); refs != nil {
				for _, r := range *refs {
					if ia, ok := r.(*ssa.IndexAddr); ok {
						if rr := ia.Referrers(); rr != nil {
							for _, s := range *rr {
								if st, ok := s.(*ssa.Store); ok && st.Addr == ia {
									elems++
									if !suitableDominates(st, suitable) {
										okAll = false
										why = "a reference is stored at " + c.P.Pos(st.Pos()) + " without the suitableRef test"
									}
								}
							}
						}
					}
				}
			}
		}
	}
	walk(v)
	if elems == 0 {
		return true, "no element is ever added (empty result)"
	}
	return okAll, why
}

func suitableDominates(at ssa.Instruction, suitable *types.Func) bool {
	tr, _ := ssax.BoolFactsAt(at)
	for _, v := range tr {
		if call, ok := v.(*ssa.Call); ok && ssax.Callee(call) == suitable {
			return true
		}
	}
	return false
}

// ---------------------------------------------------------------------------

func c34(c *core.Ctx) {
	initOwners(c)
	handle := fn(c, "server", "Server", "handleService")
	monitor := fn(c, "server", "Server", "monitorConnections")
	start := fn(c, "server", "Server", "Start")
	if handle == nil || monitor == nil || start == nil {
		return
	}
	c.Rule("C34.serial", "handleService (which runs every Read/Write handler) is called only synchronously from monitorConnections — never from a `go` statement, a per-connection goroutine or another root — and monitorConnections is started exactly once, in Start", 2)
	c.Rule("C34.handlers", "no function reachable from a registered handler starts a goroutine that writes node value storage ((*Node).SetAttribute, Node.val, MapNamespace.Data); client-visible writes stay on the single dispatcher goroutine (notification reads from other goroutines are C36's concern)", 2)

	c.Rule("C34.applied", "(*Node).SetAttribute(Value, v) returns nil only after it has stored the new value function: there is no success path that leaves the old value in place (such a write is acknowledged Good and every later read contradicts it)", 1)
	if sa := fn(c, "server", "Node", "SetAttribute"); sa != nil {
		valF := field(c, "server", "Node", "val")
		attrF := field(c, "server", "Node", "attr")
		isStoreVal := func(in ssa.Instruction) bool {
			switch x := in.(type) {
			case *ssa.Store:
				if fa, ok := x.Addr.(*ssa.FieldAddr); ok && (fieldOf(fa) == valF) {
					return true
				}
			case *ssa.MapUpdate:
				return loadedField(x.Map).f == attrF
			}
			return false
		}
		isOKRet := func(in ssa.Instruction) bool {
			r, ok := in.(*ssa.Return)
			return ok && in.Block() != sa.Recover && len(r.Results) > 0 && ssax.IsNil(ssax.RetVal(r, len(r.Results)-1))
		}
		miss, tr := ssax.Reach(sa, nil, isOKRet, isStoreVal, nil)
		c.Ob("C34.applied", fname(sa)+"·nil result implies the value was stored", c.P.Pos(sa.Pos()), !miss, "a path returns nil without having stored the value / attribute: "+boolStr(miss), trace(c, tr)...)
	}
	c.Rule("C34.batch", "in the Read and Write handlers every element of the request array is performed before the response is built: the loop over NodesToRead / NodesToWrite is left only through its header or a return, never by a break that leaves later elements with their pre-allocated (Good) status and no effect", 2)
	batchLoops(c, "C34.batch", map[string]bool{"Read": true, "Write": true})

	cg := c.P.CallGraph()
	// callers of handleService
	n := cg.Nodes[handle]
	if n == nil {
		c.Fatal("C34: handleService not in call graph")
		return
	}
	for _, e := range n.In {
		caller := e.Caller.Func
		_, isGo := e.Site.(*ssa.Go)
		ok := caller == monitor && !isGo
		c.Ob("C34.serial", fname(caller)+"·calls handleService", pos(c, e.Site), ok, "synchronous call from the single dispatcher: "+boolStr(ok))
	}
	// monitorConnections started once in Start
	mn := cg.Nodes[monitor]
	starts := 0
	for _, e := range mn.In {
		_, isGo := e.Site.(*ssa.Go)
		inLoop := false
		if e.Site != nil {
			inLoop, _ = ssax.Reach(e.Caller.Func, e.Site, func(in ssa.Instruction) bool { return in == e.Site.(ssa.Instruction) }, nil, nil)
		}
		ok := e.Caller.Func == start && isGo && !inLoop
		starts++
		c.Ob("C34.serial", fname(e.Caller.Func)+"·starts monitorConnections", pos(c, e.Site), ok, "started once from Start, outside any loop: "+boolStr(ok))
	}
	if starts == 0 {
		c.Ob("C34.serial", "server·monitorConnections started", c.P.Pos(monitor.Pos()), false, "dispatcher goroutine is never started")
	}
	// goroutines started from request handling that touch value storage
	valF := field(c, "server", "Node", "val")
	attrF := field(c, "server", "Node", "attr")
	dataF := field(c, "server", "MapNamespace", "Data")
	nodeSet := c.P.SSAFunc(obj(c, "server", "Node", "SetAttribute"))
	touches := func(f *ssa.Function) (bool, string) {
		for g := range reachableFrom(c, []*ssa.Function{f}, "server") {
			if g == nodeSet {
				return true, "reaches (*Node).SetAttribute"
			}
			for _, fl := range []*types.Var{valF, dataF} {
				for _, a := range ssax.FieldAccesses(g, fl) {
					if a.Kind == ssax.Write && g.Name() != "NewNode" && g.Name() != "NewVariableNode" && g.Name() != "AddVariable" {
						return true, fname(g) + " writes " + ssax.FieldString(fl)
					}
				}
			}
		}
		return false, ""
	}
	// C34.readpure: a value read has no effect on what later reads return
	c.Rule("C34.readpure", "no function reachable from an Attribute method of the server's address space (the value read path: (*Node).Attribute and every NameSpace implementation's Attribute) stores into a field of server.Node or into MapNamespace.Data outside a mutex-protected region: a read that writes back what it evaluated (a cache filled by readers) can put a value older than a completed write back in place, and every later read then contradicts that write", 1)
	{
		// value storage of a node: the value function and any kept *ua.DataValue (not the map of the other attributes)
		isValueStorage := func(t types.Type) bool {
			ts := t.String()
			return strings.HasSuffix(ts, "server.ValueFunc") || strings.HasSuffix(ts, "ua.DataValue") || strings.HasSuffix(ts, "ua.Variant")
		}
		isNodeField := func(fa *ssa.FieldAddr) bool {
			t := fa.X.Type()
			if p, ok := t.Underlying().(*types.Pointer); ok {
				t = p.Elem()
			}
			n, ok := t.(*types.Named)
			return ok && n.Obj().Name() == "Node" && n.Obj().Pkg() != nil && strings.HasSuffix(n.Obj().Pkg().Path(), "/server")
		}
		var roots []*ssa.Function
		for _, f := range libFns(c, "server") {
			if f.Name() == "Attribute" && f.Signature.Recv() != nil {
				roots = append(roots, f)
			}
		}
		c.Count("Attribute read-path roots in server", len(roots))
		rp := reachableFrom(c, roots, "server")
		sites := 0
		badStores := map[*ssa.Function]int{}
		for _, f := range libFns(c, "server") {
			if !rp[f] {
				continue
			}
			sites++
			for _, b := range f.Blocks {
				for _, in := range b.Instrs {
					what := ""
					switch x := in.(type) {
					case *ssa.Store:
						if fa, ok := x.Addr.(*ssa.FieldAddr); ok {
							_, freshObj := ssax.Strip(fa.X).(*ssa.Alloc) // initialising an object this function has just allocated
							if fv := fieldOf(fa); fv != nil && !freshObj && isNodeField(fa) && isValueStorage(fv.Type()) {
								what = "Node." + fv.Name()
							}
						}
					case *ssa.MapUpdate:
						if lf := loadedField(x.Map); lf.f != nil && lf.f == dataF {
							what = ssax.FieldString(lf.f)
						}
					}
					if what == "" {
						continue
					}
					locked := false
					for _, call := range ssax.Calls(f) {
						if op, ok := lockset.LockOp(call); ok && op.Acquire && ssax.Dominates(call, in) {
							locked = true
						}
					}
					if !locked {
						badStores[f]++
					}
					c.Ob("C34.readpure", fname(f)+"·store "+what, pos(c, in), locked, "the read path writes node value storage ("+what+") without holding a mutex: "+boolStr(!locked))
				}
			}
		}
		c.Count("functions on the value read path", sites)
		for _, r := range roots {
			bad := 0
			for g := range reachableFrom(c, []*ssa.Function{r}, "server") {
				bad += badStores[g]
			}
			c.Ob("C34.readpure", fname(r)+"·read path free of unlocked value stores", c.P.Pos(r.Pos()), bad == 0, "unlocked stores into node value storage reachable from this read: "+strconv.Itoa(bad))
		}
	}
	_ = attrF
	reach := reachableFrom(c, append(registeredHandlers(c), handle), "server")
	for _, f := range libFns(c, "server") {
		if !reach[f] {
			continue
		}
		for _, call := range ssax.Calls(f) {
			g, ok := call.(*ssa.Go)
			if !ok {
				continue
			}
			target := g.Call.StaticCallee()
			if target == nil {
				if mc, ok := g.Call.Value.(*ssa.MakeClosure); ok {
					target, _ = mc.Fn.(*ssa.Function)
				}
			}
			if target == nil {
				continue
			}
			bad, why := touches(target)
			c.Ob("C34.handlers", fname(f)+"·go "+fname(target), pos(c, g), !bad, "goroutine started while handling a request writes node value storage: "+boolStr(bad)+" "+why)
		}
	}
}

// bitTestEdge: the edge a→b is the one on which `(v & flag) != 0` holds for a v derived from call's result.
func bitTestEdge(a, b *ssa.BasicBlock, call ssa.CallInstruction) bool {
	ifi, ok := a.Instrs[len(a.Instrs)-1].(*ssa.If)
	if !ok || len(a.Succs) != 2 {
		return false
	}
	cmp, neg, ok := ssax.AsCmp(ifi.Cond)
	if !ok {
		return false
	}
	bo, isAnd := ssax.Strip(cmp.X).(*ssa.BinOp)
	if !isAnd || bo.Op != token.AND {
		return false
	}
	if z, ok := ssax.ConstInt(cmp.Y); !ok || z != 0 {
		return false
	}
	if !fromCall(bo.X, call) && !fromCall(bo.Y, call) {
		return false
	}
	op := cmp.Op
	if neg {
		op = ssax.NegOp(op)
	}
	if op == token.EQL {
		return b == a.Succs[1]
	}
	if op == token.NEQ {
		return b == a.Succs[0]
	}
	return false
}

// permitHelper handles a helper of Access with a single boolean result ("does this level attribute permit the flag?").
// Decided: (1) in the helper, with the attribute present, a result that can be true is reached only through the
// flag-bit test — a returned constant true behind a passed test, or the returned test `v&flag != 0` itself; a failed
// uint8 assertion therefore yields false; (2) in Access, a result other than constant false or the helper's own result
// is returned only where every helper call's result is known true. Returns false if h is not of that shape.
func permitHelper(c *core.Ctx, h, accessFn *ssa.Function, getAttr *types.Func) bool {
	res := h.Signature.Results()
	if res.Len() != 1 || res.At(0).Type().String() != "bool" {
		return false
	}
	gcs := ssax.CallsTo(h, getAttr)
	if len(gcs) != 1 {
		return false
	}
	gc := gcs[0]
	errV := errResult(gc)
	var to *ssa.BasicBlock
	for _, b := range h.Blocks {
		if len(b.Instrs) == 0 {
			continue
		}
		ifi, ok := b.Instrs[len(b.Instrs)-1].(*ssa.If)
		if !ok {
			continue
		}
		cmp, neg, ok := ssax.AsCmp(ifi.Cond)
		if !ok || !denotes(cmp.X, errV) || !ssax.IsNil(cmp.Y) {
			continue
		}
		op := cmp.Op
		if neg {
			op = ssax.NegOp(op)
		}
		if op == token.EQL {
			to = b.Succs[0]
		} else if op == token.NEQ {
			to = b.Succs[1]
		}
	}
	key := fname(accessFn) + "·level attribute read in " + fname(h) + " present ⇒ flag bit required"
	if to == nil {
		c.Ob("C31.failclosed", key, pos(c, gc), false, "the attribute lookup's error is not tested: absence and presence are not distinguished")
		return true
	}
	// a return that may be true without the bit test: constant true, or a non-constant value that is not the bit test
	mayBeTrue := func(in ssa.Instruction) bool {
		r, ok := in.(*ssa.Return)
		if !ok || r.Block() == h.Recover {
			return false
		}
		v := ssax.Strip(ssax.RetVal(r, 0))
		if k, ok := v.(*ssa.Const); ok {
			return k.Value != nil && k.Value.String() == "true"
		}
		if cmp, neg, ok := ssax.AsCmp(v); ok {
			if bo, isAnd := ssax.Strip(cmp.X).(*ssa.BinOp); isAnd && bo.Op == token.AND && (fromCall(bo.X, gc) || fromCall(bo.Y, gc)) {
				if z, ok := ssax.ConstInt(cmp.Y); ok && z == 0 {
					op := cmp.Op
					if neg {
						op = ssax.NegOp(op)
					}
					if op == token.NEQ {
						return false // the bit test itself
					}
				}
			}
		}
		return true
	}
	first := to.Instrs[0]
	bad := mayBeTrue(first)
	var tr []ssa.Instruction
	if !bad {
		bad, tr = ssax.Reach(h, first, mayBeTrue, nil, func(a, b *ssa.BasicBlock) bool { return bitTestEdge(a, b, gc) })
	}
	c.Ob("C31.failclosed", key, pos(c, gc), !bad, "with the attribute present the helper can report true without passing the flag-bit test: "+boolStr(bad), trace(c, tr)...)
	// (2) Access
	var calls []ssa.Value
	for _, hc := range ssax.Calls(accessFn) {
		if hc.Common().StaticCallee() == h {
			if v, ok := hc.(ssa.Value); ok {
				calls = append(calls, v)
			}
		}
	}
	okAll := len(calls) > 0
	detail := "Access returns constant false, a helper result, or — where every preceding helper result is known true — anything"
	for _, rp := range boolReturnPoints(accessFn) {
		v, r := rp.v, rp.at
		if k, ok := v.(*ssa.Const); ok && k.Value != nil && k.Value.String() == "false" {
			continue
		}
		trues, _ := ssax.BoolFactsAt(r)
		for _, cv := range calls {
			if v == cv {
				continue
			}
			known := false
			for _, t := range trues {
				if ssax.Strip(t) == cv {
					known = true
				}
			}
			// a helper call that does not precede the return at all (a loop form) is covered by the loop's own exit test
			if !known && ssax.Dominates(cv.(ssa.Instruction), r) {
				okAll = false
				detail = "Access can return " + ssax.Path(v) + " at " + pos(c, r) + " although " + fname(h) + " may have reported false"
			}
		}
	}
	c.Ob("C31.failclosed", fname(accessFn)+"·honours the result of "+fname(h), c.P.Pos(accessFn.Pos()), okAll, detail)
	return true
}

// boolReturnPoints: the values f can return as result 0, each with the point where it is decided: `return a() && b()`
// returns a phi of (false, from the block that evaluated a) and (b's result, from the block that evaluated b) — each
// edge is judged where it comes from, with the facts that hold there.
type retPoint struct {
	v  ssa.Value
	at ssa.Instruction
}

func boolReturnPoints(f *ssa.Function) []retPoint {
	var out []retPoint
	var expand func(v ssa.Value, at ssa.Instruction, d int)
	expand = func(v ssa.Value, at ssa.Instruction, d int) {
		v = ssax.Strip(v)
		if ph, ok := v.(*ssa.Phi); ok && d < 4 {
			if _, isBool := ph.Type().Underlying().(*types.Basic); isBool {
				for i, e := range ph.Edges {
					pred := ph.Block().Preds[i]
					if len(pred.Instrs) == 0 {
						out = append(out, retPoint{v, at})
						return
					}
					expand(e, pred.Instrs[len(pred.Instrs)-1], d+1)
				}
				return
			}
		}
		out = append(out, retPoint{v, at})
	}
	for _, r := range ssax.Returns(f) {
		if r.Block() == f.Recover || len(r.Results) == 0 {
			continue
		}
		expand(ssax.RetVal(r, 0), r, 0)
	}
	return out
}
