package rules

import (
	"fmt"
	"go/ast"
	"go/token"
	"go/types"
	"sort"
	"strings"

	"golang.org/x/tools/go/packages"
	"golang.org/x/tools/go/ssa"

	"verif/internal/codec"
	"verif/internal/core"
	"verif/internal/ssax"
)

func init() { register("C01", c01) }

// codecPair is a type with hand-written Decode and/or Encode methods.
type codecPair struct {
	pkg      *packages.Package
	name     string
	dec, enc *ast.FuncDecl
}

func codecPairs(c *core.Ctx, shorts ...string) []*codecPair {
	m := map[string]*codecPair{}
	for _, sh := range shorts {
		pk := c.P.Lib[sh]
		if pk == nil {
			continue
		}
		for _, file := range pk.Syntax {
			for _, d := range file.Decls {
				fd, ok := d.(*ast.FuncDecl)
				if !ok || fd.Recv == nil || fd.Body == nil || (fd.Name.Name != "Decode" && fd.Name.Name != "Encode") {
					continue
				}
				o, _ := pk.TypesInfo.Defs[fd.Name].(*types.Func)
				if o == nil {
					continue
				}
				sig := o.Type().(*types.Signature)
				rn := derefNamed(sig.Recv().Type())
				if rn == nil {
					continue
				}
				key := sh + "." + rn.Obj().Name()
				cp := m[key]
				if cp == nil {
					cp = &codecPair{pkg: pk, name: key}
					m[key] = cp
				}
				if fd.Name.Name == "Decode" && sig.Params().Len() == 1 {
					cp.dec = fd
				}
				if fd.Name.Name == "Encode" && sig.Params().Len() == 0 {
					cp.enc = fd
				}
			}
		}
	}
	var out []*codecPair
	for _, k := range sortedKeys(m) {
		out = append(out, m[k])
	}
	return out
}

func isBufferType(t types.Type) bool {
	n := derefNamed(t)
	return n != nil && n.Obj().Name() == "Buffer" && n.Obj().Pkg() != nil && strings.HasSuffix(n.Obj().Pkg().Path(), "/ua")
}

// kindTable maps reflect.Kind constants to the Buffer method / helper called
// under `val.Kind() == K` in fn.
func kindTable(fn *ssa.Function) map[int64]string {
	out := map[int64]string{}
	for _, call := range ssax.Calls(fn) {
		cal := ssax.Callee(call)
		if cal == nil {
			continue
		}
		name := cal.Name()
		rn := ""
		if sig, ok := cal.Type().(*types.Signature); ok && sig.Recv() != nil {
			if n := derefNamed(sig.Recv().Type()); n != nil {
				rn = n.Obj().Name()
			}
		}
		isPrim := rn == "Buffer" && (strings.HasPrefix(name, "Read") || strings.HasPrefix(name, "Write"))
		isHelper := cal.Pkg() != nil && strings.HasSuffix(cal.Pkg().Path(), "/ua") && rn == "" && (strings.HasPrefix(name, "decode") || strings.HasPrefix(name, "write") || name == "encode")
		if !isPrim && !isHelper {
			continue
		}
		for _, f := range ssax.FactsAt(call) {
			if f.Op != token.EQL {
				continue
			}
			kc, ok := ssax.Strip(f.X).(*ssa.Call)
			if !ok {
				continue
			}
			if kcal := ssax.Callee(kc); kcal == nil || kcal.Name() != "Kind" {
				continue
			}
			if k, ok := ssax.ConstInt(f.Y); ok {
				out[k] = name
			}
		}
	}
	return out
}

var kindHelperPairs = map[string]string{"decodeSlice": "writeSlice", "decodeArray": "writeArray", "decodeStruct": "writeStruct", "decode": "encode"}

func primSuffix(name string) string {
	s := strings.TrimPrefix(strings.TrimPrefix(name, "Read"), "Write")
	if s == "Byte" {
		s = "Uint8"
	}
	return s
}

// bufferWidth derives the byte width a Buffer primitive consumes / produces.
func bufferWidth(c *core.Ctx, f *ssa.Function, depth int) int64 {
	if f == nil || f.Blocks == nil || depth > 3 {
		return -1
	}
	readN := obj(c, "ua", "Buffer", "ReadN")
	for _, call := range ssax.Calls(f) {
		cal := ssax.Callee(call)
		if cal == nil {
			continue
		}
		if cal == readN {
			if k, ok := ssax.ConstInt(call.Common().Args[1]); ok {
				return k
			}
			return -1
		}
	}
	for _, b := range f.Blocks {
		for _, in := range b.Instrs {
			if mk, ok := in.(*ssa.MakeSlice); ok {
				if k, ok := ssax.ConstInt(mk.Len); ok {
					return k
				}
			}
			if al, ok := in.(*ssa.Alloc); ok && al.Comment == "makeslice" {
				if arr, ok := al.Type().Underlying().(*types.Pointer).Elem().Underlying().(*types.Array); ok {
					return arr.Len()
				}
			}
			if call, ok := in.(*ssa.Call); ok && ssax.IsBuiltin(call, "append") && len(call.Call.Args) == 2 {
				// append(b.buf, oneByte)
				if sl, ok := call.Call.Args[1].(*ssa.Slice); ok {
					if al, ok := sl.X.(*ssa.Alloc); ok {
						if arr, ok := al.Type().Underlying().(*types.Pointer).Elem().Underlying().(*types.Array); ok {
							return arr.Len()
						}
					}
				}
			}
		}
	}
	// delegation to another Buffer primitive
	for _, call := range ssax.Calls(f) {
		if sf := call.Common().StaticCallee(); sf != nil && ssax.ReceiverNamed(sf) != nil && ssax.ReceiverNamed(sf).Obj().Name() == "Buffer" && sf != f {
			n := sf.Name()
			if strings.HasPrefix(n, "Read") || strings.HasPrefix(n, "Write") {
				if w := bufferWidth(c, sf, depth+1); w > 0 {
					return w
				}
			}
		}
	}
	return -1
}

func c01(c *core.Ctx) {
	codec.Resolve = func(f *types.Func) (*ast.FuncDecl, *types.Info) {
		fd, pk := c.P.FuncDecl(f)
		if fd == nil || pk == nil {
			return nil, nil
		}
		return fd, pk.TypesInfo
	}
	initOwners(c)
	c.P.BuildSSA()
	encodeFn := fn(c, "ua", "", "encode")
	decodeFn := fn(c, "ua", "", "decode")
	if encodeFn == nil || decodeFn == nil {
		return
	}
	c.Rule("C01.kinds", "the reflect.Kind switches of ua.encode and ua.decode handle the same kinds, with twin primitives per kind (WriteX ↔ ReadX, writeSlice ↔ decodeSlice …), and both test the custom-codec interface before the time conversion", 15)
	c.Rule("C01.prims", "for every Buffer.WriteX / ReadX twin the byte width agrees, and the NaN canonicalisation constants of reader and writer are the same", 10)
	c.Rule("C01.pairs", "for every type with hand-written Decode and Encode methods the two wire scripts agree step by step: same primitive, same field, same presence guards (mask tests / case labels); a type with only one of the two methods must be on the reviewed list", 15)
	c.Rule("C01.variant", "the four variant tables agree for every built-in type id: variantTypeIDToType, the decodeValue case (primitive P, Go type T), the encodeValue case for T (twin of P) and isBuiltinType", 24)
	c.Rule("C01.closure", "every field type reachable from a registered service / extension-object type is handled by both reflective directions: a kind both switches know, time.Time, a slice/array/pointer/struct of such, or a type that implements both BinaryEncoder and BinaryDecoder", 300)

	// kinds
	{
		enc, dec := kindTable(encodeFn), kindTable(decodeFn)
		kinds := map[int64]bool{}
		for k := range enc {
			kinds[k] = true
		}
		for k := range dec {
			kinds[k] = true
		}
		var ks []int64
		for k := range kinds {
			ks = append(ks, k)
		}
		sort.Slice(ks, func(i, j int) bool { return ks[i] < ks[j] })
		for _, k := range ks {
			e, d := enc[k], dec[k]
			ok := false
			switch {
			case e == "" || d == "":
			case strings.HasPrefix(e, "Write") && strings.HasPrefix(d, "Read"):
				ok = primSuffix(e) == primSuffix(d)
			default:
				ok = kindHelperPairs[d] == e
			}
			c.Ob("C01.kinds", "ua·reflect.Kind("+fmtInt(int(k))+")", "-", ok, "decode: "+orNone(d)+"; encode: "+orNone(e))
		}
		// order of the interface / time tests
		for _, f := range []*ssa.Function{encodeFn, decodeFn} {
			var bin, tim ssa.CallInstruction
			for _, call := range ssax.Calls(f) {
				if cal := ssax.Callee(call); cal != nil {
					if cal.Name() == "isBinaryEncoder" || cal.Name() == "isBinaryDecoder" {
						bin = call
					}
					if cal.Name() == "isTime" {
						tim = call
					}
				}
			}
			ok := bin != nil && tim != nil && ssax.Dominates(bin, tim)
			c.Ob("C01.kinds", fname(f)+"·custom codec tested before time", c.P.Pos(f.Pos()), ok, "isBinary… dominates isTime: "+boolStr(ok))
		}
	}
	// prims
	{
		bufT := c.P.Named("ua", "Buffer")
		mset := map[string]*ssa.Function{}
		for _, f := range libFns(c, "ua") {
			if ssax.ReceiverNamed(f) == bufT && f.Parent() == nil {
				mset[f.Name()] = f
			}
		}
		for _, name := range sortedKeys(mset) {
			if !strings.HasPrefix(name, "Write") {
				continue
			}
			suf := strings.TrimPrefix(name, "Write")
			rname := "Read" + suf
			if suf == "Uint8" {
				rname = "ReadByte"
			}
			if suf == "ByteString" {
				rname = "ReadBytes"
			}
			r := mset[rname]
			if r == nil || suf == "" || suf == "Struct" || suf == "String" || suf == "ByteString" {
				continue
			}
			ww, rw := bufferWidth(c, mset[name], 0), bufferWidth(c, r, 0)
			ok := ww > 0 && ww == rw
			c.Ob("C01.prims", "ua.Buffer·"+name+" ↔ "+rname, c.P.Pos(mset[name].Pos()), ok, "writer width "+fmtInt(int(ww))+", reader width "+fmtInt(int(rw)))
		}
		// NaN constants
		for _, t := range []struct{ r, w string }{{"ReadFloat32", "WriteFloat32"}, {"ReadFloat64", "WriteFloat64"}} {
			rc, wc := nanConst(mset[t.r]), nanConst(mset[t.w])
			ok := rc != "" && rc == wc
			c.Ob("C01.prims", "ua.Buffer·NaN constant "+t.r+" ↔ "+t.w, "-", ok, "reader compares with "+rc+", writer emits "+wc)
		}
	}
	// pairs
	{
		oneSidedOK := map[string]string{
			"uasc.MessageHeader": "receive-only composite header (the sender writes its parts separately)",
			"uasc.MessageChunk":  "receive-only view of a chunk",
			"uasc.Message":       "Encode is EncodeChunks()[0]; Decode is used in tests",
		}
		for _, cp := range codecPairs(c, "ua", "uacp", "uasc") {
			switch {
			case cp.dec != nil && cp.enc != nil:
				d := codec.Script(cp.dec, cp.pkg.TypesInfo, isBufferType, true)
				e := codec.Script(cp.enc, cp.pkg.TypesInfo, isBufferType, false)
				if cp.name == "uasc.Message" {
					c.Ob("C01.pairs", cp.name+"·delegating pair", c.P.Pos(cp.dec.Pos()), true, oneSidedOK[cp.name])
					continue
				}
				if cp.name == "ua.ExtensionObject" {
					d, e = normaliseBodyIdiom(d), normaliseBodyIdiom(e)
				}
				diffs := codec.Compare(d, e)
				if len(diffs) > 0 {
					// part of a codec may have been moved into a private helper method of the same receiver:
					// compare again with such helpers inlined on both sides
					var names []string
					seenN := map[string]bool{}
					for _, st := range append(append([]codec.Step{}, d...), e...) {
						if st.Prim == "Delegate" && st.Callee != "" && !seenN[st.Callee] {
							seenN[st.Callee] = true
							names = append(names, st.Callee)
						}
					}
					for _, n := range names {
						codec.Inline, codec.InlineOnly = true, map[string]bool{n: true}
						d2 := codec.Script(cp.dec, cp.pkg.TypesInfo, isBufferType, true)
						e2 := codec.Script(cp.enc, cp.pkg.TypesInfo, isBufferType, false)
						codec.Inline, codec.InlineOnly = false, nil
						if cp.name == "ua.ExtensionObject" {
							d2, e2 = normaliseBodyIdiom(d2), normaliseBodyIdiom(e2)
						}
						if len(codec.Compare(d2, e2)) == 0 && len(d2) > 0 {
							d, e, diffs = d2, e2, nil
							break
						}
					}
				}
				detail := fmtInt(len(d)) + " decode steps / " + fmtInt(len(e)) + " encode steps agree"
				if len(diffs) > 0 {
					detail = strings.Join(diffs, "; ")
				}
				if len(d) == 0 && len(e) == 0 {
					c.Ob("C01.pairs", cp.name+"·Decode ↔ Encode", c.P.Pos(cp.dec.Pos()), true, "opaque pass-through: neither side touches a Buffer")
					continue
				}
				c.Ob("C01.pairs", cp.name+"·Decode ↔ Encode", c.P.Pos(cp.dec.Pos()), len(diffs) == 0 && len(d) > 0, detail)
			default:
				why, ok := oneSidedOK[cp.name]
				p := token.NoPos
				if cp.dec != nil {
					p = cp.dec.Pos()
				} else {
					p = cp.enc.Pos()
				}
				c.Ob("C01.pairs", cp.name+"·one-sided codec", c.P.Pos(p), ok, "only one of Decode/Encode exists: "+why)
			}
		}
	}
	c01time(c)
	c.Rule("C01.split", "Variant.Decode rebuilds a multi-dimensional array with the step (j-i)/dims[level] — the product of ALL remaining dimensions — in split (C02.loop's obligation on ua.split applies verbatim): any other step agrees for two dimensions and gives a wrong shape or a panic from three on", 1)
	{
		tmp := core.NewCtx(c.Prop, c.Tier, c.P)
		c02(tmp)
		for _, e := range tmp.Errors {
			c.Fatal("%s", e)
		}
		for _, o := range tmp.Obs {
			if o.Rule == "C02.loop" && strings.HasPrefix(o.Key, "ua.split·") {
				c.Ob("C01.split", o.Key, o.Pos, o.OK, o.Detail)
			}
		}
	}
	c01total(c)
	c01variant(c)
	c01closure(c)
}

func orNone(s string) string {
	if s == "" {
		return "(none)"
	}
	return s
}

func nanConst(f *ssa.Function) string {
	if f == nil {
		return ""
	}
	for _, b := range f.Blocks {
		for _, in := range b.Instrs {
			switch x := in.(type) {
			case *ssa.BinOp:
				if x.Op == token.EQL {
					if k, ok := x.Y.(*ssa.Const); ok && k.Value != nil && isNaNBits(k) {
						return k.Value.ExactString()
					}
				}
			case *ssa.Call:
				for _, a := range x.Call.Args {
					if k, ok := a.(*ssa.Const); ok && k.Value != nil && isNaNBits(k) {
						return k.Value.ExactString()
					}
				}
			}
		}
	}
	return ""
}

func isNaNBits(k *ssa.Const) bool {
	s := k.Value.ExactString()
	return s == "4290772992" || s == "18444492273895866368"
}

// normaliseBodyIdiom maps the length-prefixed body idiom of ExtensionObject to
// a common form: after the EncodingMask, [Uint32 <len>][Raw <body>].
func normaliseBodyIdiom(steps []codec.Step) []codec.Step {
	var out []codec.Step
	for _, s := range steps {
		if s.Field != "TypeID" && s.Field != "EncodingMask" {
			s.Field = "<local>"
			if s.Prim == "Raw" {
				s.Width = 0
			}
		}
		out = append(out, s)
	}
	return out
}

// ---------------------------------------------------------------------------

func c01variant(c *core.Ctx) {
	pk := c.P.Lib["ua"]
	info := pk.TypesInfo
	// 1. variantTypeIDToType literal: TypeID const → Go type
	idToType := map[string]string{}
	var decl, decodeValue, encodeValue, isBuiltin *ast.FuncDecl
	for _, file := range pk.Syntax {
		for _, d := range file.Decls {
			switch x := d.(type) {
			case *ast.GenDecl:
				for _, sp := range x.Specs {
					vs, ok := sp.(*ast.ValueSpec)
					if !ok {
						continue
					}
					for i, n := range vs.Names {
						if n.Name != "variantTypeIDToType" || i >= len(vs.Values) {
							continue
						}
						cl, ok := vs.Values[i].(*ast.CompositeLit)
						if !ok {
							continue
						}
						for _, el := range cl.Elts {
							kv := el.(*ast.KeyValueExpr)
							call, ok := kv.Value.(*ast.CallExpr)
							if !ok || len(call.Args) != 1 {
								continue
							}
							if tv, ok := info.Types[call.Args[0]]; ok {
								idToType[types.ExprString(kv.Key)] = types.TypeString(tv.Type, func(*types.Package) string { return "" })
							}
						}
					}
				}
			case *ast.FuncDecl:
				switch x.Name.Name {
				case "decodeValue":
					decodeValue = x
				case "encodeValue":
					encodeValue = x
				case "isBuiltinType":
					isBuiltin = x
				}
			}
		}
	}
	_ = decl
	if len(idToType) == 0 || decodeValue == nil || encodeValue == nil || isBuiltin == nil {
		c.Fatal("C01.variant: variant tables not found (variantTypeIDToType / decodeValue / encodeValue / isBuiltinType)")
		return
	}
	// 2. decodeValue: case TypeIDX → primitive + static type of the returned value
	type decRow struct{ prim, typ string }
	dec := map[string]decRow{}
	ast.Inspect(decodeValue.Body, func(n ast.Node) bool {
		cc, ok := n.(*ast.CaseClause)
		if !ok || len(cc.List) == 0 {
			return true
		}
		row := decRow{}
		ast.Inspect(cc, func(m ast.Node) bool {
			switch y := m.(type) {
			case *ast.CallExpr:
				if sel, ok := y.Fun.(*ast.SelectorExpr); ok && strings.HasPrefix(sel.Sel.Name, "Read") && row.prim == "" {
					row.prim = strings.TrimPrefix(sel.Sel.Name, "Read")
				}
			case *ast.ReturnStmt:
				if len(y.Results) == 1 {
					if tv, ok := info.Types[y.Results[0]]; ok {
						row.typ = types.TypeString(tv.Type, func(*types.Package) string { return "" })
					}
				}
			}
			return true
		})
		for _, e := range cc.List {
			dec[types.ExprString(e)] = row
		}
		return true
	})
	// 3. encodeValue: case T → primitive
	enc := map[string]string{}
	ast.Inspect(encodeValue.Body, func(n ast.Node) bool {
		cc, ok := n.(*ast.CaseClause)
		if !ok || len(cc.List) == 0 {
			return true
		}
		// `case A, B, C:` — one arm for several types: the primitive it calls serves each of them
		for _, e := range cc.List {
			tv, ok := info.Types[e]
			if !ok {
				continue
			}
			typ := types.TypeString(tv.Type, func(*types.Package) string { return "" })
			ast.Inspect(cc, func(m ast.Node) bool {
				if y, ok := m.(*ast.CallExpr); ok {
					if sel, ok := y.Fun.(*ast.SelectorExpr); ok && strings.HasPrefix(sel.Sel.Name, "Write") && enc[typ] == "" {
						enc[typ] = strings.TrimPrefix(sel.Sel.Name, "Write")
					}
				}
				return true
			})
		}
		return true
	})
	// 4. isBuiltinType case list
	builtin := map[string]bool{}
	ast.Inspect(isBuiltin.Body, func(n ast.Node) bool {
		cc, ok := n.(*ast.CaseClause)
		if !ok {
			return true
		}
		for _, e := range cc.List {
			if tv, ok := info.Types[e]; ok {
				builtin[types.TypeString(tv.Type, func(*types.Package) string { return "" })] = true
			}
		}
		return true
	})
	twin := func(r, w string) bool {
		if r == "Byte" {
			r = "Uint8"
		}
		if w == "Byte" {
			w = "Uint8"
		}
		if r == "Bytes" {
			r = "ByteString"
		}
		return r == w
	}
	for _, id := range sortedKeys(idToType) {
		if id == "TypeIDNull" {
			continue
		}
		T := idToType[id]
		d, okd := dec[id]
		w, oke := enc[d.typ]
		if !oke {
			w, oke = enc[normByte(d.typ)]
		}
		var problems []string
		if !okd {
			problems = append(problems, "decodeValue has no case")
		} else {
			if normByte(d.typ) != normByte(T) {
				problems = append(problems, "decodeValue returns "+d.typ+" but the type table says "+T)
			}
			if !oke {
				problems = append(problems, "encodeValue has no case for "+d.typ)
			} else if !twin(d.prim, w) {
				problems = append(problems, "decodeValue reads "+d.prim+" but encodeValue writes "+w)
			}
			if !builtin[T] && !builtin[normByte(T)] {
				problems = append(problems, "isBuiltinType does not list "+T)
			}
		}
		detail := "type " + T + ", read " + d.prim + ", write " + w
		if len(problems) > 0 {
			detail = strings.Join(problems, "; ")
		}
		c.Ob("C01.variant", "ua·"+id, "-", len(problems) == 0, detail)
	}
}

// ---------------------------------------------------------------------------

func c01closure(c *core.Ctx) {
	pk := c.P.Lib["ua"]
	encI := pk.Types.Scope().Lookup("BinaryEncoder").Type().Underlying().(*types.Interface)
	decI := pk.Types.Scope().Lookup("BinaryDecoder").Type().Underlying().(*types.Interface)
	timeT := func(t types.Type) bool {
		n, ok := t.(*types.Named)
		return ok && n.Obj().Pkg() != nil && n.Obj().Pkg().Path() == "time" && n.Obj().Name() == "Time"
	}
	handledKinds := map[types.BasicKind]bool{types.Bool: true, types.Int8: true, types.Uint8: true, types.Int16: true, types.Uint16: true, types.Int32: true, types.Uint32: true, types.Int64: true, types.Uint64: true, types.Float32: true, types.Float64: true, types.String: true}
	// registered types: arguments of RegisterService / RegisterExtensionObject calls (in init functions)
	var roots []types.Type
	c.P.BuildSSA()
	for _, f := range c.P.LibFunctions("ua") {
		for _, call := range ssax.Calls(f) {
			cal := ssax.Callee(call)
			if cal == nil || (cal.Name() != "RegisterService" && cal.Name() != "RegisterExtensionObject" && cal.Name() != "Register") {
				continue
			}
			for _, a := range call.Common().Args {
				if mi, ok := a.(*ssa.MakeInterface); ok {
					if n := derefNamed(mi.X.Type()); n != nil {
						roots = append(roots, mi.X.Type())
					}
				}
			}
		}
	}
	c.Count("registered codec root types", len(roots))
	seen := map[string]bool{}
	var closed func(t types.Type, inHand bool) (bool, string)
	closed = func(t types.Type, inHand bool) (bool, string) {
		key := t.String()
		if seen[key] {
			return true, ""
		}
		seen[key] = true
		// custom codec on this type or its pointer
		var pt types.Type = types.NewPointer(t)
		if _, isPtr := t.(*types.Pointer); isPtr {
			pt = t
		}
		hasE := types.Implements(t, encI) || types.Implements(pt, encI)
		hasD := types.Implements(t, decI) || types.Implements(pt, decI)
		if hasE && hasD {
			return true, ""
		}
		if hasE != hasD {
			return false, key + " implements only one of BinaryEncoder / BinaryDecoder"
		}
		if timeT(t) {
			return true, ""
		}
		switch u := t.Underlying().(type) {
		case *types.Basic:
			if handledKinds[u.Kind()] {
				return true, ""
			}
			return false, key + " has a kind neither reflective switch handles"
		case *types.Pointer:
			return closed(u.Elem(), inHand)
		case *types.Slice:
			return closed(u.Elem(), inHand)
		case *types.Array:
			return closed(u.Elem(), inHand)
		case *types.Struct:
			for i := 0; i < u.NumFields(); i++ {
				if ok, why := closed(u.Field(i).Type(), false); !ok {
					return false, key + "." + u.Field(i).Name() + ": " + why
				}
			}
			return true, ""
		case *types.Interface:
			return false, key + " is an interface field in a reflectively coded struct"
		}
		return false, key + " is not codec-closed"
	}
	for _, r := range roots {
		n := derefNamed(r)
		ok, why := closed(r, false)
		if why == "" {
			why = "all field types are handled by both directions"
		}
		c.Ob("C01.closure", "ua·registered "+n.Obj().Name(), "-", ok, why)
	}
}

func normByte(t string) string {
	if t == "byte" {
		return "uint8"
	}
	return t
}

// c01time: DateTime is the one primitive whose codec is arithmetic. The reader and the writer must use the same epoch
// offset and the same tick length, and the reader must do its arithmetic in a way that survives values before 1970:
// the wire value is unsigned, `ts - epoch` wraps for such values, and only conversion to a signed type (directly or
// after a multiplication, which commutes with the wrap) recovers them — an unsigned division, remainder or shift of
// the wrapped difference does not.
func c01time(c *core.Ctx) { c01timeAs(c, "C01.time") }

func c01timeAs(c *core.Ctx, rule string) {
	c.Rule(rule, "Buffer.ReadTime and Buffer.WriteTime use the same 1601→1970 epoch offset; ReadTime applies no unsigned division, remainder or shift to the epoch-shifted value (which wraps for times before 1970) before it is converted to a signed integer, and WriteTime none to the (negative, for times before 1970) Unix time before the offset was added", 3)
	rd := fn(c, "ua", "Buffer", "ReadTime")
	wr := fn(c, "ua", "Buffer", "WriteTime")
	if rd == nil || wr == nil {
		return
	}
	bigConsts := func(f *ssa.Function) (epoch []int64, ticks []int64) {
		for _, b := range f.Blocks {
			for _, in := range b.Instrs {
				bo, ok := in.(*ssa.BinOp)
				if !ok {
					continue
				}
				for _, side := range []ssa.Value{bo.X, bo.Y} {
					if k, isK := ssax.ConstInt(side); isK {
						switch {
						case k > 1e15 || k < -1e15:
							epoch = append(epoch, k)
						case (bo.Op == token.MUL || bo.Op == token.QUO) && k > 1:
							ticks = append(ticks, k)
						}
					}
				}
			}
		}
		return
	}
	re, rt := bigConsts(rd)
	we, wt := bigConsts(wr)
	same := len(re) > 0 && len(we) > 0
	for _, k := range re {
		if k != we[0] && k != -we[0] {
			same = false
		}
	}
	for _, k := range we {
		if len(re) > 0 && k != re[0] && k != -re[0] {
			same = false
		}
	}
	_, _ = rt, wt
	c.Ob(rule, "ua.Buffer·ReadTime ↔ WriteTime epoch offset", c.P.Pos(rd.Pos()), same, "reader: epoch "+fmt.Sprint(re)+" tick "+fmt.Sprint(rt)+"; writer: epoch "+fmt.Sprint(we)+" tick "+fmt.Sprint(wt))
	// the epoch-shifted unsigned value and what is done to it
	bad := ""
	n := 0
	for _, b := range rd.Blocks {
		for _, in := range b.Instrs {
			sub, ok := in.(*ssa.BinOp)
			if !ok || sub.Op != token.SUB {
				continue
			}
			if k, isK := ssax.ConstInt(sub.Y); !isK || k < 1e15 {
				continue
			}
			bt, isB := sub.Type().Underlying().(*types.Basic)
			if !isB || bt.Info()&types.IsUnsigned == 0 {
				continue // already signed arithmetic
			}
			n++
			seen := map[ssa.Value]bool{}
			var walk func(v ssa.Value)
			walk = func(v ssa.Value) {
				if seen[v] {
					return
				}
				seen[v] = true
				refs := v.Referrers()
				if refs == nil {
					return
				}
				for _, r := range *refs {
					switch x := r.(type) {
					case *ssa.BinOp:
						ut, isU := x.Type().Underlying().(*types.Basic)
						unsignedRes := isU && ut.Info()&types.IsUnsigned != 0
						if unsignedRes && (x.Op == token.QUO || x.Op == token.REM || x.Op == token.SHR) {
							bad = ssax.Path(x) + " at " + pos(c, x)
						}
						if unsignedRes {
							walk(x) // still the wrapped value (e.g. * 100)
						}
					case *ssa.Phi:
						walk(x)
					case *ssa.Convert:
						if ct, ok := x.Type().Underlying().(*types.Basic); ok && ct.Info()&types.IsUnsigned != 0 {
							walk(x)
						}
					}
				}
			}
			walk(sub)
		}
	}
	c.Ob(rule, "ua.Buffer·ReadTime arithmetic survives pre-1970 values", c.P.Pos(rd.Pos()), bad == "", "unsigned division / remainder / shift of the epoch-shifted wire value: "+orNone(bad))
	_ = n
	// the writer: the Unix time is negative before 1970; converted to unsigned before the offset is added it wraps,
	// and a division of the wrapped value is off by centuries
	wbad := ""
	for _, b := range wr.Blocks {
		for _, in := range b.Instrs {
			call, ok := in.(*ssa.Call)
			if !ok {
				continue
			}
			cal := ssax.Callee(call)
			if cal == nil || (cal.Name() != "UnixNano" && cal.Name() != "Unix" && cal.Name() != "UnixMicro" && cal.Name() != "UnixMilli") {
				continue
			}
			seen := map[ssa.Value]bool{}
			var walk func(v ssa.Value, unsigned bool)
			walk = func(v ssa.Value, unsigned bool) {
				if seen[v] {
					return
				}
				seen[v] = true
				refs := v.Referrers()
				if refs == nil {
					return
				}
				for _, r := range *refs {
					switch x := r.(type) {
					case *ssa.Convert:
						ct, ok := x.Type().Underlying().(*types.Basic)
						walk(x, ok && ct.Info()&types.IsUnsigned != 0)
					case *ssa.BinOp:
						if x.Op == token.ADD {
							if k, isK := ssax.ConstInt(x.Y); isK && k > 1e15 {
								continue // the offset is in: from here on the value is non-negative
							}
							if k, isK := ssax.ConstInt(x.X); isK && k > 1e15 {
								continue
							}
						}
						if unsigned && (x.Op == token.QUO || x.Op == token.REM || x.Op == token.SHR) && x.X == v {
							wbad = ssax.Path(x) + " at " + pos(c, x)
						}
						walk(x, unsigned)
					case *ssa.Phi:
						walk(x, unsigned)
					}
				}
			}
			walk(call, false)
		}
	}
	c.Ob(rule, "ua.Buffer·WriteTime arithmetic survives pre-1970 values", c.P.Pos(wr.Pos()), wbad == "", "unsigned division / remainder / shift of the Unix time before the epoch offset was added: "+orNone(wbad))
}


// c01total: the Variant value writer never writes nothing. Variant.encode hands every leaf of a (possibly nested) slice
// value to encodeValue, whose type switch knows the built-in types; a value it has no case for — a [][]byte handed over
// as a whole, a custom type — must be reported through the buffer's sticky error: written silently as zero bytes it
// produces a message whose array length announces elements that are not there.
func c01total(c *core.Ctx) {
	c.Rule("C01.total", "Variant.encodeValue has no path that returns without either writing to the buffer or recording an error: a value of a type it has no case for is reported, not silently encoded as nothing", 1)
	ev := fn(c, "ua", "Variant", "encodeValue")
	errF := field(c, "ua", "Buffer", "err")
	if ev == nil {
		return
	}
	silent, tr := ssax.Reach(ev, nil, func(in ssa.Instruction) bool { _, ok := in.(*ssa.Return); return ok && in.Block() != ev.Recover }, func(in ssa.Instruction) bool {
		switch x := in.(type) {
		case *ssa.Store:
			return true
		case ssa.CallInstruction:
			_ = x
			return true
		}
		return false
	}, func(a, b *ssa.BasicBlock) bool {
		// the edge on which the buffer has already failed: the sticky error says so
		ifi, ok := a.Instrs[len(a.Instrs)-1].(*ssa.If)
		if !ok || errF == nil {
			return false
		}
		cmp, neg, ok := ssax.AsCmp(ifi.Cond)
		if !ok || loadedField(cmp.X).f != errF || !ssax.IsNil(cmp.Y) {
			return false
		}
		op := cmp.Op
		if neg {
			op = ssax.NegOp(op)
		}
		return (op == token.NEQ && b == a.Succs[0]) || (op == token.EQL && b == a.Succs[1])
	})
	c.Ob("C01.total", fname(ev)+"·no silent arm", c.P.Pos(ev.Pos()), !silent, "a path through the type switch returns without any write or error: "+boolStr(silent), trace(c, tr)...)
}
