package rules

import (
	"go/token"
	"go/types"
	"strings"

	"golang.org/x/tools/go/ssa"

	"verif/internal/core"
	"verif/internal/ssax"
)

func init() { register("C06", c06) }

func c06(c *core.Ctx) {
	initOwners(c)
	setMax := obj(c, "uasc", "channelInstance", "SetMaximumBodySize")
	connSend := fn(c, "uacp", "Conn", "Send")
	connWrite := obj(c, "uacp", "Conn", "Write")
	maxMsg := obj(c, "uacp", "Conn", "MaxMessageSize")
	maxChunks := obj(c, "uacp", "Conn", "MaxChunkCount")
	recv := fn(c, "uasc", "SecureChannel", "Receive")
	decodeSvc := obj(c, "ua", "", "DecodeService")
	ackRecv := field(c, "uacp", "Acknowledge", "ReceiveBufSize")
	ackSend := field(c, "uacp", "Acknowledge", "SendBufSize")
	helRecv := field(c, "uacp", "Hello", "ReceiveBufSize")
	chunksF := field(c, "uasc", "SecureChannel", "chunks")
	if setMax == nil || connSend == nil || connWrite == nil || maxMsg == nil || maxChunks == nil || recv == nil || decodeSvc == nil || ackRecv == nil || ackSend == nil || helRecv == nil || chunksF == nil {
		return
	}
	c.Rule("C06.consume", "every limit the peer advertises is consumed: each of ReceiveBufSize, SendBufSize, MaxMessageSize, MaxChunkCount of the decoded Hello (server side) and Acknowledge (client side) is read somewhere outside its codec, String/debug printing and the construction of the outgoing message", 8)
	c.Rule("C06.direction", "the value that bounds the size of outgoing chunks (argument of SetMaximumBodySize, and the comparison in Conn.Send) has a data-flow source in the receive-buffer size the peer advertised (Acknowledge.ReceiveBufSize on the client, Hello.ReceiveBufSize on the server), not in a send-buffer size", 4)
	c.Rule("C06.sendlimit", "every function that writes message chunks compares what it is about to send with the negotiated MaxMessageSize and MaxChunkCount before the first Write, with an error return on the failing edge", 2)
	c.Rule("C06.recvlimit", "on the receive side, buffering an intermediate chunk is followed by a MaxChunkCount comparison with an error path, and DecodeService is dominated by a MaxMessageSize comparison of the merged message", 2)

	c.Rule("C06.accept", "each side accepts every chunk up to the size it advertised: the size tests of Conn.Receive reject exactly MessageSize > Acknowledge.ReceiveBufSize and MessageSize < hdrlen — no `>=`, no other bound", 3)
	c06Accept(c, "C06.accept")
	c06Overhead(c, "C06.overhead")

	cg := c.P.CallGraph()
	// consume
	for _, t := range [][2]string{{"Hello", "ReceiveBufSize"}, {"Hello", "SendBufSize"}, {"Hello", "MaxMessageSize"}, {"Hello", "MaxChunkCount"}, {"Acknowledge", "ReceiveBufSize"}, {"Acknowledge", "SendBufSize"}, {"Acknowledge", "MaxMessageSize"}, {"Acknowledge", "MaxChunkCount"}} {
		fl := field(c, "uacp", t[0], t[1])
		if fl == nil {
			continue
		}
		var readers []string
		for _, f := range libFns(c) {
			rn := ssax.ReceiverNamed(f)
			if rn != nil && rn.Obj().Name() == t[0] {
				continue // codec / String of the type itself
			}
			for _, a := range ssax.FieldAccesses(f, fl) {
				if a.Kind != ssax.Read {
					continue
				}
				// reads that only feed the construction of an outgoing Hello/ACK literal do not consume a peer value
				if onlyFeedsStoreInto(a.Use, "Hello") {
					continue
				}
				readers = append(readers, fname(f))
			}
		}
		c.Ob("C06.consume", "uacp."+t[0]+"."+t[1]+"·consumed", "-", len(readers) > 0, "read by: "+strings.Join(uniq(readers), ", ")+" — an advertised limit nobody reads cannot be honoured")
	}
	// direction
	for _, f := range libFns(c, "uasc") {
		for _, call := range ssax.CallsTo(f, setMax) {
			arg := call.Common().Args[1]
			src := limitSources(arg, cg, c.Depth)
			// which field is "the receive size the peer advertised" depends on the side: the client holds the
			// server's Acknowledge, the server (the only side that handles OpenSecureChannel *requests*) its own
			// Acknowledge and the client's Hello
			// the call may have been moved into a private helper shared by the three handlers: the obligation (and the
			// identity of a recorded finding) belongs to the handler, i.e. to each function that calls the helper
			// (a straight-line function that is handed the instance it configures is such a wrapper; anything with
			// control flow of its own is a step of the protocol and keeps the obligation)
			owners := []*ssa.Function{f}
			if _, handed := ssax.Strip(call.Common().Args[0]).(*ssa.Parameter); handed && len(f.Blocks) == 1 {
				if cs := ssax.PrivateCallers(f); len(cs) > 0 {
					owners = nil
					for _, cc := range cs {
						dup := false
						for _, u := range owners {
							dup = dup || u == cc.Parent()
						}
						if !dup {
							owners = append(owners, cc.Parent())
						}
					}
				}
			}
			for _, o := range owners {
				serverSide := o.Name() == "handleOpenSecureChannelRequest"
				ok := src[ackRecv] && !serverSide || src[helRecv] && serverSide
				want := "Acknowledge.ReceiveBufSize of the server's ACK"
				if serverSide {
					want = "Hello.ReceiveBufSize of the client"
				}
				// the source is part of the finding's identity: replacing one wrong bound by another is a new finding
				c.Ob("C06.direction", fname(o)+"·SetMaximumBodySize(bound ← "+srcNames(src)+")", pos(c, call), ok, "bound flows from: "+srcNames(src)+" — required: "+want)
			}
		}
	}
	{
		// Conn.Send: the comparison that limits an outgoing UACP message
		n := 0
		for _, b := range connSend.Blocks {
			for _, in := range b.Instrs {
				bo, ok := in.(*ssa.BinOp)
				if !ok || (bo.Op != token.GTR && bo.Op != token.LSS && bo.Op != token.GEQ && bo.Op != token.LEQ) {
					continue
				}
				src := limitSources(bo.Y, cg, c.Depth)
				for k, v := range limitSources(bo.X, cg, c.Depth) {
					src[k] = src[k] || v
				}
				if len(src) == 0 {
					continue
				}
				n++
				ok2 := src[ackRecv] || src[helRecv]
				c.Ob("C06.direction", fname(connSend)+"·outgoing size comparison", pos(c, bo), ok2, "compares with: "+srcNames(src))
			}
		}
		if n == 0 {
			c.Ob("C06.direction", fname(connSend)+"·outgoing size comparison", c.P.Pos(connSend.Pos()), false, "Conn.Send no longer bounds the outgoing message")
		}
	}
	// sendlimit
	for _, f := range libFns(c, "uasc") {
		writes := ssax.CallsTo(f, connWrite)
		if len(writes) == 0 {
			continue
		}
		hasMsg, hasCnt := false, false
		for _, w := range writes {
			for _, fact := range ssax.FactsAt(w) {
				for _, side := range []ssa.Value{fact.X, fact.Y} {
					if syn, isSyn := side.(*ssax.Synth); isSyn && syn.Orig != nil {
						side = syn.Orig // established in a caller / helper
					}
					if call, ok := ssax.Strip(side).(*ssa.Call); ok {
						if ssax.Callee(call) == maxMsg {
							hasMsg = true
						}
						if ssax.Callee(call) == maxChunks {
							hasCnt = true
						}
					}
				}
			}
		}
		c.Ob("C06.sendlimit", sendPathKind(c, f)+"·limits checked before Write", pos(c, writes[0]), hasMsg && hasCnt, "Write dominated by a MaxMessageSize comparison: "+boolStr(hasMsg)+"; by a MaxChunkCount comparison: "+boolStr(hasCnt)+" — an over-limit message is put on the wire instead of being refused")
	}
	// recvlimit
	{
		// DecodeService dominated by MaxMessageSize fact
		for _, call := range ssax.CallsTo(recv, decodeSvc) {
			ok := false
			for _, fact := range ssax.FactsAt(call) {
				for _, side := range []ssa.Value{fact.X, fact.Y} {
					if cv, isCall := ssax.Strip(side).(*ssa.Call); isCall && ssax.Callee(cv) == maxMsg && (fact.Op == token.LEQ || fact.Op == token.LSS || fact.Op == token.GEQ || fact.Op == token.GTR) {
						ok = true
					}
				}
			}
			c.Ob("C06.recvlimit", fname(recv)+"·DecodeService after MaxMessageSize check", pos(c, call), ok, "merged message compared with MaxMessageSize before decoding: "+boolStr(ok))
		}
		// chunk count check after buffering
		for _, s := range ssax.ContainerSites(recv, chunksF) {
			if s.Kind != ssax.MapStore || !isAppendOf(s.Val) {
				continue
			}
			// a later If comparing with MaxChunkCount whose true/false edge returns an error
			found := false
			for _, b := range recv.Blocks {
				ifi, ok := b.Instrs[len(b.Instrs)-1].(*ssa.If)
				if !ok || !ssax.Dominates(s.Instr, ifi) {
					continue
				}
				cmp, _, ok := ssax.AsCmp(ifi.Cond)
				if !ok {
					continue
				}
				for _, side := range []ssa.Value{cmp.X, cmp.Y} {
					if cv, isCall := ssax.Strip(side).(*ssa.Call); isCall && ssax.Callee(cv) == maxChunks {
						found = true
					}
				}
			}
			c.Ob("C06.recvlimit", fname(recv)+"·chunk count checked after buffering", pos(c, s.Instr), found, "number of buffered chunks compared with MaxChunkCount: "+boolStr(found))
		}
	}
}

// onlyFeedsStoreInto: the loaded value is only stored into a field of a struct
// of the given type name (construction of an outgoing message).
func onlyFeedsStoreInto(use ssa.Instruction, typeName string) bool {
	v, ok := use.(ssa.Value)
	if !ok {
		return false
	}
	refs := v.Referrers()
	if refs == nil || len(*refs) == 0 {
		return false
	}
	for _, r := range *refs {
		st, ok := r.(*ssa.Store)
		if !ok {
			if _, dbg := r.(*ssa.DebugRef); dbg {
				continue
			}
			return false
		}
		fa, ok := st.Addr.(*ssa.FieldAddr)
		if !ok {
			return false
		}
		n := derefNamed(fa.X.Type())
		if n == nil || n.Obj().Name() != typeName {
			return false
		}
	}
	return true
}

// limitSources: the struct fields v is loaded from, through accessor calls.
func limitSources(v ssa.Value, cg any, depth int) map[*types.Var]bool {
	out := map[*types.Var]bool{}
	seen := map[ssa.Value]bool{}
	var walk func(v ssa.Value, d int)
	walk = func(v ssa.Value, d int) {
		v = ssax.Strip(v)
		if v == nil || d > 8 || seen[v] {
			return
		}
		seen[v] = true
		if ld := loadedField(v); ld.f != nil {
			out[ld.f] = true
			return
		}
		switch x := v.(type) {
		case *ssa.Call:
			if sf := x.Call.StaticCallee(); sf != nil && sf.Blocks != nil {
				for _, r := range ssax.Returns(sf) {
					for i := range r.Results {
						walk(ssax.RetVal(r, i), d+1)
					}
				}
			}
		case *ssa.BinOp:
			walk(x.X, d+1)
			walk(x.Y, d+1)
		case *ssa.Phi:
			for _, e := range x.Edges {
				walk(e, d+1)
			}
		case *ssa.Extract:
			walk(x.Tuple, d+1)
		}
	}
	walk(v, 0)
	return out
}

func srcNames(m map[*types.Var]bool) string {
	var s []string
	for k := range m {
		s = append(s, ssax.FieldString(k))
	}
	if len(s) == 0 {
		return "(no limit field)"
	}
	return strings.Join(uniq(sortStrings(s)), ", ")
}

func sortStrings(s []string) []string {
	for i := range s {
		for j := i + 1; j < len(s); j++ {
			if s[j] < s[i] {
				s[i], s[j] = s[j], s[i]
			}
		}
	}
	return s
}

// sendPathKind names a chunk-writing function by the exported send API it serves — "request send path" (reached from
// SendRequest*), "response send path" (reached from SendResponse* / SendMsg*) — so that a finding about the send path
// keeps its identity when the write loop is moved into, or merged with, a helper.
func sendPathKind(c *core.Ctx, f *ssa.Function) string {
	cg := c.P.CallGraph()
	seen := map[*ssa.Function]bool{}
	req, resp := false, false
	var up func(g *ssa.Function, d int)
	up = func(g *ssa.Function, d int) {
		if seen[g] || d > 6 {
			return
		}
		seen[g] = true
		if o := g.Object(); o != nil && o.Exported() && shortOf(g) == "uasc" {
			n := g.Name()
			if strings.Contains(n, "Request") || n == "Open" || n == "Renew" || n == "Close" {
				req = true
			}
			if strings.Contains(n, "Response") || strings.Contains(n, "Msg") {
				resp = true
			}
		}
		if n := cg.Nodes[g]; n != nil {
			for _, e := range n.In {
				if e.Caller.Func != nil && shortOf(e.Caller.Func) == "uasc" {
					up(e.Caller.Func, d+1)
				}
			}
		}
	}
	up(f, 0)
	switch {
	case req && resp:
		return "uasc·request and response send path"
	case req:
		return "uasc·request send path"
	case resp:
		return "uasc·response send path"
	}
	return fname(f)
}
