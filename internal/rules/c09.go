package rules

import (
	"go/token"
	"go/types"

	"golang.org/x/tools/go/ssa"

	"verif/internal/core"
	"verif/internal/ssax"
)

func init() { register("C09", c09) }

// C09 — tampered / truncated / forged chunks rejected: verify before use.
func c09(c *core.Ctx) {
	initOwners(c)
	c.P.BuildSSA()
	ivad := fn(c, "uasc", "channelInstance", "verifyAndDecrypt")
	svad := fn(c, "uasc", "SecureChannel", "verifyAndDecrypt")
	readChunk := fn(c, "uasc", "SecureChannel", "readChunk")
	verifySig := obj(c, "uapolicy", "EncryptionAlgorithm", "VerifySignature")
	secMode := field(c, "uasc", "Config", "SecurityMode")
	dataF := field(c, "uasc", "MessageChunk", "Data")
	seqDecode := obj(c, "uasc", "SequenceHeader", "Decode")
	if ivad == nil || svad == nil || readChunk == nil || verifySig == nil || secMode == nil || dataF == nil || seqDecode == nil {
		return
	}
	modeNone := enumConst(c, "ua", "MessageSecurityModeNone")

	c.Rule("C09.verify", "in channelInstance.verifyAndDecrypt every return of non-nil plaintext is dominated by the err==nil edge of VerifySignature, except returns guarded by cfg.SecurityMode == None", 2)
	c.Rule("C09.flow", "in readChunk the chunk that is returned, and the bytes handed to SequenceHeader.Decode, are the result of verifyAndDecrypt on its err==nil edge (the raw frame data never escapes for MSG/OPN)", 2)
	c.Rule("C09.select", "SecureChannel.verifyAndDecrypt returns data only as the result of a per-instance verifyAndDecrypt call (passed through directly, or on that call's err==nil edge)", 2)
	c.Rule("C09.mac", "symmetric signatures are compared with hmac.Equal; package uapolicy contains no bytes.Equal / bytes.Compare / reflect.DeepEqual / subtle-free == comparison of signature bytes", 1)
	c.Rule("C09.sigerr", "every implementation of the signature-verification interface returns a non-nil error unless the library verification primitive it calls succeeded (no verify function returns nil on the failing edge)", 4)

	// C09.bounds
	{
		c.Rule("C09.bounds", "the slice arithmetic of verifyAndDecrypt with the signature length and the padding size is in bounds for every chunk length: a chunk truncated to any length, or carrying any padding byte, yields a security error and never a panic", 6)
		installMinLenHook(c)
		installConsumedHook(c)
		var sites []ssax.BoundsSite
		for _, g := range withHelpers(ivad) {
			if shortOf(g) == "uasc" {
				sites = append(sites, ssax.CheckBounds(g, byteSlice)...)
			}
		}
		for _, site := range sites {
			if len(site.Issues) == 0 {
				c.Ob("C09.bounds", fname(ivad)+"·"+site.Expr, pos(c, site.At), true, "in bounds")
				continue
			}
			for _, is := range site.Issues {
				c.Ob("C09.bounds", fname(ivad)+"·"+site.Expr+" ("+is.Kind+")", pos(c, site.At), false, "needs "+is.Need+", which no dominating comparison establishes: a truncated or over-padded chunk panics the receiver")
			}
		}
		ssax.MinLenHook, ssax.ConsumedHook, ssax.MinCapHook = nil, nil, nil
	}

	// C09.verify
	var vcall ssa.CallInstruction
	for _, call := range ssax.CallsTo(ivad, verifySig) {
		vcall = call
	}
	for _, ret := range ssax.Returns(ivad) {
		if isNilResult(ret, 0) {
			continue
		}
		key := fname(ivad) + "·return plaintext"
		if vcall != nil && okEdge(ret, vcall) {
			c.Ob("C09.verify", key, pos(c, ret), true, "dominated by VerifySignature err==nil")
			continue
		}
		unsec := false
		for _, f := range ssax.FactsAt(ret) {
			if f.Op == token.EQL && loadedField(f.X).f == secMode {
				if k, ok := ssax.ConstInt(f.Y); ok && modeNone != nil && k == *modeNone {
					unsec = true
				}
			}
		}
		if unsec {
			c.Ob("C09.verify", key, pos(c, ret), true, "unsecured carve-out guarded by SecurityMode == None")
		} else {
			c.Ob("C09.verify", key, pos(c, ret), false, "plaintext is returned on a path that neither verified the signature nor is guarded by SecurityMode == None")
		}
	}
	if vcall == nil {
		c.Ob("C09.verify", fname(ivad)+"·calls VerifySignature", c.P.Pos(ivad.Pos()), false, "verifyAndDecrypt no longer calls VerifySignature")
	}

	// C09.flow
	{
		svadObj := svad.Object().(*types.Func)
		verifying := verifyingHelpers(libFns(c, "uasc"), svadObj)
		vcalls := verifyCallsIn(readChunk, svadObj, verifying)
		// the function that calls verifyAndDecrypt directly (readChunk, or a private helper of it)
		var call ssa.CallInstruction
		inner := readChunk
		for _, g := range withHelpers(readChunk) {
			for _, cl := range ssax.CallsTo(g, svadObj) {
				call, inner = cl, g
			}
		}
		if call == nil || len(vcalls) == 0 {
			c.Ob("C09.flow", fname(readChunk)+"·calls verifyAndDecrypt", c.P.Pos(readChunk.Pos()), false, "readChunk does not call verifyAndDecrypt (directly or through a helper whose nil error implies it succeeded)")
		} else {
			for _, ret := range ssax.Returns(readChunk) {
				if isNilResult(ret, 0) {
					continue
				}
				ok := false
				for _, vc := range vcalls {
					if okEdge(ret, vc) {
						ok = true
					}
				}
				c.Ob("C09.flow", fname(readChunk)+"·return chunk", pos(c, ret), ok, "returned chunk dominated by verifyAndDecrypt err==nil: "+boolStr(ok))
			}
			// m.Data = result#0 store dominating SequenceHeader.Decode(m.Data)
			data := result(call, 0)
			var st *ssa.Store
			for _, a := range ssax.FieldAccesses(inner, dataF) {
				if s, ok := a.Use.(*ssa.Store); ok && a.Kind == ssax.Write && denotes(s.Val, data) {
					st = s
				}
			}
			for _, dc := range ssax.CallsTo(inner, seqDecode) {
				arg := dc.Common().Args[len(dc.Common().Args)-1]
				ok := false
				detail := ""
				if denotes(arg, data) && okEdge(dc, call) {
					ok = true
					detail = "decodes the verified plaintext directly"
				} else if loadedField(arg).f == dataF && st != nil && ssax.Dominates(st, dc) && okEdge(dc, call) {
					ok = true
					detail = "m.Data was overwritten with the verified plaintext before decoding"
				} else {
					detail = "SequenceHeader.Decode reads bytes that are not the result of verifyAndDecrypt"
				}
				c.Ob("C09.flow", fname(readChunk)+"·SequenceHeader.Decode input", pos(c, dc), ok, detail)
			}
			if st == nil {
				c.Ob("C09.flow", fname(readChunk)+"·m.Data = verified", pos(c, call), false, "the verified plaintext is not stored into the chunk: the raw frame data escapes")
			}
		}
	}

	// C09.blocks: CBC works on whole blocks only; crypto/cipher panics otherwise
	{
		c.Rule("C09.blocks", "every (cipher.BlockMode).CryptBlocks(dst, src) in package uapolicy is dominated by `len(src) % blockSize == 0`: a chunk truncated to a length that is not a multiple of the block size yields a security error, not the `input not full blocks` panic of crypto/cipher in the receive goroutine", 2)
		wholeBlocks := func(at ssa.Instruction, src string) bool {
			for _, fact := range ssax.FactsAt(at) {
				x, y, op := fact.X, fact.Y, fact.Op
				if _, isK := ssax.ConstInt(x); isK {
					x, y, op = y, x, ssax.SwapOp(op)
				}
				k, isK := ssax.ConstInt(y)
				bo, isRem := ssax.Strip(x).(*ssa.BinOp)
				if !isK || !isRem || bo.Op != token.REM {
					continue
				}
				if ssax.Path(bo.X) != "len("+src+")" {
					continue
				}
				if (op == token.EQL && k == 0) || (op == token.LEQ && k == 0) || (op == token.LSS && k == 1) {
					return true
				}
			}
			return false
		}
		// the call may sit in a private helper that is handed the checked slice: then the obligation is one per
		// call site of the helper (the check belongs to whoever received the data)
		var check func(at ssa.CallInstruction, src ssa.Value, depth int)
		check = func(at ssa.CallInstruction, src ssa.Value, depth int) {
			f := at.Parent()
			sp := ssax.Path(src)
			ok := wholeBlocks(at, sp)
			if !ok && depth < 2 {
				if par, isPar := ssax.Strip(src).(*ssa.Parameter); isPar {
					idx := -1
					for i, q := range f.Params {
						if q == par {
							idx = i
						}
					}
					if callers := ssax.PrivateCallers(f); idx >= 0 && len(callers) > 0 {
						for _, cc := range callers {
							if idx < len(cc.Call.Args) {
								check(cc, cc.Call.Args[idx], depth+1)
							}
						}
						return
					}
				}
			}
			c.Ob("C09.blocks", fname(f)+"·CryptBlocks("+sp+")", pos(c, at), ok, "len("+sp+") is a multiple of the block size on every path to the call: "+boolStr(ok))
		}
		for _, f := range libFns(c, "uapolicy") {
			for _, call := range ssax.Calls(f) {
				cc := call.Common()
				if !cc.IsInvoke() || cc.Method.Name() != "CryptBlocks" || len(cc.Args) != 2 {
					continue
				}
				check(call, cc.Args[1], 0)
			}
		}
	}

	// C09.select
	{
		ivadObj := ivad.Object().(*types.Func)
		calls := ssax.CallsTo(svad, ivadObj)
		for _, ret := range ssax.Returns(svad) {
			if isNilResult(ret, 0) {
				continue
			}
			ok := false
			for _, call := range calls {
				r0 := result(call, 0)
				if denotes(ssax.RetVal(ret, 0), r0) || denotes(ssax.RetVal(ret, 0), call.(ssa.Value)) {
					// direct pass-through `return inst.verifyAndDecrypt(...)`: both results from the same call
					if len(ret.Results) == 2 && denotes(ssax.RetVal(ret, 1), errResult(call)) {
						ok = true
					}
					if okEdge(ret, call) {
						ok = true
					}
				}
			}
			c.Ob("C09.select", fname(svad)+"·return data", pos(c, ret), ok, "data returned only from a successful per-instance verification: "+boolStr(ok))
		}
	}

	// C09.mac + C09.sigerr
	{
		pk := c.P.Lib["uapolicy"]
		bad := 0
		hmacEq := 0
		for _, f := range libFns(c, "uapolicy") {
			for _, call := range ssax.Calls(f) {
				cal := ssax.Callee(call)
				if cal == nil || cal.Pkg() == nil {
					continue
				}
				full := cal.Pkg().Path() + "." + cal.Name()
				switch full {
				case "bytes.Equal", "bytes.Compare", "reflect.DeepEqual", "slices.Equal":
					bad++
					c.Ob("C09.mac", fname(f)+"·"+full, pos(c, call), false, "non-constant-time / non-MAC comparison in the crypto package")
				case "crypto/hmac.Equal":
					hmacEq++
					c.Ob("C09.mac", fname(f)+"·hmac.Equal", pos(c, call), true, "MAC compared with hmac.Equal")
				}
			}
		}
		if hmacEq == 0 {
			c.Ob("C09.mac", "uapolicy·hmac.Equal", "-", false, "no hmac.Equal call left in uapolicy: symmetric signatures are not compared by the MAC primitive")
		}
		_ = pk
		// every Verify(msg, sig) error method in uapolicy
		for _, f := range libFns(c, "uapolicy") {
			if f.Name() != "Verify" || f.Signature.Recv() == nil || f.Signature.Results().Len() != 1 {
				continue
			}
			recv := ssax.ReceiverNamed(f)
			if recv != nil && recv.Obj().Name() == "None" {
				c.Ob("C09.sigerr", fname(f)+"·nil returns", c.P.Pos(f.Pos()), true, "the None policy verifies nothing by definition (reachable only under SecurityMode None / policy None)")
				continue
			}
			// each `return nil` must be dominated by a success fact: err==nil of a
			// library verify call, or hmac.Equal true
			okAll := true
			detail := "every nil return follows a successful primitive"
			n := 0
			for _, ret := range ssax.Returns(f) {
				if !ssax.IsNil(ssax.RetVal(ret, 0)) {
					// returning the primitive's error directly is fine
					continue
				}
				n++
				good := false
				for _, call := range ssax.Calls(f) {
					cal := ssax.Callee(call)
					if cal == nil || cal.Pkg() == nil {
						continue
					}
					switch cal.Pkg().Path() + "." + cal.Name() {
					case "crypto/rsa.VerifyPKCS1v15", "crypto/rsa.VerifyPSS":
						if okEdge(ret, call) {
							good = true
						}
					case "crypto/hmac.Equal":
						tr, _ := ssax.BoolFactsAt(ret)
						for _, v := range tr {
							if v == call.(ssa.Value) {
								good = true
							}
						}
					}
				}
				if !good {
					okAll = false
					detail = "a `return nil` is not dominated by the success edge of rsa.VerifyPKCS1v15 / rsa.VerifyPSS / hmac.Equal"
				}
			}
			if n == 0 {
				// returns primitive's error directly
				direct := false
				for _, ret := range ssax.Returns(f) {
					for _, o := range ssax.Origins(ssax.RetVal(ret, 0), nil, 0) {
						if o.Call != nil && o.Call.Pkg() != nil && o.Call.Pkg().Path() == "crypto/rsa" {
							direct = true
						}
					}
				}
				if !direct {
					okAll = false
					detail = "verification result does not come from a library verification primitive"
				} else {
					detail = "returns the primitive's error directly"
				}
			}
			c.Ob("C09.sigerr", fname(f)+"·nil returns", c.P.Pos(f.Pos()), okAll, detail)
		}
	}
}

func enumConst(c *core.Ctx, short, name string) *int64 { return constOf(c, short, name) }
