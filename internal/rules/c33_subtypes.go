package rules

import (
	"go/types"

	"golang.org/x/tools/go/ssa"

	"verif/internal/core"
	"verif/internal/ssax"
)

// c33Subtypes: the subtype closure consulted by the reference-type filter spans all namespaces.
//
// Reference types of one HasSubtype chain may live in different namespaces (a vendor type below a namespace-0 type,
// with further subtypes of its own). The walk is right only if every visited type node is looked up in the namespace
// that its own NodeID names. Obligation, for every NameSpace.Node(x) call in the functions reachable from
// suitableRefType: the NameSpace value is the result of a Server.Namespace(int(y.Namespace())) call in the same
// function with y the very value x (resolving it once and handing it down a recursion that changes x is the defect).
func c33Subtypes(c *core.Ctx) {
	c.Rule("C33.subtypes", "in the subtype walk behind IncludeSubtypes every NameSpace.Node(id) lookup goes to the namespace resolved from that same id (Server.Namespace(int(id.Namespace())) in the same function, or Server.Node(id)); a namespace value handed down the recursion cuts the closure off at the first namespace boundary", 1)
	root := fn(c, "server", "", "suitableRefType")
	srvNamespace := obj(c, "server", "Server", "Namespace")
	nsIface := c.P.Named("server", "NameSpace")
	if root == nil || srvNamespace == nil || nsIface == nil {
		return
	}
	scope := reachableFrom(c, []*ssa.Function{root}, "server")
	n := 0
	var fns []*ssa.Function
	for f := range scope {
		fns = append(fns, f)
	}
	sortFns(fns)
	for _, f := range fns {
		for _, call := range ssax.Calls(f) {
			cc := call.Common()
			if !cc.IsInvoke() || cc.Method.Name() != "Node" || len(cc.Args) != 1 {
				continue
			}
			if named, ok := cc.Value.Type().(*types.Named); !ok || named != nsIface {
				continue
			}
			n++
			x := ssax.Strip(cc.Args[0])
			ok := false
			detail := "the namespace value is not the result of Server.Namespace(...) in this function: " + ssax.Path(cc.Value)
			for _, o := range ssax.Origins(cc.Value, nil, 0) {
				if o.Call != srvNamespace {
					continue
				}
				nsCall, isCall := ssax.Strip(o.CallV).(*ssa.Call)
				if !isCall {
					if ex, isEx := ssax.Strip(o.CallV).(*ssa.Extract); isEx {
						nsCall, isCall = ex.Tuple.(*ssa.Call)
					}
				}
				if !isCall || nsCall.Parent() != f {
					continue
				}
				args := nsCall.Call.Args
				idx := ssax.Strip(args[len(args)-1])
				// int(y.Namespace())
				if cv, isCv := idx.(*ssa.Convert); isCv {
					idx = ssax.Strip(cv.X)
				}
				if nc, isNC := idx.(*ssa.Call); isNC {
					if cal := ssax.Callee(nc); cal != nil && cal.Name() == "Namespace" && len(nc.Call.Args) == 1 {
						y := ssax.Strip(nc.Call.Args[0])
						if y == x || ssax.Path(y) == ssax.Path(x) {
							ok = true
							detail = "namespace resolved from the looked-up id itself"
						} else {
							detail = "the namespace is resolved from " + ssax.Path(y) + " but the node looked up is " + ssax.Path(x)
						}
					}
				}
			}
			c.Ob("C33.subtypes", fname(f)+"·NameSpace.Node("+ssax.Path(x)+")", pos(c, call), ok, detail)
		}
	}
	c.Count("NameSpace.Node lookups in the subtype walk", n)
}
