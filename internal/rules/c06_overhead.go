package rules

import (
	"go/token"

	"golang.org/x/tools/go/ssa"

	"verif/internal/core"
	"verif/internal/ssax"
)

// c06Overhead: the body size a channel instance puts into one chunk leaves room for everything signAndEncrypt adds.
//
// signAndEncrypt appends the signature in every mode but None (the policy None reports a signature length of 0, so the
// general formula covers it). A "fast path" that computes the body size from the header sizes alone is right for
// None and 20 / 32 bytes too generous for Sign: every full chunk then exceeds the size the peer advertised. The rule:
// every value stored into channelInstance.maxBodySize has algo.SignatureLength() among the terms it subtracts, unless
// the store is dominated by `SecurityMode == None`.
func c06Overhead(c *core.Ctx, rule string) {
	c.Rule(rule, "every value stored into channelInstance.maxBodySize subtracts the signature length of the channel's algorithm (signAndEncrypt appends the signature in every mode but None), unless the store is reached only with SecurityMode == None: a body size computed from the header sizes alone makes every full Sign-mode chunk longer than the negotiated chunk size", 1)
	maxBody := field(c, "uasc", "channelInstance", "maxBodySize")
	secMode := field(c, "uasc", "Config", "SecurityMode")
	if maxBody == nil || secMode == nil {
		return
	}
	// terms subtracted anywhere in the expression tree
	var subtracted func(v ssa.Value, d int, out *[]ssa.Value)
	subtracted = func(v ssa.Value, d int, out *[]ssa.Value) {
		if d > 8 {
			return
		}
		switch x := ssax.Strip(v).(type) {
		case *ssa.BinOp:
			if x.Op == token.SUB {
				*out = append(*out, x.Y)
				subtracted(x.X, d+1, out)
				// a subtrahend that is itself a sum: each summand is subtracted
				var sum func(w ssa.Value, e int)
				sum = func(w ssa.Value, e int) {
					if bo, ok := ssax.Strip(w).(*ssa.BinOp); ok && bo.Op == token.ADD && e < 4 {
						*out = append(*out, bo.X, bo.Y)
						sum(bo.X, e+1)
						sum(bo.Y, e+1)
					}
				}
				sum(x.Y, 0)
			} else if x.Op == token.ADD {
				subtracted(x.X, d+1, out)
				subtracted(x.Y, d+1, out)
			}
		case *ssa.Phi:
			for _, e := range x.Edges {
				subtracted(e, d+1, out)
			}
		}
	}
	isSigLen := func(v ssa.Value) bool {
		call, ok := ssax.Strip(v).(*ssa.Call)
		if !ok {
			return false
		}
		cal := ssax.Callee(call)
		return cal != nil && cal.Name() == "SignatureLength"
	}
	n := 0
	for _, f := range libFns(c, "uasc") {
		for _, a := range ssax.FieldAccesses(f, maxBody) {
			st, ok := a.Use.(*ssa.Store)
			if !ok || a.Kind != ssax.Write {
				continue
			}
			n++
			if k, isK := ssax.ConstInt(st.Val); isK && k == 0 {
				c.Ob(rule, fname(f)+"·maxBodySize = 0", pos(c, st), true, "zero: nothing is sent in a chunk of this instance")
				continue
			}
			var subs []ssa.Value
			subtracted(st.Val, 0, &subs)
			has := false
			for _, s := range subs {
				has = has || isSigLen(s)
			}
			onlyNone := false
			for _, fact := range ssax.FactsAt(st) {
				if fact.Op != token.EQL {
					continue
				}
				for _, xy := range [][2]ssa.Value{{fact.X, fact.Y}, {fact.Y, fact.X}} {
					if loadedField(xy[0]).f == secMode {
						if k, isK := ssax.ConstInt(xy[1]); isK && k == 1 { // ua.MessageSecurityModeNone
							onlyNone = true
						}
					}
				}
			}
			c.Ob(rule, fname(f)+"·maxBodySize leaves room for the signature", pos(c, st), has || onlyNone, "SignatureLength() is among the subtracted terms: "+boolStr(has)+"; the store is reached only with SecurityMode == None: "+boolStr(onlyNone))
		}
	}
	if n == 0 {
		c.Ob(rule, "uasc·channelInstance.maxBodySize is computed somewhere", "-", false, "no store to maxBodySize found")
	}
}
