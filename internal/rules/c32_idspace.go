package rules

import (
	"go/types"

	"golang.org/x/tools/go/ssa"

	"verif/internal/core"
	"verif/internal/ssax"
)

// c32IDSpace: subscription ids and monitored item ids are both uint32 counted up from 1; nothing in the type system
// keeps them apart. The rule gives every uint32 parameter of a server function the id space it is used in (it keys
// SubscriptionService.Subs / MonitoredItemService.Subs → subscription id; MonitoredItemService.Items → item id) and
// every argument the space it comes from (Subscription.ID, a parameter of subscription kind, SubscriptionIDs of a
// request → subscription id; MonitoredItem.ID, NextID(), MonitoredItemIDs of a request → item id), and reports an
// argument of one space handed to a parameter of the other.
func c32IDSpace(c *core.Ctx) {
	c.Rule("C32.idspace", "an id of one kind is never handed where the other kind is expected: a parameter that keys the subscription tables receives subscription ids only, one that keys the monitored-item table item ids only (both are uint32 counted from 1: deleting subscription N must not delete monitored item N of another session)", 2)
	subs := field(c, "server", "SubscriptionService", "Subs")
	isubs := field(c, "server", "MonitoredItemService", "Subs")
	items := field(c, "server", "MonitoredItemService", "Items")
	subID := field(c, "server", "Subscription", "ID")
	itemID := field(c, "server", "MonitoredItem", "ID")
	if subs == nil || isubs == nil || items == nil || subID == nil || itemID == nil {
		return
	}
	const (
		unknown = 0
		kSub    = 1
		kItem   = 2
	)
	kname := []string{"unknown", "subscription id", "monitored item id"}
	fns := libFns(c, "server")
	// parameter kinds
	pk := map[*ssa.Parameter]int{}
	conflict := map[*ssa.Parameter]bool{}
	for _, f := range fns {
		for _, t := range []struct {
			fl *types.Var
			k  int
		}{{subs, kSub}, {isubs, kSub}, {items, kItem}} {
			for _, ms := range ssax.ContainerSites(f, t.fl) {
				if ms.Key == nil {
					continue
				}
				if p, ok := ssax.Strip(ms.Key).(*ssa.Parameter); ok {
					if pk[p] != unknown && pk[p] != t.k {
						conflict[p] = true
					}
					pk[p] = t.k
				}
			}
		}
	}
	var kindOf func(v ssa.Value, d int) int
	kindOf = func(v ssa.Value, d int) int {
		v = ssax.Strip(v)
		if d > 4 {
			return unknown
		}
		if p, ok := v.(*ssa.Parameter); ok {
			return pk[p]
		}
		if ld := loadedField(v); ld.f != nil {
			switch {
			case ld.f == subID:
				return kSub
			case ld.f == itemID:
				return kItem
			case ld.f.Name() == "SubscriptionID":
				return kSub
			case ld.f.Name() == "MonitoredItemID":
				return kItem
			}
		}
		// element of a request's id list
		if u, ok := v.(*ssa.UnOp); ok {
			if ia, ok := u.X.(*ssa.IndexAddr); ok {
				if ld := loadedField(ia.X); ld.f != nil {
					switch ld.f.Name() {
					case "SubscriptionIDs":
						return kSub
					case "MonitoredItemIDs":
						return kItem
					}
				}
			}
		}
		if call, ok := v.(*ssa.Call); ok {
			if cal := ssax.Callee(call); cal != nil && cal.Name() == "NextID" {
				return kItem
			}
		}
		if ph, ok := v.(*ssa.Phi); ok {
			k := unknown
			for _, e := range ph.Edges {
				ek := kindOf(e, d+1)
				if ek == unknown {
					continue
				}
				if k != unknown && k != ek {
					return unknown
				}
				k = ek
			}
			return k
		}
		return unknown
	}
	n := 0
	for p := range conflict {
		n++
		c.Ob("C32.idspace", fname(p.Parent())+"·parameter "+p.Name()+" keys tables of both kinds", c.P.Pos(p.Pos()), false, "one value is used as a subscription id and as a monitored item id")
	}
	for _, f := range fns {
		for _, call := range ssax.Calls(f) {
			h := call.Common().StaticCallee()
			if h == nil || len(h.Blocks) == 0 {
				continue
			}
			args := call.Common().Args
			for i, p := range h.Params {
				if pk[p] == unknown || i >= len(args) {
					continue
				}
				ak := kindOf(args[i], 0)
				if ak == unknown {
					continue
				}
				n++
				c.Ob("C32.idspace", fname(ssax.Outermost(f))+"·"+fname(h)+"("+p.Name()+")", pos(c, call), ak == pk[p], "the parameter is a "+kname[pk[p]]+", the argument "+ssax.Path(args[i])+" a "+kname[ak])
			}
		}
	}
	c.Count("calls that hand an id of known kind to a parameter of known kind", n)
}
