package rules

import (
	"go/token"
	"go/types"
	"sort"
	"strings"

	"golang.org/x/tools/go/ssa"

	"verif/internal/core"
	"verif/internal/ssax"
)

func init() { register("C23", c23) }

// sharedGlobals: package-level variables of the library whose value is a
// pointer, map or slice (a shared default object), plus scalar globals.
func libGlobals(c *core.Ctx) []*ssa.Global {
	var out []*ssa.Global
	for short, pk := range c.P.Lib {
		_ = short
		sp := c.P.SSAPkg[pk]
		if sp == nil {
			continue
		}
		for _, m := range sp.Members {
			if g, ok := m.(*ssa.Global); ok {
				out = append(out, g)
			}
		}
	}
	sort.Slice(out, func(i, j int) bool { return out[i].String() < out[j].String() })
	return out
}

// reviewed, intentionally mutable package state (each with its reason)
var mutableGlobalsReviewed = map[string]string{
	"uacp.connid":         "connection id counter, only touched through sync/atomic",
	"debug.Enable":        "debug switch, documented as process-wide",
	"debug.Logger":        "debug logger, documented as process-wide",
	"debug.Flags":         "debug flags, process-wide",
	"ua.eotypes":          "extension object registry behind its own mutex; registration is process-wide by design",
	"ua.svcreg":           "service registry behind its own mutex",
	"stats.stats":         "process-wide expvar statistics",
	"server.defaultNodes": "read-only table",
}

func c23(c *core.Ctx) {
	initOwners(c)
	c.P.BuildSSA()
	c.Rule("C23.shared", "no store executed on behalf of configuring or creating a client/server (option closures, ApplyConfig, NewClient, server.New and what they call) targets an object reachable from a package-level variable of the library: neither a direct store to a global, nor a store through a pointer/map that a configuration field inherited from a global default", 30)
	c.Rule("C23.fresh", "every pointer-typed default placed into a fresh configuration (dialer, ACK, secure channel config, session config) is allocated by the constructor call, not copied from a package-level variable", 3)

	// 1. fields that may hold a pointer copied from a global (field-based, flow-insensitive)
	globals := libGlobals(c)
	c.Count("package-level variables", len(globals))
	isRefType := func(t types.Type) bool {
		switch t.Underlying().(type) {
		case *types.Pointer, *types.Map, *types.Slice:
			return true
		}
		return false
	}
	fromGlobal := func(v ssa.Value) *ssa.Global {
		for _, o := range ssax.Origins(v, nil, 0) {
			if o.Global != nil && isRefType(o.Global.Type().(*types.Pointer).Elem()) {
				return o.Global
			}
		}
		return nil
	}
	taintedField := map[*types.Var]*ssa.Global{}
	taintSite := map[*types.Var]ssa.Instruction{}
	all := libFns(c)
	for changed := true; changed; {
		changed = false
		for _, f := range all {
			if f.Name() == "init" {
				continue
			}
			for _, b := range f.Blocks {
				for _, in := range b.Instrs {
					st, ok := in.(*ssa.Store)
					if !ok {
						continue
					}
					fa, ok := st.Addr.(*ssa.FieldAddr)
					if !ok {
						continue
					}
					fl := ssax.FieldOf(fa.X.Type(), fa.Field)
					if fl == nil || taintedField[fl] != nil {
						continue
					}
					if g := fromGlobal(st.Val); g != nil {
						taintedField[fl] = g
						taintSite[fl] = st
						changed = true
						continue
					}
					// copy from another tainted field
					if ld := loadedField(st.Val); ld.f != nil && taintedField[ld.f] != nil {
						taintedField[fl] = taintedField[ld.f]
						taintSite[fl] = st
						changed = true
					}
				}
			}
		}
	}
	// 2. configuration scope: option closures and constructors
	var roots []*ssa.Function
	for _, f := range all {
		sig := f.Signature
		isOptClosure := false
		if f.Parent() != nil && sig.Params().Len() == 1 {
			if n := derefNamed(sig.Params().At(0).Type()); n != nil && (n.Obj().Name() == "Config" || n.Obj().Name() == "serverConfig") {
				isOptClosure = true
			}
		}
		switch fname(f) {
		case "opcua.ApplyConfig", "opcua.NewClient", "opcua.newConfig", "server.New", "opcua.DefaultDialer", "opcua.DefaultClientConfig", "opcua.DefaultSessionConfig", "server.defaultChannelConfig":
			isOptClosure = true
		}
		if isOptClosure {
			roots = append(roots, f)
		}
	}
	scope := reachableFrom(c, roots, "opcua", "uacp", "uasc", "server", "uapolicy")
	c.Count("option closures and constructors", len(roots))
	c.Count("functions in configuration scope", len(scope))
	var fns []*ssa.Function
	for f := range scope {
		fns = append(fns, f)
	}
	sort.Slice(fns, func(i, j int) bool { return fns[i].Pos() < fns[j].Pos() })
	for _, f := range fns {
		if f.Name() == "init" {
			continue
		}
		for _, b := range f.Blocks {
			for _, in := range b.Instrs {
				var addr ssa.Value
				switch x := in.(type) {
				case *ssa.Store:
					addr = x.Addr
				case *ssa.MapUpdate:
					addr = x.Map
				default:
					continue
				}
				// direct store to a global
				if g, ok := addr.(*ssa.Global); ok && c.P.IsLib(g.Pkg.Pkg) {
					key := g.Pkg.Pkg.Name() + "." + g.Name()
					if why, ok := mutableGlobalsReviewed[key]; ok {
						c.Ob("C23.shared", fname(ssax.Outermost(f))+"·store to "+key, pos(c, in), true, "reviewed mutable global: "+why)
					} else {
						c.Ob("C23.shared", fname(ssax.Outermost(f))+"·store to "+key, pos(c, in), false, "a configuration function writes the package-level variable "+key+": every client/server created later sees the change")
					}
					continue
				}
				// store through a field address whose base pointer was loaded from a tainted field or a global
				base := addr
				if fa, ok := addr.(*ssa.FieldAddr); ok {
					base = fa.X
				} else if ia, ok := addr.(*ssa.IndexAddr); ok {
					base = ia.X
				}
				var via string
				if g := fromGlobal(base); g != nil {
					via = "global " + g.Pkg.Pkg.Name() + "." + g.Name()
				} else if ld := loadedField(base); ld.f != nil && taintedField[ld.f] != nil {
					g := taintedField[ld.f]
					via = "field " + ssax.FieldString(ld.f) + " which holds the pointer of global " + g.Pkg.Pkg.Name() + "." + g.Name() + " (assigned at " + pos(c, taintSite[ld.f]) + ")"
				}
				what := ssax.Path(addr)
				if via != "" {
					c.Ob("C23.shared", fname(ssax.Outermost(f))+"·store "+what, pos(c, in), false, "stores through "+via+": the shared default object is modified, so the option leaks into every other client")
				} else if _, isFA := addr.(*ssa.FieldAddr); isFA {
					c.Ob("C23.shared", fname(ssax.Outermost(f))+"·store "+what, pos(c, in), true, "target is not reachable from a package-level default")
				}
			}
		}
	}
	// 2b. at run time (connect, handshake, session set-up, …) nothing writes through a pointer that may still be the
	// shared default: a store through, or a receiver-mutating method call on, a pointer loaded from a tainted field
	c.Rule("C23.runtime", "outside configuration too, no library function writes through a pointer loaded from a field that may hold a package-level default (uacp.Conn.ack may be &DefaultClientACK when a Dialer has no ClientACK): neither a field store nor a call of a method that writes its receiver (Decode). A connection that negotiates into the shared object changes the defaults of every later client", 1)
	{
		mutates := receiverMutators(all)
		var tf []string
		for fl, g := range taintedField {
			tf = append(tf, ssax.FieldString(fl)+" ← "+g.Pkg.Pkg.Name()+"."+g.Name())
		}
		sort.Strings(tf)
		c.Note("fields that may hold a package-level default: " + strings.Join(tf, "; "))
		n := 0
		for _, f := range all {
			if f.Name() == "init" || scope[f] {
				continue
			}
			for _, b := range f.Blocks {
				for _, in := range b.Instrs {
					var base ssa.Value
					what := ""
					switch x := in.(type) {
					case *ssa.Store:
						if fa, ok := x.Addr.(*ssa.FieldAddr); ok {
							base, what = fa.X, "store "+ssax.Path(x.Addr)
						} else if ia, ok := x.Addr.(*ssa.IndexAddr); ok {
							base, what = ia.X, "store "+ssax.Path(x.Addr)
						}
					case *ssa.MapUpdate:
						base, what = x.Map, "map update "+ssax.Path(x.Map)
					case ssa.CallInstruction:
						sf := x.Common().StaticCallee()
						if sf == nil || !mutates[sf] || len(x.Common().Args) == 0 {
							continue
						}
						base, what = x.Common().Args[0], "call "+fname(sf)+" (writes its receiver)"
					}
					if base == nil {
						continue
					}
					ld := loadedField(base)
					if ld.f == nil || taintedField[ld.f] == nil {
						continue
					}
					n++
					g := taintedField[ld.f]
					c.Ob("C23.runtime", fname(ssax.Outermost(f))+"·"+what, pos(c, in), false, "writes through "+ssax.FieldString(ld.f)+", which may hold the pointer of global "+g.Pkg.Pkg.Name()+"."+g.Name()+" (assigned at "+pos(c, taintSite[ld.f])+")")
				}
			}
		}
		c.Ob("C23.runtime", "library·no write through a possibly shared default", c.P.Pos(all[0].Pos()), n == 0, "writes through tainted fields outside configuration: "+itoa(n))
	}
	// 3. freshness of the defaults placed into a new config
	for _, name := range []string{"opcua.DefaultDialer", "opcua.DefaultClientConfig", "opcua.DefaultSessionConfig", "opcua.newConfig", "opcua.ApplyConfig"} {
		var f *ssa.Function
		for _, g := range all {
			if fname(g) == name {
				f = g
			}
		}
		if f == nil {
			if name == "opcua.newConfig" {
				continue // inlined into ApplyConfig, which is in the configuration scope and checked by C23.shared
			}
			c.Fatal("unresolved anchor: %s", name)
			continue
		}
		bad := ""
		for _, b := range f.Blocks {
			for _, in := range b.Instrs {
				st, ok := in.(*ssa.Store)
				if !ok {
					continue
				}
				// a shallow copy of a package-level struct value: its pointer / map / slice fields stay shared
				if u, isLoad := ssax.Strip(st.Val).(*ssa.UnOp); isLoad && u.Op == token.MUL {
					if g, isG := u.X.(*ssa.Global); isG && c.P.IsLib(g.Pkg.Pkg) {
						if shared := refFieldsOf(u.Type()); len(shared) > 0 {
							bad = "the configuration is a shallow copy of the package-level value " + g.Pkg.Pkg.Name() + "." + g.Name() + ": its fields " + strings.Join(shared, ", ") + " point to storage every other configuration shares"
						}
					}
				}
				if _, isFA := st.Addr.(*ssa.FieldAddr); !isFA {
					continue
				}
				if g := fromGlobal(st.Val); g != nil {
					bad = "field " + ssax.Path(st.Addr) + " is set to the pointer held by global " + g.Pkg.Pkg.Name() + "." + g.Name()
				}
			}
		}
		c.Ob("C23.fresh", name+"·defaults are fresh allocations", c.P.Pos(f.Pos()), bad == "", "shared pointer placed into a fresh configuration: "+bad)
	}
	_ = token.ADD
}

// receiverMutators: methods with a pointer receiver that store to a field of the receiver (directly or through a
// method of the same receiver they call).
func receiverMutators(all []*ssa.Function) map[*ssa.Function]bool {
	m := map[*ssa.Function]bool{}
	for changed := true; changed; {
		changed = false
		for _, f := range all {
			if m[f] || f.Signature.Recv() == nil || len(f.Params) == 0 {
				continue
			}
			if _, ok := f.Signature.Recv().Type().(*types.Pointer); !ok {
				continue
			}
			recv := f.Params[0]
			for _, b := range f.Blocks {
				for _, in := range b.Instrs {
					switch x := in.(type) {
					case *ssa.Store:
						if fa, ok := x.Addr.(*ssa.FieldAddr); ok && ssax.Strip(fa.X) == ssa.Value(recv) {
							m[f] = true
						}
					case ssa.CallInstruction:
						if sf := x.Common().StaticCallee(); sf != nil && m[sf] && len(x.Common().Args) > 0 && ssax.Strip(x.Common().Args[0]) == ssa.Value(recv) {
							m[f] = true
						}
					}
				}
			}
			if m[f] {
				changed = true
			}
		}
	}
	return m
}

// refFieldsOf lists the fields of struct type t that are pointers, maps or slices (what a shallow copy shares).
func refFieldsOf(t types.Type) []string {
	st, ok := t.Underlying().(*types.Struct)
	if !ok {
		return nil
	}
	var out []string
	for i := 0; i < st.NumFields(); i++ {
		switch st.Field(i).Type().Underlying().(type) {
		case *types.Pointer, *types.Map, *types.Slice:
			out = append(out, st.Field(i).Name())
		}
	}
	return out
}
