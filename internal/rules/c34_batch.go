package rules

import (
	"go/types"
	"strings"

	"golang.org/x/tools/go/ssa"

	"verif/internal/core"
	"verif/internal/ssax"
)

// batchLoops: every element of a request array is processed.
//
// A service handler that answers one status per element of a request array pre-allocates the result slice (whose zero
// value is Good) and fills it in a loop over the request array. Leaving that loop early — a `break` — reports Good for
// every remaining element without having performed it: a write that was acknowledged and never applied. The only
// ways out of such a loop are its header (the range is exhausted) and a return (the whole request fails).
func batchLoops(c *core.Ctx, rule string, only map[string]bool) {
	for _, h := range registeredHandlers(c) {
		if only != nil && !only[h.Name()] {
			continue
		}
		for _, l := range ssax.Loops(h) {
			// a loop whose bound is the length of a slice loaded from the request
			reqSlice := ""
			if iff, ok := l.Header.Instrs[len(l.Header.Instrs)-1].(*ssa.If); ok {
				if bo, ok := iff.Cond.(*ssa.BinOp); ok {
					for _, side := range []ssa.Value{bo.X, bo.Y} {
						if call, ok := ssax.Strip(side).(*ssa.Call); ok && ssax.IsBuiltin(call, "len") {
							if ld := loadedField(ssax.Strip(call.Call.Args[0])); ld.f != nil {
								if n := derefNamed(ld.base.Type()); n != nil && strings.HasSuffix(n.Obj().Name(), "Request") && n.Obj().Pkg() != nil && n.Obj().Pkg().Name() == "ua" {
									reqSlice = n.Obj().Name() + "." + ld.f.Name()
								}
							}
						}
					}
				}
			}
			if reqSlice == "" {
				continue
			}
			var early *ssa.BasicBlock
			var normalExit *ssa.BasicBlock
			for _, s := range l.Header.Succs {
				if !l.Blocks[s] {
					normalExit = s
				}
			}
			for b := range l.Blocks {
				if b == l.Header {
					continue
				}
				for _, s := range b.Succs {
					if l.Blocks[s] {
						continue
					}
					// a block that breaks out is itself outside the natural loop: any edge that leaves the loop and
					// rejoins the code behind it is an early exit; a return path never gets there
					if blockReaches(s, normalExit) {
						early = b
					}
				}
			}
			p := c.P.Pos(h.Pos())
			if early != nil {
				p = pos(c, early.Instrs[len(early.Instrs)-1])
			} else if len(l.Header.Instrs) > 0 {
				p = pos(c, l.Header.Instrs[len(l.Header.Instrs)-1])
			}
			c.Ob(rule, fname(h)+"·loop over "+reqSlice+" has no early exit", p, early == nil, "the loop is left only through its header or a return: "+boolStr(early == nil)+" (a break leaves the remaining elements unprocessed while their pre-allocated status reads Good)")
		}
	}
	_ = types.Universe
}

func blockReaches(from, to *ssa.BasicBlock) bool {
	if to == nil {
		return false
	}
	seen := map[*ssa.BasicBlock]bool{}
	work := []*ssa.BasicBlock{from}
	for len(work) > 0 {
		b := work[len(work)-1]
		work = work[:len(work)-1]
		if b == to {
			return true
		}
		if seen[b] {
			continue
		}
		seen[b] = true
		work = append(work, b.Succs...)
	}
	return false
}

// endsInReturn: control entering b reaches a return without leaving through another branch.
func endsInReturn(b *ssa.BasicBlock) bool {
	for i := 0; i < 6 && b != nil; i++ {
		if _, ok := b.Instrs[len(b.Instrs)-1].(*ssa.Return); ok {
			return true
		}
		if len(b.Succs) != 1 {
			return false
		}
		b = b.Succs[0]
	}
	return false
}
