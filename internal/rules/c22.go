package rules

import (
	"go/token"
	"go/types"

	"golang.org/x/tools/go/ssa"

	"verif/internal/core"
	"verif/internal/ssax"
)

func init() { register("C22", c22) }

// errEdge reports whether `at` executes only when the error result of call was non-nil.
func errEdge(at ssa.Instruction, call ssa.CallInstruction) bool {
	ev := errResult(call)
	if ev == nil {
		return false
	}
	for _, f := range ssax.FactsAt(at) {
		if f.Op == token.NEQ && ((ssax.IsNil(f.Y) && denotes(f.X, ev)) || (ssax.IsNil(f.X) && denotes(f.Y, ev))) {
			return true
		}
	}
	return false
}

func c22(c *core.Ctx) {
	initOwners(c)
	verifySess := obj(c, "uasc", "SecureChannel", "VerifySessionSignature")
	verifySessFn := fn(c, "uasc", "SecureChannel", "VerifySessionSignature")
	newSig := obj(c, "uasc", "SecureChannel", "NewSessionSignature")
	encPass := obj(c, "uasc", "SecureChannel", "EncryptUserPassword")
	tokSig := obj(c, "uasc", "SecureChannel", "NewUserTokenSignature")
	verifySig := obj(c, "uapolicy", "EncryptionAlgorithm", "VerifySignature")
	connect := fn(c, "opcua", "Client", "Connect")
	createSess := fn(c, "opcua", "Client", "CreateSession")
	activate := obj(c, "opcua", "Client", "ActivateSession")
	setState := obj(c, "opcua", "Client", "setState")
	setSession := obj(c, "opcua", "Client", "setSession")
	secMode := field(c, "uasc", "Config", "SecurityMode")
	certF := field(c, "uasc", "Config", "Certificate")
	if verifySess == nil || verifySessFn == nil || newSig == nil || encPass == nil || tokSig == nil || verifySig == nil || connect == nil || createSess == nil || activate == nil || setState == nil || setSession == nil || secMode == nil || certF == nil {
		return
	}
	c.Rule("C22.errprop", "on the err != nil edge of VerifySessionSignature / NewSessionSignature / EncryptUserPassword / NewUserTokenSignature every return of the enclosing function or handler returns a non-nil error (never the constant nil)", 4)
	c.Rule("C22.session", "the response handler of CreateSession assigns the session object on every path on which it returns nil, and only on the err==nil edge of VerifySessionSignature, so that CreateSession never returns (nil, nil) and never yields a session for an unverified server", 1)
	c.Rule("C22.connected", "Connect reports Connected only after CreateSession and ActivateSession both returned nil; ActivateSession associates the session (setSession) only inside the handler of a successful ActivateSessionResponse", 2)
	c.Rule("C22.verify", "VerifySessionSignature returns nil only under SecurityMode == None or on the err==nil edge of VerifySignature, and verifies over the local certificate followed by the nonce", 2)
	c.Rule("C22.assert", "the public key of the peer's certificate is converted with a comma-ok assertion (a certificate with a non-RSA key must yield an error, not a panic) in every session-signature helper", 4)

	clientFns := libFns(c, "opcua")
	// errprop
	for _, f := range clientFns {
		for _, call := range ssax.CallsTo(f, verifySess, newSig, encPass, tokSig) {
			cal := ssax.Callee(call)
			bad := false
			var where *ssa.Return
			for _, ret := range ssax.Returns(f) {
				if !errEdge(ret, call) {
					continue
				}
				last := ssax.RetVal(ret, len(ret.Results)-1)
				if ssax.IsNil(last) {
					bad = true
					where = ret
				}
			}
			p := pos(c, call)
			detail := "every return on the failing edge carries the error"
			if bad {
				p = pos(c, where)
				detail = "returns nil although " + cal.Name() + " failed: the caller proceeds as if the server had proven its identity / the session were activated"
			}
			c.Ob("C22.errprop", fname(ssax.Outermost(f))+"·error of "+cal.Name(), p, !bad, detail)
		}
	}
	// session assignment in the CreateSession handler
	{
		// calls that establish the verification: VerifySessionSignature itself, or a private helper every nil-error
		// return of which lies on the err==nil edge of such a call
		verifying := verifyingHelpers(libFns(c, "opcua"), verifySess)
		verifyCallsIn := func(g *ssa.Function) []ssa.CallInstruction { return verifyCallsIn(g, verifySess, verifying) }
		var handler *ssa.Function
		for _, a := range createSess.AnonFuncs {
			if len(verifyCallsIn(a)) > 0 {
				handler = a
			}
		}
		if handler == nil {
			c.Ob("C22.session", fname(createSess)+"·handler verifies the server signature", c.P.Pos(createSess.Pos()), false, "CreateSession's response handler no longer calls VerifySessionSignature")
		} else {
			vcall := verifyCallsIn(handler)[0]
			// stores to the captured session variable
			var stores []*ssa.Store
			for _, b := range handler.Blocks {
				for _, in := range b.Instrs {
					if st, ok := in.(*ssa.Store); ok {
						if fv, ok := st.Addr.(*ssa.FreeVar); ok && isPtrToNamed(derefType(fv.Type()), "Session") {
							stores = append(stores, st)
						}
					}
				}
			}
			okAll := len(stores) > 0
			detail := "session assigned only after successful verification; every nil return follows the assignment"
			for _, st := range stores {
				if !okEdge(st, vcall) {
					okAll = false
					detail = "the session is assigned on a path that did not verify the server signature"
				}
			}
			for _, ret := range ssax.Returns(handler) {
				if !ssax.IsNil(ssax.RetVal(ret, 0)) {
					continue
				}
				dom := false
				for _, st := range stores {
					if ssax.Dominates(st, ret) {
						dom = true
					}
				}
				if !dom {
					okAll = false
					detail = "the handler returns nil at " + pos(c, ret) + " without having assigned the session: CreateSession returns (nil, nil) and Connect dereferences the nil session"
				}
			}
			c.Ob("C22.session", fname(createSess)+"·handler assigns the session before returning nil", c.P.Pos(handler.Pos()), okAll, detail)
		}
	}
	// connected
	{
		var cs, as ssa.CallInstruction
		for _, call := range ssax.CallsTo(connect, createSess.Object().(*types.Func)) {
			cs = call
		}
		for _, call := range ssax.CallsTo(connect, activate) {
			as = call
		}
		connected := enumConst(c, "opcua", "Connected")
		n := 0
		for _, call := range ssax.CallsTo(connect, setState) {
			args := call.Common().Args
			if k, ok := ssax.ConstInt(args[len(args)-1]); ok && connected != nil && k == *connected {
				n++
				ok2 := cs != nil && as != nil && okEdge(call, cs) && okEdge(call, as)
				c.Ob("C22.connected", fname(connect)+"·setState(Connected)", pos(c, call), ok2, "dominated by CreateSession err==nil and ActivateSession err==nil: "+boolStr(ok2))
			}
		}
		if n == 0 {
			c.Ob("C22.connected", fname(connect)+"·setState(Connected)", c.P.Pos(connect.Pos()), false, "Connect never reports Connected")
		}
		// setSession(s) with non-nil s only inside the ActivateSession response handler
		actFn := c.P.SSAFunc(activate)
		for _, f := range clientFns {
			for _, call := range ssax.CallsTo(f, setSession) {
				args := call.Common().Args
				if ssax.IsNil(args[len(args)-1]) {
					continue
				}
				inHandler := f.Parent() == actFn && len(f.Params) == 1
				c.Ob("C22.connected", fname(ssax.Outermost(f))+"·setSession(non-nil)", pos(c, call), inHandler, "session associated only in the ActivateSession response handler: "+boolStr(inHandler))
			}
		}
	}
	// verify
	{
		var vcall ssa.CallInstruction
		for _, call := range ssax.CallsTo(verifySessFn, verifySig) {
			vcall = call
		}
		modeNone := enumConst(c, "ua", "MessageSecurityModeNone")
		okAll := vcall != nil
		detail := "nil only under SecurityMode==None or after VerifySignature succeeded"
		for _, ret := range ssax.Returns(verifySessFn) {
			if !ssax.IsNil(ssax.RetVal(ret, 0)) {
				continue
			}
			if vcall != nil && okEdge(ret, vcall) {
				continue
			}
			unsec := false
			for _, f := range ssax.FactsAt(ret) {
				if f.Op == token.EQL && loadedField(f.X).f == secMode {
					if k, ok := ssax.ConstInt(f.Y); ok && modeNone != nil && k == *modeNone {
						unsec = true
					}
				}
			}
			if !unsec {
				okAll = false
				detail = "a nil return at " + pos(c, ret) + " neither verified the signature nor is guarded by SecurityMode == None"
			}
		}
		c.Ob("C22.verify", fname(verifySessFn)+"·nil returns", c.P.Pos(verifySessFn.Pos()), okAll, detail)
		// argument shape: append(cfg.Certificate, nonce...)
		shape := false
		if vcall != nil {
			msg := vcall.Common().Args[1]
			if ap, ok := ssax.Strip(msg).(*ssa.Call); ok && ssax.IsBuiltin(ap, "append") && len(ap.Call.Args) == 2 {
				first := loadedField(ap.Call.Args[0]).f == certF
				_, second := ssax.Strip(ap.Call.Args[1]).(*ssa.Parameter)
				shape = first && second
			}
		}
		c.Ob("C22.verify", fname(verifySessFn)+"·signed data = own certificate ‖ nonce", c.P.Pos(verifySessFn.Pos()), shape, "VerifySignature(append(cfg.Certificate, nonce...), signature): "+boolStr(shape))
	}
	// assert
	for _, o := range []*types.Func{verifySess, newSig, encPass, tokSig} {
		f := c.P.SSAFunc(o)
		if f == nil {
			continue
		}
		n := 0
		for _, b := range f.Blocks {
			for _, in := range b.Instrs {
				ta, ok := in.(*ssa.TypeAssert)
				if !ok {
					continue
				}
				n++
				c.Ob("C22.assert", fname(f)+"·PublicKey.("+ssax.TypeName(ta.AssertedType)+")", pos(c, ta), ta.CommaOk, "comma-ok form: "+boolStr(ta.CommaOk)+" — a peer certificate with a non-RSA key panics otherwise")
			}
		}
		// the conversion may be left to a library helper (uapolicy.PublicKey …): its assertions on a certificate's
		// PublicKey count as this function's
		seenH := map[*ssa.Function]bool{f: true}
		frontier := []*ssa.Function{f}
		for depth := 0; depth < 2; depth++ {
			var next []*ssa.Function
			for _, g := range frontier {
				for _, call := range ssax.Calls(g) {
					h := call.Common().StaticCallee()
					if h == nil || seenH[h] || len(h.Blocks) == 0 || (shortOf(h) != "uasc" && shortOf(h) != "uapolicy") {
						continue
					}
					seenH[h] = true
					next = append(next, h)
					for _, hb := range h.Blocks {
						for _, in := range hb.Instrs {
							ta, ok := in.(*ssa.TypeAssert)
							if !ok {
								continue
							}
							if ld := loadedField(ta.X); ld.f == nil || ld.f.Name() != "PublicKey" {
								continue
							}
							n++
							c.Ob("C22.assert", fname(f)+"·"+fname(h)+"·PublicKey.("+ssax.TypeName(ta.AssertedType)+")", pos(c, ta), ta.CommaOk, "in "+fname(h)+", called with the peer's certificate: comma-ok form: "+boolStr(ta.CommaOk)+" — a peer certificate with a non-RSA key panics otherwise")
						}
					}
				}
			}
			frontier = next
		}
		if n == 0 {
			c.Ob("C22.assert", fname(f)+"·no type assertion", c.P.Pos(f.Pos()), true, "no assertion on the certificate key")
		}
	}
}

func derefType(t types.Type) types.Type {
	if p, ok := t.Underlying().(*types.Pointer); ok {
		return p.Elem()
	}
	return t
}
