package rules

import (
	"go/token"
	"go/types"

	"golang.org/x/tools/go/ssa"

	"verif/internal/core"
	"verif/internal/ssax"
)

func init() { register("C18", c18); register("C19", c19) }

const handlersMu = "uasc.SecureChannel.handlersMu"

// responseHandlerLits returns all function literals of the library whose
// signature is func(ua.Response) error.
func responseHandlerLits(c *core.Ctx) []*ssa.Function {
	respT := c.P.Lib["ua"].Types.Scope().Lookup("Response")
	if respT == nil {
		c.Fatal("unresolved anchor: ua.Response")
		return nil
	}
	var out []*ssa.Function
	for _, f := range libFns(c) {
		if f.Parent() == nil {
			continue
		}
		sig := f.Signature
		if sig.Params().Len() != 1 || sig.Results().Len() != 1 {
			continue
		}
		if !types.Identical(sig.Params().At(0).Type(), respT.Type()) {
			continue
		}
		if sig.Results().At(0).Type().String() != "error" {
			continue
		}
		out = append(out, f)
	}
	return out
}

func c18(c *core.Ctx) {
	initOwners(c)
	handlers := field(c, "uasc", "SecureChannel", "handlers")
	reqIDF := field(c, "uasc", "SecureChannel", "requestID")
	sendAsync := fn(c, "uasc", "SecureChannel", "sendAsyncWithTimeout")
	popHandler := fn(c, "uasc", "SecureChannel", "popHandler")
	dispatcher := fn(c, "uasc", "SecureChannel", "dispatcher")
	nextReqID := fn(c, "uasc", "SecureChannel", "nextRequestID")
	connWrite := obj(c, "uacp", "Conn", "Write")
	safeAssign := obj(c, "opcua", "", "safeAssign")
	safeAssignFn := fn(c, "opcua", "", "safeAssign")
	if handlers == nil || reqIDF == nil || sendAsync == nil || popHandler == nil || dispatcher == nil || nextReqID == nil || connWrite == nil || safeAssign == nil || safeAssignFn == nil {
		return
	}
	ls := locks(c)

	c.Rule("C18.locked", "SecureChannel.handlers is read and written only with handlersMu held", 4)
	c.Rule("C18.register", "in sendAsyncWithTimeout the registration handlers[reqID] = ch happens before the first write of the request on every response-requiring path, after a duplicate test of the same key in the same critical section, and the channel has capacity >= 1", 3)
	c.Rule("C18.pop", "popHandler deletes the entry it read, inside the critical section in which it read it, and only when the lookup succeeded", 1)
	c.Rule("C18.deliver", "the dispatcher sends a message only to the channel popped for that message's request id in the same iteration, and the send is non-blocking (select with default)", 1)
	c.Rule("C18.ids", "SecureChannel.requestID is written only by nextRequestID (under requestIDMu, skipping 0), the constructor and the server-side OPN overwrite; request ids passed to sendRequestWithTimeout come from nextRequestID", 3)
	c.Rule("C18.typed", "every response-handler literal converts its ua.Response parameter only through safeAssign, a comma-ok assertion or a type switch — never a single-result assertion — and does not discard safeAssign's error; safeAssign compares the dynamic types before assigning", 25)

	// locked
	for _, f := range libFns(c) {
		if fname(f) == "uasc.newSecureChannel" {
			continue
		}
		for _, s := range ssax.ContainerSites(f, handlers) {
			if s.Instr == nil {
				continue
			}
			held := ls.HeldAt(s.Instr)
			ok := held.Holds(handlersMu, s.Kind == ssax.MapStore || s.Kind == ssax.MapDelete)
			c.Ob("C18.locked", fname(f)+"·"+s.Kind.String()+"(SecureChannel.handlers)", pos(c, s.Instr), ok, "locks held: "+held.String())
		}
	}
	// register
	{
		// the registration may live in sendAsyncWithTimeout or in a private helper of it (or the whole tail of the
		// function may have been moved into one): sequencing is decided where store and writes are distinct
		// instructions, the store's own checks where the store is
		isStore := func(in ssa.Instruction) bool {
			mu, ok := in.(*ssa.MapUpdate)
			return ok && loadedField(mu.Map).f == handlers
		}
		isWrite := func(in ssa.Instruction) bool {
			call, ok := in.(ssa.CallInstruction)
			return ok && ssax.Callee(call) == connWrite
		}
		var store *ssax.MapSite
		var lookups []ssax.MapSite
		realStore := siteIn(sendAsync, isStore)
		if realStore != nil {
			for _, s := range ssax.ContainerSites(realStore.Parent(), handlers) {
				s := s
				if s.Kind == ssax.MapStore {
					store = &s
				}
				if s.Kind == ssax.MapLookup {
					lookups = append(lookups, s)
				}
			}
		}
		if store == nil {
			c.Ob("C18.register", fname(sendAsync)+"·handlers[reqID] = ch", c.P.Pos(sendAsync.Pos()), false, "no registration of the response channel in sendAsyncWithTimeout")
		} else {
			scope := scopeFor(sendAsync, isStore, isWrite)
			storesL := liftedSites(scope, isStore)
			writes := liftedSites(scope, isWrite)
			isStoreL := func(in ssa.Instruction) bool {
				for _, x := range storesL {
					if x == in {
						return true
					}
				}
				return false
			}
			isWriteL := func(in ssa.Instruction) bool {
				for _, w := range writes {
					if in == w {
						return true
					}
				}
				return false
			}
			// the If on a bool parameter whose true edge dominates the store
			var condFrom, condOther *ssa.BasicBlock
			for _, b := range scope.Blocks {
				if len(b.Instrs) == 0 || len(storesL) == 0 {
					continue
				}
				ifi, ok := b.Instrs[len(b.Instrs)-1].(*ssa.If)
				if !ok {
					continue
				}
				if _, isParam := ifi.Cond.(*ssa.Parameter); !isParam {
					continue
				}
				if ssax.EdgeDominates(b, b.Succs[0], storesL[0]) {
					condFrom, condOther = b, b.Succs[1]
				}
			}
			reach, tr := ssax.Reach(scope, nil, isWriteL, isStoreL, func(a, b *ssa.BasicBlock) bool { return a == condFrom && b == condOther })
			after, _ := ssax.Reach(scope, nil, isStoreL, isWriteL, nil)
			ok := !reach && after && len(writes) > 0
			c.Ob("C18.register", fname(sendAsync)+"·register before write", pos(c, store.Instr), ok, "a response-requiring path reaches Conn.Write without having registered the handler: "+boolStr(reach)+" (decided in "+fname(scope)+")", trace(c, tr)...)
			// duplicate test
			dup := false
			for _, l := range lookups {
				if ssax.Path(l.Key) == ssax.Path(store.Key) && ssax.Dominates(l.Instr, store.Instr) {
					for _, f := range ssax.FactsAt(store.Instr) {
						if f.Op == token.EQL && ssax.IsNil(f.Y) && ssax.Strip(f.X) == ssa.Value(l.Instr.(*ssa.Lookup)) {
							dup = true
						}
					}
				}
			}
			c.Ob("C18.register", fname(sendAsync)+"·duplicate-id test before registration", pos(c, store.Instr), dup, "handlers[reqID] == nil established before the store: "+boolStr(dup))
			// capacity
			capOK := false
			if mk, ok := ssax.Strip(store.Val).(*ssa.MakeChan); ok {
				if k, ok := ssax.ConstInt(mk.Size); ok && k >= 1 {
					capOK = true
				}
			} else {
				for _, o := range ssax.Origins(store.Val, nil, 0) {
					if mk, ok := o.Other.(*ssa.MakeChan); ok {
						if k, ok := ssax.ConstInt(mk.Size); ok && k >= 1 {
							capOK = true
						}
					}
				}
			}
			c.Ob("C18.register", fname(sendAsync)+"·response channel capacity >= 1", pos(c, store.Instr), capOK, "buffered response channel: "+boolStr(capOK))
		}
	}
	// pop
	{
		var lk *ssa.Lookup
		var del ssa.Instruction
		var delKey ssa.Value
		for _, s := range ssax.ContainerSites(popHandler, handlers) {
			if s.Kind == ssax.MapLookup {
				lk = s.Instr.(*ssa.Lookup)
			}
			if s.Kind == ssax.MapDelete {
				del = s.Instr
				delKey = s.Key
			}
		}
		ok := false
		detail := ""
		switch {
		case lk == nil || del == nil:
			detail = "popHandler does not both read and delete the entry"
		case ssax.Path(lk.Index) != ssax.Path(delKey):
			detail = "deletes a different key than it read"
		case !lk.CommaOk:
			detail = "lookup is not the comma-ok form"
		default:
			// delete dominated by ok==true
			tr, _ := ssax.BoolFactsAt(del)
			for _, v := range tr {
				if ex, isEx := v.(*ssa.Extract); isEx && ex.Tuple == ssa.Value(lk) && ex.Index == 1 {
					ok = true
				}
			}
			// same critical section: no unlock of handlersMu between
			if ok {
				held := ls.HeldAt(del)
				if !held.Holds(handlersMu, true) {
					ok = false
					detail = "delete outside the handlersMu critical section"
				}
			} else {
				detail = "delete is not guarded by the lookup's ok flag"
			}
			if ok {
				detail = "lookup+delete of the same key under handlersMu, guarded by ok"
			}
		}
		c.Ob("C18.pop", fname(popHandler)+"·read-and-delete", c.P.Pos(popHandler.Pos()), ok, detail)
		// returned channel is the one looked up
		for _, r := range ssax.Returns(popHandler) {
			good := false
			if lk != nil {
				if ex, isEx := ssax.Strip(ssax.RetVal(r, 0)).(*ssa.Extract); isEx && ex.Tuple == ssa.Value(lk) && ex.Index == 0 {
					good = true
				}
			}
			c.Ob("C18.pop", fname(popHandler)+"·returns the looked-up channel", pos(c, r), good, "returns handlers[reqID]: "+boolStr(good))
		}
	}
	// deliver
	{
		popObj := popHandler.Object().(*types.Func)
		n := 0
		for _, b := range dispatcher.Blocks {
			for _, in := range b.Instrs {
				sel, ok := in.(*ssa.Select)
				if !ok {
					continue
				}
				for _, st := range sel.States {
					if st.Dir != types.SendOnly {
						continue
					}
					// only sends of *MessageBody matter
					if !isPtrToNamed(st.Send.Type(), "MessageBody") {
						continue
					}
					n++
					fromPop := false
					var popCall ssa.CallInstruction
					for _, o := range ssax.Origins(st.Chan, nil, 0) {
						if o.Call == popObj {
							fromPop = true
						}
					}
					for _, pc := range ssax.CallsTo(dispatcher, popObj) {
						popCall = pc
					}
					sameKey := false
					if popCall != nil {
						// key: msg.RequestID where msg is the value sent
						k := popCall.Common().Args[len(popCall.Common().Args)-1]
						ld := loadedField(k)
						if ld.f != nil && ld.f.Name() == "RequestID" && ssax.Strip(ld.base) == ssax.Strip(st.Send) {
							sameKey = true
						}
					}
					okd := fromPop && sameKey && !sel.Blocking && popCall != nil && ssax.Dominates(popCall, sel)
					c.Ob("C18.deliver", fname(dispatcher)+"·send to popped handler", pos(c, sel), okd, "channel from popHandler: "+boolStr(fromPop)+"; keyed by the sent message's RequestID: "+boolStr(sameKey)+"; non-blocking: "+boolStr(!sel.Blocking))
				}
			}
		}
		// plain (blocking) sends of *MessageBody in dispatcher are violations
		for _, b := range dispatcher.Blocks {
			for _, in := range b.Instrs {
				if sd, ok := in.(*ssa.Send); ok && isPtrToNamed(sd.X.Type(), "MessageBody") {
					n++
					c.Ob("C18.deliver", fname(dispatcher)+"·blocking send to handler", pos(c, sd), false, "a blocking send lets one slow caller stall correlation for all requests")
				}
			}
		}
		if n == 0 {
			c.Ob("C18.deliver", fname(dispatcher)+"·send to popped handler", c.P.Pos(dispatcher.Pos()), false, "the dispatcher no longer hands messages to handler channels")
		}
	}
	// ids
	{
		allowed := map[string]string{
			"(*uasc.SecureChannel).nextRequestID":                  "counter",
			"uasc.newSecureChannel":                                "constructor",
			"(*uasc.SecureChannel).handleOpenSecureChannelRequest": "server-side overwrite from the client's request handle (evidence)",
		}
		for _, f := range libFns(c) {
			for _, a := range ssax.FieldAccesses(f, reqIDF) {
				if a.Kind != ssax.Write {
					continue
				}
				why, ok := allowed[fname(f)]
				if ok && fname(f) == "(*uasc.SecureChannel).nextRequestID" {
					held := ls.HeldAt(a.Use)
					ok = held.Holds("uasc.SecureChannel.requestIDMu", true)
					why = "locks held: " + held.String()
				}
				c.Ob("C18.ids", fname(f)+"·write SecureChannel.requestID", pos(c, a.Use), ok, why)
			}
		}
		// skip 0: a store of a non-zero constant dominated by requestID == 0
		skip := false
		for _, a := range ssax.FieldAccesses(nextReqID, reqIDF) {
			if st, ok := a.Use.(*ssa.Store); ok && a.Kind == ssax.Write {
				if k, ok := ssax.ConstInt(st.Val); ok && k != 0 {
					for _, f := range ssax.FactsAt(st) {
						if f.Op == token.EQL && loadedField(f.X).f == reqIDF {
							if z, ok := ssax.ConstInt(f.Y); ok && z == 0 {
								skip = true
							}
						}
					}
				}
			}
		}
		c.Ob("C18.ids", fname(nextReqID)+"·skips 0", c.P.Pos(nextReqID.Pos()), skip, "0 is never handed out as request id: "+boolStr(skip))
		// request ids given to sendRequestWithTimeout come from nextRequestID
		srt := obj(c, "uasc", "SecureChannel", "sendRequestWithTimeout")
		if srt != nil {
			for _, f := range libFns(c, "uasc") {
				for _, call := range ssax.CallsTo(f, srt) {
					arg := call.Common().Args[3] // recv, ctx, req, reqID
					ok := false
					for _, o := range ssax.Origins(arg, nil, 0) {
						if o.Call == nextReqID.Object() {
							ok = true
						}
					}
					c.Ob("C18.ids", fname(f)+"·reqID argument of sendRequestWithTimeout", pos(c, call), ok, "request id obtained from nextRequestID(): "+boolStr(ok))
				}
			}
		}
	}
	// typed
	{
		lits := responseHandlerLits(c)
		c.Count("response handler literals", len(lits))
		for _, f := range lits {
			p := f.Params[0]
			okAll := true
			detail := "parameter used only via safeAssign / comma-ok assertion / type switch"
			used := false
			var visit func(v ssa.Value)
			seen := map[ssa.Value]bool{}
			visit = func(v ssa.Value) {
				if seen[v] {
					return
				}
				seen[v] = true
				refs := v.Referrers()
				if refs == nil {
					return
				}
				for _, r := range *refs {
					switch u := r.(type) {
					case *ssa.TypeAssert:
						used = true
						if !u.CommaOk {
							okAll = false
							detail = "single-result type assertion " + ssax.TypeName(u.AssertedType) + " on the response: a response of another type panics instead of being reported"
						}
					case *ssa.Call:
						used = true
						cal := ssax.Callee(u)
						if cal == safeAssign {
							// error must not be discarded
							if u.Referrers() == nil || len(*u.Referrers()) == 0 {
								okAll = false
								detail = "safeAssign's error is discarded"
							}
						}
					case *ssa.MakeInterface:
						visit(u)
					case *ssa.ChangeInterface:
						visit(u)
					case *ssa.Phi:
						visit(u)
					}
				}
			}
			visit(p)
			_ = used
			key := fname(ssax.Outermost(f)) + "·handler literal"
			c.Ob("C18.typed", key, c.P.Pos(f.Pos()), okAll, detail)
		}
		// safeAssign: the Set is dominated by the type-equality test
		var cmp bool
		for _, call := range ssax.Calls(safeAssignFn) {
			cal := ssax.Callee(call)
			if cal != nil && cal.Name() == "Set" && cal.Pkg() != nil && cal.Pkg().Path() == "reflect" {
				for _, f := range ssax.FactsAt(call) {
					if f.Op == token.EQL && isReflectTypeOf(f.X) && isReflectTypeOrElem(f.Y) {
						cmp = true
					}
				}
			}
		}
		c.Ob("C18.typed", fname(safeAssignFn)+"·type test dominates Set", c.P.Pos(safeAssignFn.Pos()), cmp, "reflect.TypeOf(t) == reflect.TypeOf(ptr).Elem() established before Set: "+boolStr(cmp))
	}
}

func isPtrToNamed(t types.Type, name string) bool {
	p, ok := t.Underlying().(*types.Pointer)
	if !ok {
		return false
	}
	n, ok := p.Elem().(*types.Named)
	return ok && n.Obj().Name() == name
}

func isReflectTypeOf(v ssa.Value) bool {
	call, ok := ssax.Strip(v).(*ssa.Call)
	if !ok {
		return false
	}
	cal := ssax.Callee(call)
	return cal != nil && cal.Pkg() != nil && cal.Pkg().Path() == "reflect" && cal.Name() == "TypeOf"
}

func isReflectTypeOrElem(v ssa.Value) bool {
	call, ok := ssax.Strip(v).(*ssa.Call)
	if !ok {
		return false
	}
	cal := ssax.Callee(call)
	if cal == nil {
		return false
	}
	if cal.Name() == "Elem" {
		if call.Call.IsInvoke() {
			return isReflectTypeOf(call.Call.Value)
		}
		return len(call.Call.Args) > 0 && isReflectTypeOf(call.Call.Args[0])
	}
	return isReflectTypeOf(v)
}

// C19 — timeouts bounded, slot released.
func c19(c *core.Ctx) {
	initOwners(c)
	handlers := field(c, "uasc", "SecureChannel", "handlers")
	sendAsync := fn(c, "uasc", "SecureChannel", "sendAsyncWithTimeout")
	srt := fn(c, "uasc", "SecureChannel", "sendRequestWithTimeout")
	popHandler := obj(c, "uasc", "SecureChannel", "popHandler")
	pendingReq := field(c, "uasc", "SecureChannel", "pendingReq")
	disconnected := field(c, "uasc", "SecureChannel", "disconnected")
	if handlers == nil || sendAsync == nil || srt == nil || popHandler == nil || pendingReq == nil || disconnected == nil {
		return
	}
	c.Rule("C19.release", "once handlers[reqID] has been stored, every error return of sendAsyncWithTimeout removes the entry again (popHandler / delete), and every return of sendRequestWithTimeout after a successful send either received from the slot's channel or calls popHandler(reqID)", 5)
	c.Rule("C19.wait", "the wait for the response is one select with: a receive from the response channel, a timer arm whose duration is timeout + timeoutLeniency, a ctx.Done arm and a disconnected arm", 1)
	c19Gate(c)
	c.Rule("C19.balance", "every function of packages uasc and uacp unlocks each mutex it locks on every path to a return (or defers the unlock): an error path that keeps handlersMu / instancesMu / the instance mutex locked wedges every later request", 10)
	lockBalance(c, "C19.balance", "uasc", "uacp")
	c.Rule("C19.pending", "pendingReq.Add(1) is followed by pendingReq.Done() on every path of sendRequestWithTimeout", 1)

	// release in sendAsync (the registration, and the code behind it, may live in private helpers)
	{
		isStore := func(in ssa.Instruction) bool {
			mu, ok := in.(*ssa.MapUpdate)
			return ok && loadedField(mu.Map).f == handlers
		}
		store := siteIn(sendAsync, isStore)
		if store == nil {
			c.Fatal("C19.release: registration site not found in sendAsyncWithTimeout or its helpers")
		} else {
			isRelease := func(in ssa.Instruction) bool {
				if call, ok := in.(ssa.CallInstruction); ok {
					if _, isDefer := in.(*ssa.Defer); isDefer {
						return false
					}
					if ssax.Callee(call) == popHandler {
						return true
					}
					if ssax.IsBuiltin(call, "delete") {
						if loadedField(call.Common().Args[0]).f == handlers {
							return true
						}
					}
				}
				return false
			}
			// walk from the function that holds the store up to sendAsyncWithTimeout
			fnAt, from := store.Parent(), store
			for hops := 0; hops < 4; hops++ {
				for _, ret := range ssax.Returns(fnAt) {
					ei := len(ret.Results) - 1
					if ei < 0 || !isErrorResult(fnAt, ei) || ssax.IsNil(ssax.RetVal(ret, ei)) {
						continue // success return: slot handed to the caller
					}
					// a return that passes on the results of the helper call we came from is decided in that helper
					if call, ok := from.(*ssa.Call); ok && from != store {
						if ev := errResult(call); ev != nil && denotes(ssax.RetVal(ret, ei), ev) {
							continue // `return helper(...)` or `if err != nil { return err }` right behind the call
						}
					}
					reach, tr := ssax.Reach(fnAt, from, func(in ssa.Instruction) bool { return in == ssa.Instruction(ret) }, isRelease, nil)
					if reach && hasDeferredRelease(fnAt, popHandler, handlers) {
						reach = false
					}
					via := "?"
					for _, o := range ssax.Origins(ssax.RetVal(ret, ei), nil, 0) {
						if o.Call != nil {
							via = o.Call.Name()
						}
					}
					c.Ob("C19.release", fname(fnAt)+"·error return after registration (error from "+via+")", pos(c, ret), !reach, "handler entry leaked on this error return (the slot stays in SecureChannel.handlers for ever): "+boolStr(reach), trace(c, tr)...)
				}
				if fnAt == sendAsync {
					break
				}
				up := liftOne(sendAsync, fnAt)
				if up == nil {
					c.Fatal("C19.release: cannot relate %s to sendAsyncWithTimeout", fname(fnAt))
					break
				}
				fnAt, from = up.Parent(), up
			}
		}
	}
	// release + wait in sendRequestWithTimeout
	{
		var sel *ssa.Select
		srtOuter := srt
		for _, g := range withHelpers(srtOuter) {
			for _, b := range g.Blocks {
				for _, in := range b.Instrs {
					if s, ok := in.(*ssa.Select); ok && s.Blocking && sel == nil {
						sel = s
					}
				}
			}
		}
		if sel != nil {
			srt = sel.Parent() // the wait (and the returns behind it) may live in a private helper
		}
		if sel == nil {
			c.Ob("C19.wait", fname(srt)+"·response select", c.P.Pos(srt.Pos()), false, "no blocking select waits for the response")
		} else {
			var hasResp, hasTimer, hasCtx, hasDisc bool
			timerOK := false
			for _, st := range sel.States {
				if st.Dir != types.RecvOnly {
					continue
				}
				ch := ssax.Strip(st.Chan)
				switch {
				case isChanOf(ch.Type(), "MessageBody"):
					hasResp = true
				case loadedField(ch).f == disconnected:
					hasDisc = true
				case loadedField(ch).f != nil && loadedField(ch).f.Name() == "C":
					hasTimer = true
					// timer created by time.NewTimer(timeout + timeoutLeniency)
					for _, call := range ssax.Calls(srt) {
						cal := ssax.Callee(call)
						if cal != nil && cal.Pkg() != nil && cal.Pkg().Path() == "time" && (cal.Name() == "NewTimer" || cal.Name() == "After") {
							if bo, ok := ssax.Strip(call.Common().Args[0]).(*ssa.BinOp); ok && bo.Op == token.ADD {
								_, px := ssax.Strip(bo.X).(*ssa.Parameter)
								ky, ok2 := ssax.ConstInt(bo.Y)
								len := constOf(c, "uasc", "timeoutLeniency")
								if px && ok2 && len != nil && ky == *len {
									timerOK = true
								}
							}
						}
					}
				default:
					if call, ok := ch.(*ssa.Call); ok {
						if cal := ssax.Callee(call); cal != nil && cal.Name() == "Done" {
							hasCtx = true
						}
					}
				}
			}
			ok := hasResp && hasTimer && hasCtx && hasDisc && timerOK
			c.Ob("C19.wait", fname(srt)+"·response select", pos(c, sel), ok, "arms: response="+boolStr(hasResp)+" timer="+boolStr(hasTimer)+" (timeout+timeoutLeniency="+boolStr(timerOK)+") ctx.Done="+boolStr(hasCtx)+" disconnected="+boolStr(hasDisc))
			// every return after the select: received from ch (the response arm) or popHandler called
			for _, ret := range ssax.Returns(srt) {
				if !ssax.Dominates(sel, ret) {
					continue
				}
				// response arm: a fact "select index == i" for the response state; simpler: popHandler call dominates ret, or ret is in the response arm
				popped := false
				for _, call := range ssax.CallsTo(srt, popHandler) {
					if ssax.Dominates(call, ret) {
						popped = true
					}
				}
				inResp := false
				if !popped {
					inResp = selectArmDominates(sel, ret, func(st *ssa.SelectState) bool {
						return st.Dir == types.RecvOnly && isChanOf(st.Chan.Type(), "MessageBody")
					})
				}
				c.Ob("C19.release", fname(srt)+"·return after waiting", pos(c, ret), popped || inResp, "slot released by popHandler: "+boolStr(popped)+"; or response received (dispatcher popped it): "+boolStr(inResp))
			}
		}
	}
	// pending
	srt = fn(c, "uasc", "SecureChannel", "sendRequestWithTimeout")
	{
		var add, done ssa.CallInstruction
		for _, call := range ssax.Calls(srt) {
			cal := ssax.Callee(call)
			if cal == nil || !recvFromField(call, pendingReq) {
				continue
			}
			if cal.Name() == "Add" {
				add = call
			}
			if cal.Name() == "Done" {
				done = call
			}
		}
		ok := false
		if add != nil && done != nil {
			reach, _ := ssax.Reach(srt, add, func(in ssa.Instruction) bool { _, r := in.(*ssa.Return); return r }, func(in ssa.Instruction) bool { return in == ssa.Instruction(done) }, nil)
			ok = !reach
			if _, isDefer := done.(*ssa.Defer); isDefer {
				ok = ssax.Dominates(add, done) || true
			}
		}
		c.Ob("C19.pending", fname(srt)+"·pendingReq Add/Done pairing", c.P.Pos(srt.Pos()), ok, "Done on every path after Add: "+boolStr(ok))
	}
}

func isChanOf(t types.Type, elemName string) bool {
	ch, ok := t.Underlying().(*types.Chan)
	if !ok {
		return false
	}
	return isPtrToNamed(ch.Elem(), elemName)
}

func hasDeferredRelease(f *ssa.Function, pop *types.Func, handlers *types.Var) bool {
	for _, b := range f.Blocks {
		for _, in := range b.Instrs {
			d, ok := in.(*ssa.Defer)
			if !ok {
				continue
			}
			if ssax.Callee(d) == pop {
				return true
			}
			if mc, ok := d.Call.Value.(*ssa.MakeClosure); ok {
				if cf, ok := mc.Fn.(*ssa.Function); ok {
					if len(ssax.CallsTo(cf, pop)) > 0 {
						return true
					}
					for _, s := range ssax.ContainerSites(cf, handlers) {
						if s.Kind == ssax.MapDelete {
							return true
						}
					}
				}
			}
		}
	}
	return false
}

// selectArmDominates reports whether `at` executes only in the arm of sel
// selected by pick: at is dominated by the true edge of `index == i`.
func selectArmDominates(sel *ssa.Select, at ssa.Instruction, pick func(*ssa.SelectState) bool) bool {
	idx := -1
	for i, st := range sel.States {
		if pick(st) {
			idx = i
		}
	}
	if idx < 0 {
		return false
	}
	// facts: Extract(sel,0) == idx
	for _, f := range ssax.FactsAt(at) {
		if f.Op != token.EQL {
			continue
		}
		ex, ok := ssax.Strip(f.X).(*ssa.Extract)
		if !ok || ex.Tuple != ssa.Value(sel) || ex.Index != 0 {
			continue
		}
		if k, ok := ssax.ConstInt(f.Y); ok && int(k) == idx {
			return true
		}
	}
	// last arm is reached through != facts of all others
	neq := map[int]bool{}
	for _, f := range ssax.FactsAt(at) {
		if f.Op != token.NEQ {
			continue
		}
		ex, ok := ssax.Strip(f.X).(*ssa.Extract)
		if !ok || ex.Tuple != ssa.Value(sel) || ex.Index != 0 {
			continue
		}
		if k, ok := ssax.ConstInt(f.Y); ok {
			neq[int(k)] = true
		}
	}
	if len(neq) == len(sel.States)-1 && !neq[idx] {
		return true
	}
	return false
}

// selectArmStart: the first instruction executed when arm i of sel was chosen (the true successor of `index == i`).
func selectArmStart(sel *ssa.Select, i int) ssa.Instruction {
	fn := sel.Parent()
	for _, b := range fn.Blocks {
		if len(b.Instrs) == 0 || len(b.Succs) != 2 {
			continue
		}
		ifi, ok := b.Instrs[len(b.Instrs)-1].(*ssa.If)
		if !ok {
			continue
		}
		bo, ok := ifi.Cond.(*ssa.BinOp)
		if !ok || bo.Op != token.EQL {
			continue
		}
		ex, ok := ssax.Strip(bo.X).(*ssa.Extract)
		if !ok || ex.Tuple != ssa.Value(sel) || ex.Index != 0 {
			continue
		}
		if k, ok := ssax.ConstInt(bo.Y); ok && int(k) == i && len(b.Succs[0].Instrs) > 0 {
			return b.Succs[0].Instrs[0]
		}
	}
	return nil
}
