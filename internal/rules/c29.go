package rules

import (
	"go/token"
	"go/types"
	"sort"
	"strings"

	"golang.org/x/tools/go/ssa"

	"verif/internal/core"
	"verif/internal/lockset"
	"verif/internal/nilcheck"
	"verif/internal/ssax"
)

func init() { register("C29", c29) }

var nilProg = map[any]*nilcheck.Analysis{}

func nils(c *core.Ctx) *nilcheck.Analysis {
	if a, ok := nilProg[c.P]; ok {
		return a
	}
	a := nilcheck.New(c.P.CallGraph(), c.P.LibFunctions())
	a.FindNilFields()
	nilProg[c.P] = a
	return a
}

// serverScope: functions that run on behalf of clients in package server.
func serverScope(c *core.Ctx) map[*ssa.Function]bool {
	roots := registeredHandlers(c)
	for _, r := range [][2]string{{"Server", "handleService"}, {"Server", "monitorConnections"}, {"channelBroker", "RegisterConn"}, {"Subscription", "run"}, {"MonitoredItemService", "ChangeNotification"}, {"SubscriptionService", "DeleteSubscription"}, {"MonitoredItemService", "DeleteMonitoredItem"}} {
		if f := fn(c, "server", r[0], r[1]); f != nil {
			roots = append(roots, f)
		}
	}
	return reachableFrom(c, roots, "server")
}

func c29(c *core.Ctx) {
	initOwners(c)
	scope := serverScope(c)
	c.Count("functions in server request scope", len(scope))
	var fns []*ssa.Function
	for f := range scope {
		fns = append(fns, f)
	}
	sort.Slice(fns, func(i, j int) bool { return fns[i].Pos() < fns[j].Pos() })

	c.Rule("C29.recover", "package server installs no recover(): every panic on a goroutine that touches client data ends the process (this is what makes each rule below a crash condition)", 1)
	c.Rule("C29.nil", "no value that may be nil (result of a lookup function that can return nil — derived from the code: Server.Session, sessionBroker.Session, NameSpace.Node …, a map lookup with pointer elements, a failed comma-ok form, or a field such a value was parked in) is dereferenced in request-reachable server code without a dominating nil / ok check", 8)
	c.Rule("C29.ticker", "every time.NewTicker / time.Tick duration is provably >= 1: a positive constant, a value guarded by a dominating comparison, or a struct field all of whose stores in the library are so bounded (through helper functions whose every return is bounded); NewTicker panics otherwise", 1)
	c.Rule("C29.loop", "no loop in request-reachable server code has an exit condition that mentions only loop-invariant values while its body has no other exit (once entered it can only end by panicking or never)", 20)
	c.Rule("C29.lockorder", "the lock-order graph of package server (edge A→B when B is acquired, directly or in a callee, while A is held) has no cycle", 1)
	c.Rule("C29.rlock", "no RWMutex is read-locked again on a path that already holds its read lock (a writer queued in between deadlocks both)", 1)
	c.Rule("C29.blockheld", "no potentially blocking channel send (outside a select with default) is executed while holding a server mutex that request handlers need", 1)
	c.Rule("C29.balance", "every function of package server unlocks each mutex it locks on every path to a return (or defers the unlock): a request that takes an early return with a service mutex held blocks every later request", 10)
	lockBalance(c, "C29.balance", "server")
	c29IterAlias(c)
	// the subscription worker keeps draining the channel the dispatcher feeds under a mutex
	c.Rule("C29.drain", "every blocking select of (*Subscription).run that waits for the client's Publish request also receives from Subscription.NotifyChannel: MonitoredItemService.ChangeNotification sends into that channel without a default arm while holding the service mutex on the dispatcher goroutine, so a worker that stops draining while it waits for a silent client blocks the whole server after the channel's capacity is used up", 1)
	if run := fn(c, "server", "Subscription", "run"); run != nil {
		notifyF := field(c, "server", "Subscription", "NotifyChannel")
		pubF := field(c, "server", "session", "PublishRequests")
		n := 0
		for _, g := range withHelpers(run) {
			for _, b := range g.Blocks {
				for _, in := range b.Instrs {
					sel, ok := in.(*ssa.Select)
					if !ok || !sel.Blocking {
						continue
					}
					waitsClient, drains := false, false
					for _, st := range sel.States {
						if st.Dir != types.RecvOnly {
							continue
						}
						switch loadedField(st.Chan).f {
						case pubF:
							waitsClient = true
						case notifyF:
							drains = true
						}
					}
					if !waitsClient || pubF == nil {
						continue
					}
					n++
					c.Ob("C29.drain", fname(run)+"·select waiting for a Publish request", pos(c, sel), drains, "also receives from NotifyChannel: "+boolStr(drains))
				}
			}
		}
		if n == 0 {
			c.Ob("C29.drain", fname(run)+"·select waiting for a Publish request", c.P.Pos(run.Pos()), false, "no blocking select on Session.PublishRequests found in the subscription worker")
		}
	}
	c.Rule("C29.index", "no constant index into a slice returned by a call (e.g. Endpoints()[0]) without a dominating length check", 1)

	// recover
	{
		n := 0
		for _, f := range libFns(c, "server") {
			for _, call := range ssax.Calls(f) {
				if ssax.IsBuiltin(call, "recover") {
					n++
				}
			}
		}
		c.Ob("C29.recover", "server·recover() sites", "-", true, "recover() calls in package server: "+itoa(n)+" (0 means every panic is fatal; the rules below are then crash conditions)")
	}
	// nil
	{
		na := nils(c)
		for _, f := range fns {
			for _, d := range na.Check(f) {
				if d.Store != nil {
					// parked in a field: violation only if some reader derefs it unguarded (NilFields are sources themselves)
					continue
				}
				c.Ob("C29.nil", fname(f)+"·"+shortWhy(d.Src.Why)+"·"+d.How, pos(c, d.At), false, d.Src.Why+" is used ("+d.How+") without a nil/ok check: a single request can crash the server")
			}
		}
		// discharged instances: sources with all derefs guarded
		for _, f := range fns {
			for _, s := range na.Sources(f) {
				guardedAll := true
				for _, d := range na.Check(f) {
					if d.Src.V == s.V && d.Store == nil {
						guardedAll = false
					}
				}
				if guardedAll {
					c.Ob("C29.nil", fname(f)+"·"+shortWhy(s.Why)+"·all uses guarded", vpos(c, s.V), true, "every dereference is dominated by a nil/ok check (or there is none)")
				}
			}
		}
	}
	// ticker
	for _, f := range fns {
		for _, call := range ssax.Calls(f) {
			cal := ssax.Callee(call)
			if cal == nil || cal.Pkg() == nil || cal.Pkg().Path() != "time" || (cal.Name() != "NewTicker" && cal.Name() != "Tick") {
				continue
			}
			arg := call.Common().Args[0]
			if k, ok := ssax.ConstInt(arg); ok {
				c.Ob("C29.ticker", fname(f)+"·time."+cal.Name(), pos(c, call), k > 0, "constant duration "+itoa(int(k)))
				continue
			}
			pr := &ssax.Prover{FieldStores: func(fl *types.Var) []*ssa.Store {
				var out []*ssa.Store
				for _, g := range libFns(c) {
					for _, a := range ssax.FieldAccesses(g, fl) {
						if st, ok := a.Use.(*ssa.Store); ok && a.Kind == ssax.Write {
							out = append(out, st)
						}
					}
				}
				return out
			}}
			positive := pr.AtLeastOne(arg, call)
			c.Ob("C29.ticker", fname(f)+"·time."+cal.Name(), pos(c, call), positive, "duration "+ssax.Path(arg)+" is not known to be positive: a request-chosen interval of 0 panics in time.NewTicker")
		}
	}
	// loop
	for _, f := range fns {
		for _, l := range ssax.Loops(f) {
			exits := l.Exits()
			if len(exits) == 0 {
				continue // `for {}` with returns handled elsewhere (select loops have returns → exits)
			}
			allInvariant := true
			var cond *ssa.If
			for _, e := range exits {
				if e[1] == nil {
					// return / panic inside: a real exit — unless it is only a panic
					last := e[0].Instrs[len(e[0].Instrs)-1]
					if _, isPanic := last.(*ssa.Panic); isPanic {
						continue
					}
					allInvariant = false
					continue
				}
				ifi, ok := e[0].Instrs[len(e[0].Instrs)-1].(*ssa.If)
				if !ok {
					allInvariant = false
					continue
				}
				if cond == nil {
					cond = ifi
				}
				if !invariantCond(l, ifi.Cond) {
					allInvariant = false
				}
			}
			if cond == nil {
				continue
			}
			c.Ob("C29.loop", fname(f)+"·loop exits", pos(c, cond), !allInvariant, "exit condition is loop-invariant and the body has no other exit: "+boolStr(allInvariant))
		}
	}
	// lock order, rlock, blockheld
	{
		ls := locks(c)
		lockOrderRules(c, "C29.lockorder", "C29.rlock", "server", []string{"server"}, "two goroutines can deadlock, and with them the single dispatcher", "a writer (e.g. AddNode) queued between the two RLocks blocks the second one for ever and with it the dispatcher")
		// blockheld
		for _, f := range libFns(c, "server") {
			for _, b := range f.Blocks {
				for _, in := range b.Instrs {
					sd, ok := in.(*ssa.Send)
					if !ok {
						continue
					}
					held := ls.HeldAt(sd)
					if len(held) == 0 {
						c.Ob("C29.blockheld", fname(f)+"·send on "+chanName(sd.Chan), pos(c, sd), true, "blocking send with no mutex held")
						continue
					}
					c.Ob("C29.blockheld", fname(f)+"·send on "+chanName(sd.Chan)+" holding "+held.String(), pos(c, sd), false, "a bounded channel whose drainer is gone or slow blocks this goroutine while it holds "+held.String()+"; every handler needing that mutex then hangs")
				}
			}
		}
	}
	// index
	for _, f := range fns {
		for _, b := range f.Blocks {
			for _, in := range b.Instrs {
				ia, ok := in.(*ssa.IndexAddr)
				if !ok {
					continue
				}
				k, isConst := ssax.ConstInt(ia.Index)
				if !isConst {
					continue
				}
				call, ok := ssax.Strip(ia.X).(*ssa.Call)
				if !ok || ssax.IsBuiltin(call, "append") {
					continue
				}
				if _, isSlice := ia.X.Type().Underlying().(*types.Slice); !isSlice {
					continue
				}
				okLen := false
				for _, fact := range ssax.FactsAt(ia) {
					if lc, ok := ssax.Strip(fact.X).(*ssa.Call); ok && ssax.IsBuiltin(lc, "len") && ssax.Strip(lc.Call.Args[0]) == ssa.Value(call) {
						if n, ok := ssax.ConstInt(fact.Y); ok && ((fact.Op == token.GTR && n >= k) || (fact.Op == token.GEQ && n > k) || (fact.Op == token.NEQ && n == 0 && k == 0)) {
							okLen = true
						}
					}
				}
				c.Ob("C29.index", fname(f)+"·"+calleeNameOf(call)+"()["+itoa(int(k))+"]", pos(c, ia), okLen, "index "+itoa(int(k))+" into the result of "+calleeNameOf(call)+" without a length check: panics when the slice is shorter")
			}
		}
	}
}

func hasRule(c *core.Ctx, rule string) bool {
	for _, o := range c.Obs {
		if o.Rule == rule {
			return true
		}
	}
	return false
}

func calleeNameOf(call *ssa.Call) string {
	if f := ssax.Callee(call); f != nil {
		return f.Name()
	}
	return "call"
}

func chanName(v ssa.Value) string {
	if ld := loadedField(v); ld.f != nil {
		return ssax.FieldString(ld.f)
	}
	return ssax.Path(v)
}

func itoa(i int) string {
	return strings.TrimSpace(strings.Replace(strings.Replace(string(rune(0)), "\x00", "", -1), "", "", -1)) + fmtInt(i)
}

func fmtInt(i int) string {
	if i == 0 {
		return "0"
	}
	neg := i < 0
	if neg {
		i = -i
	}
	var b []byte
	for i > 0 {
		b = append([]byte{byte('0' + i%10)}, b...)
		i /= 10
	}
	if neg {
		return "-" + string(b)
	}
	return string(b)
}

// shortWhy compresses a source description for use in instance keys.
func shortWhy(s string) string {
	s = strings.TrimPrefix(s, "result of ")
	if i := strings.Index(s, " ("); i > 0 {
		s = s[:i]
	}
	return s
}

// mentions: expression e is built from value x (same path).
func mentions(e, x ssa.Value) bool {
	px := ssax.Path(x)
	return px != "" && strings.Contains(ssax.Path(e), px)
}

// invariantCond: every non-constant leaf of cond is defined outside the loop.
func invariantCond(l *ssax.Loop, cond ssa.Value) bool {
	seen := map[ssa.Value]bool{}
	var inv func(v ssa.Value, d int) bool
	inv = func(v ssa.Value, d int) bool {
		if d > 8 || seen[v] {
			return true
		}
		seen[v] = true
		switch x := v.(type) {
		case *ssa.Const, *ssa.Parameter, *ssa.FreeVar, *ssa.Global:
			return true
		case *ssa.BinOp:
			return inv(x.X, d+1) && inv(x.Y, d+1)
		case *ssa.UnOp:
			if x.Op == token.MUL {
				// a load: invariant only if nothing in the loop stores (we cannot tell cheaply) → treat loads inside the loop as variant
				return !l.DefinedInLoop(x)
			}
			return inv(x.X, d+1)
		case *ssa.Convert:
			return inv(x.X, d+1)
		case *ssa.Phi:
			return !l.DefinedInLoop(x)
		default:
			if in, ok := v.(ssa.Instruction); ok {
				return !l.Blocks[in.Block()]
			}
			return true
		}
	}
	return inv(cond, 0)
}

// lockOrderRules builds the lock-order graph of the given packages (edge A→B
// when B is acquired — directly or in a callee — while A is held) and reports
// cycles and recursive acquisitions.
func lockOrderRules(c *core.Ctx, orderRule, relockRule, scope string, shorts []string, cycleWhy, rlockWhy string) {
	ls := locks(c)
	type edge struct{ a, b string }
	edges := map[edge]ssa.Instruction{}
	cg := c.P.CallGraph()
	acq := map[*ssa.Function]map[string]bool{}
	sfns := libFns(c, shorts...)
	for _, f := range sfns {
		acq[f] = map[string]bool{}
		for _, call := range ssax.Calls(f) {
			if _, isDefer := call.(*ssa.Defer); isDefer {
				continue
			}
			if op, ok := lockset.LockOp(call); ok && op.Acquire && op.Mutex != "" {
				k := op.Mutex
				if op.Read {
					k += ":r"
				}
				acq[f][k] = true
			}
		}
	}
	for changed := true; changed; {
		changed = false
		for _, f := range sfns {
			n := cg.Nodes[f]
			if n == nil {
				continue
			}
			for _, e := range n.Out {
				if _, isGo := e.Site.(*ssa.Go); isGo {
					continue
				}
				for k := range acq[e.Callee.Func] {
					if !acq[f][k] {
						acq[f][k] = true
						changed = true
					}
				}
			}
		}
	}
	nRelock := 0
	noted := map[string]bool{}
	addEdge := func(f *ssa.Function, at ssa.Instruction, held lockset.Set, k string) {
		m := strings.TrimSuffix(k, ":r")
		read := strings.HasSuffix(k, ":r")
		for h := range held {
			hm := strings.TrimSuffix(h, ":r")
			// mutexes with several live instances per owner: an instance-insensitive identity cannot
			// tell "the same object twice" from "two objects of one type" (DESIGN §8) — evidence only
			if why, multi := multiInstanceMutex[m]; multi || multiInstanceMutex[hm] != "" {
				if why == "" {
					why = multiInstanceMutex[hm]
				}
				if !noted[hm+"→"+m] {
					noted[hm+"→"+m] = true
					c.Info(orderRule, scope+"·"+hm+" then "+m+" (not decided)", pos(c, at), "evidence only: "+why)
				}
				continue
			}
			if hm == m {
				if ls.Entry(f)[h] {
					continue // inherited from the caller: reported at the function that took the lock
				}
				nRelock++
				if strings.HasSuffix(h, ":r") && read {
					c.Ob(relockRule, fname(f)+"·RLock of "+m+" while already read-locked", pos(c, at), false, "recursive read lock: "+rlockWhy)
				} else {
					c.Ob(relockRule, fname(f)+"·re-lock of "+m, pos(c, at), false, "the mutex is acquired while already held on this path: self-deadlock")
				}
				continue
			}
			e := edge{hm, m}
			if _, ok := edges[e]; !ok {
				edges[e] = at
			}
		}
	}
	for _, f := range sfns {
		for _, call := range ssax.Calls(f) {
			switch call.(type) {
			case *ssa.Defer, *ssa.Go:
				continue
			}
			held := ls.HeldAt(call)
			if len(held) == 0 {
				continue
			}
			if op, ok := lockset.LockOp(call); ok {
				if op.Acquire && op.Mutex != "" {
					k := op.Mutex
					if op.Read {
						k += ":r"
					}
					addEdge(f, call, held, k)
				}
				continue
			}
			if n := cg.Nodes[f]; n != nil {
				for _, e := range n.Out {
					if e.Site != call {
						continue
					}
					for k := range acq[e.Callee.Func] {
						addEdge(f, call, held, k)
					}
				}
			}
		}
	}
	adj := map[string][]string{}
	for e := range edges {
		adj[e.a] = append(adj[e.a], e.b)
	}
	reported := map[string]bool{}
	var keys []string
	for e := range edges {
		keys = append(keys, e.a+"→"+e.b)
	}
	sort.Strings(keys)
	for _, k := range keys {
		parts := strings.Split(k, "→")
		a, b := parts[0], parts[1]
		seen := map[string]bool{}
		var dfs func(x string) bool
		dfs = func(x string) bool {
			if x == a {
				return true
			}
			if seen[x] {
				return false
			}
			seen[x] = true
			for _, y := range adj[x] {
				if dfs(y) {
					return true
				}
			}
			return false
		}
		if dfs(b) {
			pair := []string{a, b}
			sort.Strings(pair)
			id := strings.Join(pair, "↔")
			if reported[id] {
				continue
			}
			reported[id] = true
			c.Ob(orderRule, scope+"·lock order "+id, pos(c, edges[edge{a, b}]), false, "both orders occur ("+a+" then "+b+" here; the reverse elsewhere): "+cycleWhy)
		} else {
			c.Ob(orderRule, scope+"·lock order "+a+"→"+b, pos(c, edges[edge{a, b}]), true, "no reverse order reachable")
		}
	}
	if len(keys) == 0 {
		c.Ob(orderRule, scope+"·no nested lock acquisition", "-", true, "no mutex is acquired while another is held")
	}
	if nRelock == 0 {
		c.Ob(relockRule, scope+"·no recursive lock acquisition", "-", true, "no mutex is (read-)locked again while held")
	}
}

// multiInstanceMutex lists mutexes of which several instances are alive per
// owner and are nested by design; each with the reason confirmed by reading.
var multiInstanceMutex = map[string]string{
	"uasc.channelInstance.Mutex": "renew() holds the mutex of the token instance being renewed while open() sends with the new opening instance's mutex: two different objects of one type; the instance-insensitive lockset cannot decide these orders",
}
