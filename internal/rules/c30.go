package rules

import (
	"go/token"
	"go/types"

	"golang.org/x/tools/go/ssa"

	"verif/internal/core"
	"verif/internal/ssax"
)

func init() { register("C30", c30) }

func c30(c *core.Ctx) {
	initOwners(c)
	enabledSec := field(c, "server", "serverConfig", "enabledSec")
	endpointsF := field(c, "server", "Server", "endpoints")
	cfgMode := field(c, "uasc", "Config", "SecurityMode")
	cfgPolicy := field(c, "uasc", "Config", "SecurityPolicyURI")
	reqMode := field(c, "ua", "OpenSecureChannelRequest", "SecurityMode")
	hdrPolicy := field(c, "uasc", "AsymmetricSecurityHeader", "SecurityPolicyURI")
	initEP := fn(c, "server", "Server", "initEndpoints")
	recv := fn(c, "uasc", "SecureChannel", "Receive")
	regConn := fn(c, "server", "channelBroker", "RegisterConn")
	epMode := field(c, "ua", "EndpointDescription", "SecurityMode")
	epPolicy := field(c, "ua", "EndpointDescription", "SecurityPolicyURI")
	secMode := field(c, "server", "security", "secMode")
	secPolicy := field(c, "server", "security", "secPolicy")
	if enabledSec == nil || endpointsF == nil || cfgMode == nil || cfgPolicy == nil || reqMode == nil || hdrPolicy == nil || initEP == nil || recv == nil || regConn == nil || epMode == nil || epPolicy == nil || secMode == nil || secPolicy == nil {
		return
	}
	c.Rule("C30.admit", "the set of enabled (policy, mode) pairs reaches the point where a channel is admitted: serverConfig.enabledSec (or Server.endpoints built from it) is read by some function on the path that accepts a connection and handles its OpenSecureChannel request (RegisterConn, the uasc receive path, or a callback/config handed to the server channel)", 1)
	c.Rule("C30.mode", "a security mode / policy URI taken from the wire is stored into the channel configuration only after it was compared with allowed values (membership / consistency test dominating the store)", 2)
	c.Rule("C30.advertise", "every advertised endpoint takes its SecurityMode and SecurityPolicyURI from an element of serverConfig.enabledSec, and GetEndpoints / CreateSession return only elements of Server.endpoints", 4)

	// admit
	{
		path := reachableFrom(c, []*ssa.Function{regConn, recv}, "server", "uasc")
		c.Count("functions on the channel admission path", len(path))
		found := false
		var where string
		for f := range path {
			for _, fl := range []*types.Var{enabledSec, endpointsF} {
				for _, a := range ssax.FieldAccesses(f, fl) {
					if a.Kind == ssax.Read {
						found = true
						where = fname(f) + " reads " + ssax.FieldString(fl)
					}
				}
			}
		}
		// or: a caller of RegisterConn passes data derived from enabledSec
		if !found {
			if n := c.P.CallGraph().Nodes[regConn]; n != nil {
				for _, e := range n.In {
					for _, arg := range e.Site.Common().Args {
						for _, o := range ssax.Origins(arg, nil, 0) {
							if o.Field == enabledSec || o.Field == endpointsF {
								found = true
								where = "passed to RegisterConn by " + fname(e.Caller.Func)
							}
						}
					}
				}
			}
		}
		c.Ob("C30.admit", "server·enabledSec reaches channel admission", c.P.Pos(regConn.Pos()), found, "enabled pairs consulted on the admission path: "+boolStr(found)+" "+where+" — otherwise the server channel adopts whatever policy and mode the client puts on the wire")
	}
	// mode / policy stores from the wire
	{
		wire := reachableFrom(c, []*ssa.Function{recv}, "uasc")
		for f := range wire {
			for _, t := range []struct {
				dst, src *types.Var
				what     string
			}{{cfgMode, reqMode, "SecurityMode from OpenSecureChannelRequest"}, {cfgPolicy, hdrPolicy, "SecurityPolicyURI from the asymmetric security header"}} {
				for _, a := range ssax.FieldAccesses(f, t.dst) {
					st, ok := a.Use.(*ssa.Store)
					if !ok || a.Kind != ssax.Write {
						continue
					}
					fromWire := false
					for _, o := range ssax.Origins(st.Val, nil, 0) {
						if o.Field == t.src {
							fromWire = true
						}
					}
					if !fromWire {
						continue
					}
					// a dominating comparison / call result on the stored value
					checked := false
					vp := ssax.Path(st.Val)
					for _, fact := range ssax.FactsAt(st) {
						if ssax.Path(fact.X) == vp || ssax.Path(fact.Y) == vp {
							checked = true
						}
					}
					trues, falses := ssax.BoolFactsAt(st)
					for _, v := range append(trues, falses...) {
						if call, ok := v.(*ssa.Call); ok {
							for _, arg := range call.Call.Args {
								if ssax.Path(arg) == vp {
									checked = true
								}
							}
						}
					}
					c.Ob("C30.mode", fname(f)+"·cfg."+t.dst.Name()+" = wire value", pos(c, st), checked, t.what+" is stored into the channel configuration; validated before the store: "+boolStr(checked))
				}
			}
		}
	}
	// every server channel starts from its own configuration object: the negotiated policy and mode are written into it
	c.Rule("C30.fresh", "the uasc.Config handed to NewServerSecureChannel is allocated per connection (a fresh object, in place or from a constructor that allocates on every return): the policy / mode negotiated on one channel is written into that object and must not become the starting point — or the effective mode — of another client's channel", 1)
	{
		// followed from the call that creates the channel: the argument is an object allocated for this call, either
		// in place or by a constructor every return of which hands out its own allocation (whatever it is called)
		var fresh func(v ssa.Value, d int) (bool, string)
		fresh = func(v ssa.Value, d int) (bool, string) {
			v = ssax.Strip(v)
			switch x := v.(type) {
			case *ssa.Alloc:
				if x.Heap {
					return true, "a fresh allocation"
				}
			case *ssa.Call:
				h := x.Call.StaticCallee()
				if h != nil && len(h.Blocks) > 0 && d < 3 {
					for _, r := range ssax.Returns(h) {
						if len(r.Results) == 0 {
							return false, fname(h) + " returns nothing"
						}
						if ok, why := fresh(ssax.RetVal(r, 0), d+1); !ok {
							return false, fname(h) + " returns " + why
						}
					}
					return true, "allocated by " + fname(h) + " on every return"
				}
			case *ssa.Phi:
				if d < 3 {
					for _, e := range x.Edges {
						if ok, why := fresh(e, d+1); !ok {
							return false, why
						}
					}
					return true, "a fresh allocation on every path"
				}
			}
			return false, ssax.Path(v) + ", not an object allocated for this connection: all server channels share it"
		}
		nsc := obj(c, "uasc", "", "NewServerSecureChannel")
		for _, f := range libFns(c, "server") {
			for _, call := range ssax.CallsTo(f, nsc) {
				args := call.Common().Args
				ok, why := fresh(args[2], 0)
				c.Ob("C30.fresh", fname(f)+"·fresh config per connection", pos(c, call), ok, "the configuration handed to NewServerSecureChannel is "+why)
			}
		}
	}
	// the peer's certificate is looked at whenever the requested mode asks for security
	c.Rule("C30.cert", "handleOpenSecureChannelRequest answers a request whose SecurityMode is not None only after the peer's certificate was parsed (a failure refuses the request): evaluated under `SecurityMode != None`, no nil-error return is reachable without passing the parse of Config.RemoteCertificate — however the guard is spelled. A guard on the policy instead lets policy None with mode Sign through, a pair no server configuration enables", 1)
	if h := fn(c, "uasc", "SecureChannel", "handleOpenSecureChannelRequest"); h != nil {
		remoteCert := field(c, "uasc", "Config", "RemoteCertificate")
		modeF := field(c, "uasc", "Config", "SecurityMode")
		if remoteCert != nil && modeF != nil {
			leaf := func(v ssa.Value) (bool, bool) {
				cmp, neg, ok := ssax.AsCmp(v)
				if !ok {
					return false, false
				}
				x, y := cmp.X, cmp.Y
				if _, isK := ssax.ConstInt(x); isK {
					x, y = y, x
				}
				k, isK := ssax.ConstInt(y)
				if !isK || k != 1 || loadedField(x).f != modeF { // ua.MessageSecurityModeNone == 1
					return false, false
				}
				val := cmp.Op == token.NEQ
				if cmp.Op != token.NEQ && cmp.Op != token.EQL {
					return false, false
				}
				if neg {
					val = !val
				}
				return val, true
			}
			parses := func(in ssa.Instruction) bool {
				call, ok := in.(ssa.CallInstruction)
				if !ok {
					return false
				}
				for _, a := range call.Common().Args {
					if loadedField(a).f == remoteCert {
						return true
					}
				}
				return false
			}
			n, bad := 0, 0
			var where *ssa.Return
			for _, r := range ssax.Returns(h) {
				if r.Block() == h.Recover || len(r.Results) == 0 || !ssax.IsNil(ssax.RetVal(r, len(r.Results)-1)) {
					continue
				}
				n++
				if ssax.GuidedReachAvoid(h, r, parses, leaf) {
					bad++
					where = r
				}
			}
			at := c.P.Pos(h.Pos())
			if where != nil {
				at = pos(c, where)
			}
			c.Ob("C30.cert", fname(h)+"·secured mode ⇒ peer certificate parsed", at, n > 0 && bad == 0, fmtInt(n)+" success return(s); reachable under SecurityMode != None without parsing the peer's certificate: "+fmtInt(bad))
		}
	}
	// advertise
	{
		for _, t := range []struct {
			dst, src *types.Var
		}{{epMode, secMode}, {epPolicy, secPolicy}} {
			n := 0
			for _, a := range ssax.FieldAccesses(initEP, t.dst) {
				st, ok := a.Use.(*ssa.Store)
				if !ok || a.Kind != ssax.Write {
					continue
				}
				n++
				ok2 := false
				overwritten := ""
				for _, o := range ssax.Origins(st.Val, nil, 0) {
					if o.Field == t.src {
						// base: range element of enabledSec
						ok2 = true
						// the copy of the configured pair the endpoint is built from must not be modified
						// (it lives across the iterations of the inner loops)
						if cell, isCell := ssax.Strip(o.Base).(*ssa.Alloc); isCell {
							for _, b := range initEP.Blocks {
								for _, in := range b.Instrs {
									if w, isSt := in.(*ssa.Store); isSt {
										if fa, isFA := w.Addr.(*ssa.FieldAddr); isFA && fa.X == ssa.Value(cell) {
											overwritten = "the configured pair is overwritten at " + pos(c, w) + " (" + ssax.Path(w.Addr) + ") before later endpoints are built from it"
										}
									}
								}
							}
						}
					}
				}
				d := "taken from an enabledSec element: " + boolStr(ok2)
				if overwritten != "" {
					d += "; " + overwritten
				}
				c.Ob("C30.advertise", fname(initEP)+"·EndpointDescription."+t.dst.Name(), pos(c, st), ok2 && overwritten == "", d)
			}
			if n == 0 {
				c.Ob("C30.advertise", fname(initEP)+"·EndpointDescription."+t.dst.Name(), c.P.Pos(initEP.Pos()), false, "endpoint field is never set from the enabled pairs")
			}
		}
		// the loop ranges over enabledSec
		ranged := false
		for _, a := range ssax.FieldAccesses(initEP, enabledSec) {
			if a.Kind == ssax.Read {
				ranged = true
			}
		}
		c.Ob("C30.advertise", fname(initEP)+"·iterates enabledSec", c.P.Pos(initEP.Pos()), ranged, "initEndpoints reads serverConfig.enabledSec: "+boolStr(ranged))
		// GetEndpoints / CreateSession
		for _, h := range [][3]string{{"DiscoveryService", "GetEndpoints", "Endpoints"}, {"SessionService", "CreateSession", "ServerEndpoints"}} {
			f := fn(c, "server", h[0], h[1])
			if f == nil {
				continue
			}
			okAll := true
			n := 0
			for _, b := range f.Blocks {
				for _, in := range b.Instrs {
					call, ok := in.(*ssa.Call)
					if !ok || !ssax.IsBuiltin(call, "append") {
						continue
					}
					if !isSliceOfPtrNamed(call.Type(), "EndpointDescription") {
						continue
					}
					for _, v := range appendedValues(call) {
						n++
						from := false
						for _, o := range ssax.Origins(v, nil, 0) {
							if u, ok := o.Other.(*ssa.UnOp); ok {
								if ia, ok := u.X.(*ssa.IndexAddr); ok && loadedField(ia.X).f == endpointsF {
									from = true
								}
							}
						}
						if !from {
							okAll = false
						}
					}
				}
			}
			c.Ob("C30.advertise", fname(f)+"·returned endpoints ⊆ Server.endpoints", c.P.Pos(f.Pos()), okAll && n > 0, "every returned endpoint is an element of Server.endpoints: "+boolStr(okAll && n > 0))
		}
	}
}

func isSliceOfPtrNamed(t types.Type, name string) bool {
	s, ok := t.Underlying().(*types.Slice)
	return ok && isPtrToNamed(s.Elem(), name)
}
