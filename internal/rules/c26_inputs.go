package rules

import (
	"go/constant"
	"go/token"
	"go/types"
	"sort"
	"strings"

	"golang.org/x/tools/go/ssa"

	"verif/internal/core"
	"verif/internal/ssax"
)

// C26.inputs — the reconnect state machine of (*Client).monitor hands data from
// one step to a later one through loop-carried locals (the lists of subscriptions
// to republish / recreate, the retransmission queues, the number of active
// subscriptions). A step that reads such a local relies on an earlier step of the
// same recovery having stored it. The rule runs a data flow over (state, "still
// the zero value it was declared with") pairs, taking the transitions from the
// SSA form of the state loop (value of the state variable and of the local on each
// edge into the loop header), and reports every state that can be entered with an
// input nobody has stored yet. This decides a shape: which step runs with which
// inputs on which sequence of steps; what the steps do with them is not examined.
func c26Inputs(c *core.Ctx) {
	c.Rule("C26.inputs", "no step of the reconnect state machine reads a loop-carried local (subscriptions to republish / recreate, available sequence numbers, number of active subscriptions) on a sequence of steps along which no step has stored it: after a channel loss with the session kept (createSecureChannel → restoreSession → restoreSubscriptions) the lists were still empty, nothing was restored, and the publish loop paused at the start of the recovery was never resumed", 3)
	mon := fn(c, "opcua", "Client", "monitor")
	if mon == nil {
		return
	}
	// the state variable: a phi of type reconnectAction at a loop header
	var A *ssa.Phi
	var loop *ssax.Loop
	for _, l := range ssax.Loops(mon) {
		for _, in := range l.Header.Instrs {
			ph, ok := in.(*ssa.Phi)
			if !ok {
				break
			}
			if nt, ok := ph.Type().(*types.Named); ok && nt.Obj().Name() == "reconnectAction" {
				if A == nil || len(l.Blocks) > len(loop.Blocks) {
					A, loop = ph, l
				}
			}
		}
	}
	if A == nil {
		c.Fatal("C26.inputs: no loop-carried variable of type reconnectAction in (*Client).monitor (the state loop was not found)")
		return
	}
	// the enumeration
	names := map[int64]string{}
	var states []int64
	scope := A.Type().(*types.Named).Obj().Pkg().Scope()
	for _, n := range scope.Names() {
		if k, ok := scope.Lookup(n).(*types.Const); ok && types.Identical(k.Type(), A.Type()) {
			if v, ok := constant.Int64Val(k.Val()); ok {
				names[v] = n
				states = append(states, v)
			}
		}
	}
	sort.Slice(states, func(i, j int) bool { return states[i] < states[j] })
	if len(states) < 2 {
		c.Fatal("C26.inputs: enumeration reconnectAction not found")
		return
	}
	name := func(s int64) string {
		if n, ok := names[s]; ok {
			return n
		}
		return "reconnectAction(" + fmtInt(int(s)) + ")"
	}
	// states in which a block can execute, from the comparisons of the state variable that dominate it
	armStates := func(b *ssa.BasicBlock) []int64 {
		if len(b.Instrs) == 0 {
			return states
		}
		excluded := map[int64]bool{}
		only := int64(-1)
		has := false
		for _, f := range ssax.FactsAt(b.Instrs[0]) {
			x, y := f.X, f.Y
			if y == ssa.Value(A) {
				x, y = y, x
			}
			if x != ssa.Value(A) {
				continue
			}
			k, ok := ssax.ConstInt(y)
			if !ok {
				continue
			}
			switch f.Op {
			case token.EQL:
				only, has = k, true
			case token.NEQ:
				excluded[k] = true
			}
		}
		if has {
			return []int64{only}
		}
		var out []int64
		for _, s := range states {
			if !excluded[s] {
				out = append(out, s)
			}
		}
		return out
	}
	// leaves of a value through phis that are not header phis
	var mayBe func(v ssa.Value, target ssa.Value, seen map[ssa.Value]bool) bool
	mayBe = func(v, target ssa.Value, seen map[ssa.Value]bool) bool {
		if v == target {
			return true
		}
		if seen[v] {
			return false
		}
		seen[v] = true
		if ph, ok := v.(*ssa.Phi); ok && ph.Block() != loop.Header {
			for _, e := range ph.Edges {
				if mayBe(e, target, seen) {
					return true
				}
			}
		}
		return false
	}
	type tr struct {
		to        int64
		same      bool // the state variable is unchanged on this edge
		unchanged bool // the local may still hold what it held at the loop header
	}
	var joint func(av, vv ssa.Value, V *ssa.Phi, d int) []tr
	joint = func(av, vv ssa.Value, V *ssa.Phi, d int) []tr {
		un := mayBe(vv, V, map[ssa.Value]bool{})
		if k, ok := ssax.ConstInt(av); ok {
			return []tr{{to: k, unchanged: un}}
		}
		if av == ssa.Value(A) {
			return []tr{{same: true, unchanged: un}}
		}
		if ph, ok := av.(*ssa.Phi); ok && d < 8 {
			var out []tr
			vp, vok := vv.(*ssa.Phi)
			for j, e := range ph.Edges {
				w := vv
				if vok && vp.Block() == ph.Block() && vp != V {
					w = vp.Edges[j]
				}
				out = append(out, joint(e, w, V, d+1)...)
			}
			return out
		}
		// the next state comes from a function of the library: whatever that function can return
		if call, ok := av.(*ssa.Call); ok && d < 8 {
			if h := call.Call.StaticCallee(); h != nil && len(h.Blocks) > 0 {
				var out []tr
				for _, r := range ssax.Returns(h) {
					if len(r.Results) == 0 {
						continue
					}
					for _, t := range joint(ssax.RetVal(r, 0), vv, V, d+1) {
						if t.same {
							// a phi of the callee cannot be "the caller's state variable unchanged"
							continue
						}
						out = append(out, t)
					}
				}
				if len(out) > 0 {
					return out
				}
			}
		}
		// the next state is computed: any
		var out []tr
		for _, s := range states {
			out = append(out, tr{to: s, unchanged: un})
		}
		return out
	}
	isZero := func(v ssa.Value) bool {
		k, ok := v.(*ssa.Const)
		if !ok {
			return false
		}
		if k.Value == nil {
			return true
		}
		switch k.Value.Kind() {
		case constant.Int:
			n, ok := constant.Int64Val(k.Value)
			return ok && n == 0
		case constant.Bool:
			return !constant.BoolVal(k.Value)
		case constant.String:
			return constant.StringVal(k.Value) == ""
		}
		return false
	}
	nVars := 0
	for _, in := range loop.Header.Instrs {
		V, ok := in.(*ssa.Phi)
		if !ok {
			break
		}
		if V == A {
			continue
		}
		// declared with its zero value in front of the loop?
		zeroEntry := false
		for i, p := range loop.Header.Preds {
			if !loop.Blocks[p] && isZero(V.Edges[i]) {
				zeroEntry = true
			}
		}
		if !zeroEntry {
			continue
		}
		// stored by some step at all?
		stored := false
		for i, p := range loop.Header.Preds {
			if loop.Blocks[p] && !mayBe(V.Edges[i], V, map[ssa.Value]bool{}) {
				stored = true
			}
		}
		if !stored {
			continue
		}
		nVars++
		vname := V.Comment
		if vname == "" {
			vname = V.Name()
		}
		// reads of the value the local has at the loop header
		type read struct {
			in ssa.Instruction
			st []int64
		}
		var reads []read
		seen := map[ssa.Value]bool{}
		var collect func(v ssa.Value)
		collect = func(v ssa.Value) {
			if seen[v] {
				return
			}
			seen[v] = true
			refs := v.Referrers()
			if refs == nil {
				return
			}
			for _, r := range *refs {
				if ph, ok := r.(*ssa.Phi); ok {
					if ph.Block() != loop.Header {
						collect(ph)
					}
					continue
				}
				if _, ok := r.(*ssa.DebugRef); ok {
					continue
				}
				reads = append(reads, read{r, armStates(r.Block())})
			}
		}
		collect(V)
		// reachable (state, still zero) pairs
		type st struct {
			s    int64
			zero bool
		}
		from := map[st]st{}
		root := st{-1, false}
		var work []st
		add := func(n, parent st) {
			if _, ok := from[n]; ok {
				return
			}
			from[n] = parent
			work = append(work, n)
		}
		type edge struct {
			src []int64
			t   tr
		}
		var edges []edge
		for i, p := range loop.Header.Preds {
			ts := joint(A.Edges[i], V.Edges[i], V, 0)
			if !loop.Blocks[p] {
				for _, t := range ts {
					if t.same {
						continue
					}
					add(st{t.to, isZero(V.Edges[i])}, root)
				}
				continue
			}
			src := states
			if len(p.Instrs) > 0 {
				src = armStates(p)
			}
			for _, t := range ts {
				edges = append(edges, edge{src, t})
			}
		}
		for len(work) > 0 {
			cur := work[len(work)-1]
			work = work[:len(work)-1]
			for _, e := range edges {
				in := false
				for _, s := range e.src {
					if s == cur.s {
						in = true
					}
				}
				if !in {
					continue
				}
				to := e.t.to
				if e.t.same {
					to = cur.s
				}
				add(st{to, cur.zero && e.t.unchanged}, cur)
			}
		}
		pathTo := func(n st) string {
			var p []string
			for n != root {
				p = append([]string{name(n.s)}, p...)
				n = from[n]
			}
			return strings.Join(p, " → ")
		}
		// one obligation per reading state
		byState := map[int64][]ssa.Instruction{}
		for _, r := range reads {
			for _, s := range r.st {
				byState[s] = append(byState[s], r.in)
			}
		}
		var ss []int64
		for s := range byState {
			ss = append(ss, s)
		}
		sort.Slice(ss, func(i, j int) bool { return ss[i] < ss[j] })
		for _, s := range ss {
			if _, entered := from[st{s, false}]; !entered {
				if _, e2 := from[st{s, true}]; !e2 {
					continue // the state is never entered
				}
			}
			ins := byState[s]
			sort.Slice(ins, func(i, j int) bool { return ins[i].Pos() < ins[j].Pos() })
			_, bad := from[st{s, true}]
			detail := "every sequence of steps that enters this state passes a step that stores " + vname
			if bad {
				detail = "entered with " + vname + " still holding the zero value it was declared with, along " + pathTo(st{s, true}) + ": no step on that sequence stores it"
			}
			at := ins[0]
			for _, in := range ins {
				if in.Pos().IsValid() {
					at = in
					break
				}
			}
			c.Ob("C26.inputs", fname(mon)+"·state "+name(s)+"·reads "+vname, pos(c, at), !bad, detail)
		}
	}
	c.Count("loop-carried locals of the reconnect state machine that one step stores and another reads", nVars)
}
