// Package rules holds one file per property with its rule instances and
// frozen tables.
package rules

import (
	"sort"

	"verif/internal/core"
)

// Run is the rule set of one property.
type Run func(c *core.Ctx)

var registry = map[string]Run{}

func register(prop string, r Run) { registry[prop] = r }

func Lookup(prop string) Run { return registry[prop] }

func Props() []string {
	var out []string
	for p := range registry {
		out = append(out, p)
	}
	sort.Strings(out)
	return out
}
