package rules

import (
	"go/token"
	"go/types"
	"sort"

	"golang.org/x/tools/go/ssa"

	"verif/internal/core"
	"verif/internal/ssax"
)

// c11Consumed decides that no sequence number is drawn without its chunk being written (a gap on the wire) and that
// no number is given back after its chunk was written (a duplicate).
//
// Forward data flow over each sending function of package uasc with the state (outstanding, flag):
//
//	outstanding — a number has been drawn (nextSequenceNumber, directly or through newMessage / newRequestMessage on
//	              their success edge) and the chunk carrying it has not yet been handed to (*uacp.Conn).Write;
//	flag        — the value of the boolean cell that the function's deferred give-back closure tests
//	              (`defer func() { if flag { instance.sequenceNumber-- } }()`); false if there is no such closure.
//
// At every return the two must agree. A callee that receives the numbered message and writes it (writeMessageChunks)
// takes the obligation over and is analysed with outstanding = true at its entry.
func c11Consumed(c *core.Ctx, nextSeq, connWrite *types.Func, seqField *types.Var) map[*ssa.Function]bool {
	c.Rule("C11.consumed", "on every path of a sending function, a sequence number that was drawn is either carried by a chunk handed to Conn.Write or given back (sequenceNumber-- in the deferred give-back closure, which runs under the instance mutex) before the function returns; and a number whose chunk was written is never given back", 8)
	giveBackClosures := map[*ssa.Function]bool{}
	uasc := libFns(c, "uasc")
	// numberers: functions that draw a number (transitively, within channelInstance helpers)
	numberer := map[*types.Func]bool{nextSeq: true}
	for changed := true; changed; {
		changed = false
		for _, f := range uasc {
			o, _ := f.Object().(*types.Func)
			if o == nil || numberer[o] || recvName(f) != "channelInstance" {
				continue
			}
			for _, call := range ssax.Calls(f) {
				if cal := ssax.Callee(call); cal != nil && numberer[cal] {
					numberer[o] = true
					changed = true
				}
			}
		}
	}
	writes := map[*ssa.Function]bool{}
	for _, f := range uasc {
		if len(ssax.CallsTo(f, connWrite)) > 0 {
			writes[f] = true
		}
	}
	type job struct {
		f       *ssa.Function
		entered bool
	}
	entered := map[*ssa.Function]bool{}
	// pass 0 discovers the functions that are entered with a pending number, pass 1 reports
	for pass := 0; pass < 2; pass++ {
		var work []job
		seen := map[*ssa.Function]bool{}
		for _, f := range uasc {
			if recvName(f) == "channelInstance" {
				continue // the numbering helpers themselves
			}
			for _, call := range ssax.Calls(f) {
				if cal := ssax.Callee(call); cal != nil && numberer[cal] {
					if !seen[f] {
						seen[f] = true
						work = append(work, job{f, false})
					}
				}
			}
		}
		sort.Slice(work, func(i, j int) bool { return fname(work[i].f) < fname(work[j].f) })
		for len(work) > 0 {
			j := work[0]
			work = work[1:]
			f := j.f
			// the give-back closure and its flag cell
			var flagCell *ssa.Alloc
			for _, call := range ssax.Calls(f) {
				d, ok := call.(*ssa.Defer)
				if !ok {
					continue
				}
				mc, ok := d.Call.Value.(*ssa.MakeClosure)
				if !ok {
					continue
				}
				cl := mc.Fn.(*ssa.Function)
				if cell := giveBackFlag(cl, mc, seqField); cell != nil {
					flagCell = cell
					giveBackClosures[cl] = true
				}
			}
			// data flow; state bit = 1 << (out*2 + flag)
			in := map[*ssa.BasicBlock]uint8{}
			start := uint8(1 << 0)
			if j.entered || entered[f] {
				start = 1 << 2
			}
			in[f.Blocks[0]] = start
			wl := []*ssa.BasicBlock{f.Blocks[0]}
			rets := map[*ssa.Return]uint8{}
			apply := func(s uint8, fn func(out, flag bool) (bool, bool)) uint8 {
				var o uint8
				for bit := 0; bit < 4; bit++ {
					if s&(1<<bit) == 0 {
						continue
					}
					no, nf := fn(bit&2 != 0, bit&1 != 0)
					nb := 0
					if no {
						nb |= 2
					}
					if nf {
						nb |= 1
					}
					o |= 1 << nb
				}
				return o
			}
			var lastNum = map[*ssa.BasicBlock]ssa.CallInstruction{}
			for len(wl) > 0 {
				b := wl[len(wl)-1]
				wl = wl[:len(wl)-1]
				s := in[b]
				for _, ins := range b.Instrs {
					switch x := ins.(type) {
					case *ssa.Store:
						if flagCell != nil && x.Addr == flagCell {
							if k, ok := x.Val.(*ssa.Const); ok && k.Value != nil {
								v := k.Value.String() == "true"
								s = apply(s, func(out, _ bool) (bool, bool) { return out, v })
							} else {
								s = apply(s, func(out, _ bool) (bool, bool) { return out, true }) | apply(s, func(out, _ bool) (bool, bool) { return out, false })
							}
						}
					case *ssa.Return:
						rets[x] |= s
					case ssa.CallInstruction:
						if _, isDefer := x.(*ssa.Defer); isDefer {
							continue
						}
						if _, isGo := x.(*ssa.Go); isGo {
							continue
						}
						cal := ssax.Callee(x)
						if cal == nil {
							continue
						}
						switch {
						case numberer[cal]:
							s = apply(s, func(_, flag bool) (bool, bool) { return true, flag })
							lastNum[b] = x
						case cal == connWrite:
							s = apply(s, func(_, flag bool) (bool, bool) { return false, flag })
						default:
							// a uasc callee that writes chunks takes a pending number over
							if g := c.P.SSAFunc(cal); g != nil && writes[g] && s&(1<<2|1<<3) != 0 {
								entered[g] = true
								if !seen[g] {
									seen[g] = true
									work = append(work, job{g, true})
								}
								s = apply(s, func(_, flag bool) (bool, bool) { return false, flag })
							}
						}
					}
				}
				for _, succ := range b.Succs {
					ns := s
					// error edge of a numbering call that can fail: nothing was drawn
					if iff, ok := b.Instrs[len(b.Instrs)-1].(*ssa.If); ok {
						if bo, ok := iff.Cond.(*ssa.BinOp); ok && (bo.Op == token.NEQ || bo.Op == token.EQL) && ssax.IsNil(bo.Y) {
							for _, ins := range b.Instrs {
								call, ok := ins.(ssa.CallInstruction)
								if !ok {
									continue
								}
								if cal := ssax.Callee(call); cal != nil && numberer[cal] && cal != nextSeq && errResult(call) == bo.X {
									errEdge := (bo.Op == token.NEQ) == (succ == b.Succs[0])
									if errEdge {
										ns = apply(ns, func(_, flag bool) (bool, bool) { return false, flag })
									}
								}
							}
						}
					}
					if in[succ]|ns != in[succ] {
						in[succ] |= ns
						wl = append(wl, succ)
					} else if _, ok := in[succ]; !ok {
						in[succ] = ns
						wl = append(wl, succ)
					}
				}
			}
			var rl []*ssa.Return
			for r := range rets {
				rl = append(rl, r)
			}
			sort.Slice(rl, func(i, k int) bool { return rl[i].Pos() < rl[k].Pos() })
			for _, r := range rl {
				if pass == 0 {
					break
				}
				s := rets[r]
				gap := s&(1<<2) != 0 // out && !flag
				dup := s&(1<<1) != 0 // !out && flag
				detail := "drawn numbers are written or given back on every path to this return"
				if gap {
					detail = "a path reaches this return with a drawn sequence number whose chunk was not handed to Conn.Write and that is not given back: the next chunk on the wire skips a number"
				} else if dup {
					detail = "a path reaches this return with the give-back armed although the chunk was written: the number is used twice"
				}
				c.Ob("C11.consumed", fname(f)+"·return", pos(c, r), !gap && !dup, detail)
			}
		}
	}
	return giveBackClosures
}

// giveBackFlag recognises `func() { if *flag { x.sequenceNumber = x.sequenceNumber - 1 } }` and returns the cell
// bound to flag in the enclosing function.
func giveBackFlag(cl *ssa.Function, mc *ssa.MakeClosure, seqField *types.Var) *ssa.Alloc {
	for _, a := range ssax.FieldAccesses(cl, seqField) {
		st, ok := a.Use.(*ssa.Store)
		if !ok || a.Kind != ssax.Write {
			continue
		}
		bo, ok := st.Val.(*ssa.BinOp)
		if !ok || bo.Op != token.SUB || loadedField(bo.X).f != seqField {
			continue
		}
		if k, ok := ssax.ConstInt(bo.Y); !ok || k != 1 {
			continue
		}
		// dominated by the true edge of `if *freevar`
		trues, _ := ssax.BoolFactsAt(st)
		for _, tv := range trues {
			u, ok := tv.(*ssa.UnOp)
			if !ok || u.Op != token.MUL {
				continue
			}
			fv, ok := u.X.(*ssa.FreeVar)
			if !ok {
				continue
			}
			for i, v := range cl.FreeVars {
				if v == fv {
					if cell, ok := mc.Bindings[i].(*ssa.Alloc); ok {
						return cell
					}
				}
			}
		}
	}
	return nil
}

func recvName(f *ssa.Function) string {
	if f.Signature.Recv() == nil {
		return ""
	}
	t := f.Signature.Recv().Type()
	if p, ok := t.(*types.Pointer); ok {
		t = p.Elem()
	}
	if n, ok := t.(*types.Named); ok {
		return n.Obj().Name()
	}
	return ""
}
