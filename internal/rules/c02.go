package rules

import (
	"go/constant"
	"go/token"
	"go/types"
	"strings"

	"golang.org/x/tools/go/ssa"

	"verif/internal/core"
	"verif/internal/load"
	"verif/internal/ssax"
)

func init() { register("C02", c02) }

// decodeScopeOf: functions of package ua (and the header codecs of uacp/uasc)
// reachable from ua.Decode, ua.DecodeService and every Decode([]byte)(int,error) method.
func decodeScopeOf(c *core.Ctx, p *load.Program) []*ssa.Function {
	p.BuildSSA()
	var roots []*ssa.Function
	for _, f := range p.LibFunctions("ua", "uacp", "uasc") {
		if f.Parent() != nil {
			continue
		}
		if f.Name() == "Decode" || f.Name() == "DecodeService" {
			roots = append(roots, f)
		}
	}
	cg := p.CallGraph()
	seen := map[*ssa.Function]bool{}
	var walk func(f *ssa.Function)
	walk = func(f *ssa.Function) {
		if f == nil || seen[f] || f.Pkg == nil || f.Blocks == nil {
			return
		}
		s := shortOf(f)
		if s != "ua" && s != "uacp" && s != "uasc" {
			return
		}
		// only decoders and their helpers: skip encoders
		seen[f] = true
		if n := cg.Nodes[f]; n != nil {
			for _, e := range n.Out {
				walk(e.Callee.Func)
			}
		}
	}
	for _, r := range roots {
		walk(r)
	}
	var out []*ssa.Function
	for f := range seen {
		if strings.HasPrefix(f.Name(), "Encode") || strings.HasPrefix(f.Name(), "Write") || strings.HasPrefix(f.Name(), "encode") {
			continue
		}
		out = append(out, f)
	}
	sortFns(out)
	return out
}

// upperBoundKind classifies the bound L of a fact n <= L.
func upperBoundKind(l ssa.Value) string {
	l = ssax.Strip(l)
	if k, ok := l.(*ssa.Const); ok && k.Value != nil {
		if constant.Compare(k.Value, token.GEQ, constant.MakeInt64(1<<31-1)) {
			return "" // MaxInt32 / MaxUint32 is not a bound
		}
		return "constant " + k.Value.String()
	}
	if u, ok := l.(*ssa.UnOp); ok && u.Op == token.MUL {
		if g, ok := u.X.(*ssa.Global); ok {
			return "declared limit " + g.Pkg.Pkg.Name() + "." + g.Name()
		}
	}
	if call, ok := l.(*ssa.Call); ok {
		if ssax.IsBuiltin(call, "len") {
			return "remaining input len(" + ssax.Path(call.Call.Args[0]) + ")"
		}
		if cal := ssax.Callee(call); cal != nil && cal.Name() == "Len" {
			return "remaining input " + ssax.Path(l)
		}
	}
	if bo, ok := l.(*ssa.BinOp); ok && (bo.Op == token.QUO || bo.Op == token.SUB) {
		if k := upperBoundKind(bo.X); k != "" {
			return k
		}
	}
	return ""
}

// allocBound examines the facts at sink for an upper and a lower bound on size n.
func allocBound(sink ssa.Instruction, n ssa.Value) (upper string, lowerOK bool) {
	n0 := ssax.Strip(n)
	np := ssax.Path(n0)
	unsigned := false
	if b, ok := n0.Type().Underlying().(*types.Basic); ok && b.Info()&types.IsUnsigned != 0 {
		unsigned = true
	}
	// n may be a conversion of an unsigned value: int(uint32) is non-negative on 64-bit
	if cv, ok := n.(*ssa.Convert); ok {
		if b, ok := cv.X.Type().Underlying().(*types.Basic); ok && b.Info()&types.IsUnsigned != 0 {
			if tb, ok := cv.Type().Underlying().(*types.Basic); ok && sizeofBasic(tb) > sizeofBasic(b) {
				unsigned = true
			}
		}
	}
	lowerOK = unsigned
	if call, ok := n0.(*ssa.Call); ok && (ssax.IsBuiltin(call, "len") || ssax.IsBuiltin(call, "cap")) {
		return "len/cap of an existing object", true
	}
	low := int64(-1 << 62)
	neq := map[int64]bool{}
	defer func() {
		for neq[low] {
			low++
		}
		if low >= 0 {
			lowerOK = true
		}
	}()
	for _, f := range ssax.FactsAt(sink) {
		x, y, op := f.X, f.Y, f.Op
		for i := 0; i < 2; i++ {
			if ssax.Path(ssax.Strip(x)) == np {
				switch op {
				case token.LEQ, token.LSS:
					if k := upperBoundKind(y); k != "" {
						upper = k
					}
				case token.GEQ:
					if k, ok := ssax.ConstInt(y); ok && k > low {
						low = k
					}
				case token.GTR:
					if k, ok := ssax.ConstInt(y); ok && k+1 > low {
						low = k + 1
					}
				case token.NEQ:
					if k, ok := ssax.ConstInt(y); ok {
						neq[k] = true
					}
				case token.EQL:
					if k, ok := ssax.ConstInt(y); ok && k >= 0 {
						lowerOK = true
						upper = "constant"
					}
				}
			}
			x, y, op = y, x, ssax.SwapOp(op)
		}
	}
	return
}

var sizeofWord = int64(8)

func sizeofBasic(b *types.Basic) int64 {
	switch b.Kind() {
	case types.Int8, types.Uint8, types.Bool:
		return 1
	case types.Int16, types.Uint16:
		return 2
	case types.Int32, types.Uint32, types.Float32:
		return 4
	case types.Int64, types.Uint64, types.Float64:
		return 8
	case types.Int, types.Uint, types.Uintptr:
		return sizeofWord
	}
	return 8
}

func c02(c *core.Ctx) {
	initOwners(c)
	c.Rule("C02.alloc", "every allocation in the decoders whose size is not a constant (make, reflect.MakeSlice) is dominated by an upper bound that is the remaining input or a declared limit (a bound of MaxInt32/MaxUint32 is no bound) and, when the size is signed, by a non-negativity check", 4)
	c.Rule("C02.loop", "every decoder loop whose step is not a constant is dominated by a proof that the step is at least 1 (a wire-derived step of 0 never terminates)", 1)
	c.Rule("C02.mul", "no loop-carried product of wire-derived integers narrower than 64 bits (it can wrap before it is compared); a 64-bit product must be compared with its bound inside the loop", 1)
	c.Rule("C02.dims", "Variant.Decode compares every array dimension with `< 1` and the dimension count with `< 0`, with error returns, before the values are used as divisors / sizes in split", 2)
	c.Rule("C02.rec", "every call-graph cycle through Decode methods carries a depth counter that is compared with a constant on the cycle (unbounded nesting overflows the stack)", 1)
	c.Rule("C02.bounds", "every slice expression in the decoders with a non-constant bound is in bounds: a cursor that accumulates decoder-consumed byte counts stays within the input, ReadN(n) slices are guarded by n <= len, and n is non-negative at every call site of ReadN on the analysed architecture", 6)

	c02Sticky(c)
	for _, cfg := range []struct {
		p    *load.Program
		arch string
	}{{c.P, "amd64"}, {c.P386, "386"}} {
		if cfg.p == nil {
			continue
		}
		sizeofWord = 8
		if cfg.arch == "386" {
			sizeofWord = 4
		}
		suffix := ""
		if cfg.arch != "amd64" {
			suffix = " [GOARCH=" + cfg.arch + "]"
		}
		c02arch(c, cfg.p, suffix)
	}
	sizeofWord = 8
}

func c02arch(c *core.Ctx, p *load.Program, suffix string) {
	fns := decodeScopeOf(c, p)
	c.Count("decoder functions"+suffix, len(fns))
	pos := func(in ssa.Instruction) string {
		ps := in.Pos()
		if !ps.IsValid() {
			for _, x := range in.Block().Instrs {
				if x.Pos().IsValid() {
					ps = x.Pos()
				}
			}
		}
		return p.Pos(ps)
	}
	primary := suffix == ""

	// alloc
	if primary {
		for _, f := range fns {
			for _, b := range f.Blocks {
				for _, in := range b.Instrs {
					var size ssa.Value
					what := ""
					switch x := in.(type) {
					case *ssa.MakeSlice:
						size, what = x.Len, "make"
					case *ssa.Call:
						if cal := ssax.Callee(x); cal != nil && cal.Pkg() != nil && cal.Pkg().Path() == "reflect" && cal.Name() == "MakeSlice" {
							size, what = x.Call.Args[1], "reflect.MakeSlice"
						}
					}
					if size == nil {
						continue
					}
					if _, isConst := ssax.ConstInt(size); isConst {
						continue
					}
					upper, lower := allocBound(in, size)
					ok := upper != "" && lower
					detail := "size " + ssax.Path(size) + ": upper bound = " + upper + "; non-negative: " + boolStr(lower)
					if upper == "" {
						detail = "size " + ssax.Path(size) + " has no upper bound tied to the remaining input or a declared limit: a few bytes of input allocate gigabytes"
						if !lower {
							detail += "; it can also be negative (panic)"
						}
					} else if !lower {
						detail = "size " + ssax.Path(size) + " is bounded above (" + upper + ") but can be negative: MakeSlice/make panics"
					}
					c.Ob("C02.alloc", fname(f)+"·"+what+"("+ssax.Path(size)+")", pos(in), ok, detail)
				}
			}
		}
	}
	// mul
	if primary {
		n := 0
		for _, f := range fns {
			for _, b := range f.Blocks {
				for _, in := range b.Instrs {
					phi, ok := in.(*ssa.Phi)
					if !ok {
						continue
					}
					for _, e := range phi.Edges {
						bo, ok := e.(*ssa.BinOp)
						if !ok || bo.Op != token.MUL || (bo.X != ssa.Value(phi) && bo.Y != ssa.Value(phi)) {
							continue
						}
						n++
						bt, _ := phi.Type().Underlying().(*types.Basic)
						wide := bt != nil && sizeofBasic(bt) >= 8
						checked := false
						if wide {
							// compared inside the loop
							if refs := bo.Referrers(); refs != nil {
								for _, r := range *refs {
									if cmp, ok := r.(*ssa.BinOp); ok {
										switch cmp.Op {
										case token.GTR, token.GEQ, token.LSS, token.LEQ:
											checked = true
										}
									}
								}
							}
							if refs := phi.Referrers(); refs != nil {
								for _, r := range *refs {
									if cmp, ok := r.(*ssa.BinOp); ok && cmp.Block() != nil && loopContains(phi, cmp.Block()) {
										switch cmp.Op {
										case token.GTR, token.GEQ, token.LSS, token.LEQ:
											checked = true
										}
									}
								}
							}
						}
						c.Ob("C02.mul", fname(f)+"·loop-carried product "+ssax.Path(bo), pos(bo), wide && checked, "64-bit accumulator: "+boolStr(wide)+"; compared with its bound inside the loop: "+boolStr(checked)+" — a wrapped product can equal the expected count and defeat the consistency check")
					}
				}
			}
		}
		if n == 0 {
			c.Ob("C02.mul", "ua·no loop-carried product in the decoders", "-", true, "no multiplication accumulates wire data")
		}
	}
	// dims
	if primary {
		vd := p.SSAFunc(p.Func("ua", "Variant", "Decode"))
		dimsF := p.Field("ua", "Variant", "arrayDimensions")
		dimsLen := p.Field("ua", "Variant", "arrayDimensionsLength")
		if vd == nil || dimsF == nil || dimsLen == nil {
			c.Fatal("unresolved anchor: ua.Variant.Decode / arrayDimensions")
		} else {
			elemChecked, lenChecked := false, false
			var vdBlocks []*ssa.BasicBlock
			for _, g := range withHelpers(vd) {
				vdBlocks = append(vdBlocks, g.Blocks...) // the checks may live in a private helper method of Decode
			}
			for _, b := range vdBlocks {
				ifi, ok := b.Instrs[len(b.Instrs)-1].(*ssa.If)
				if !ok {
					continue
				}
				cmp, neg, ok := ssax.AsCmp(ifi.Cond)
				if !ok || neg {
					continue
				}
				if _, constLeft := ssax.ConstInt(cmp.X); constLeft {
					cmp = ssax.Cmp{Op: ssax.SwapOp(cmp.Op), X: cmp.Y, Y: cmp.X}
				}
				k, isK := ssax.ConstInt(cmp.Y)
				if !isK {
					continue
				}
				if cmp.Op == token.LEQ {
					k++ // x <= k-1 is x < k
				} else if cmp.Op != token.LSS {
					continue
				}
				// element: load of &arrayDimensions[i]
				if u, ok := ssax.Strip(cmp.X).(*ssa.UnOp); ok {
					if ia, ok := u.X.(*ssa.IndexAddr); ok && loadedField(ia.X).f == dimsF && k == 1 && errorOnTrue(b) {
						elemChecked = true
					}
				}
				if loadedField(cmp.X).f == dimsLen && k == 0 && errorOnTrue(b) {
					lenChecked = true
				}
			}
			c.Ob("C02.dims", fname(vd)+"·each dimension >= 1", p.Pos(vd.Pos()), elemChecked, "`arrayDimensions[i] < 1` → error: "+boolStr(elemChecked))
			c.Ob("C02.dims", fname(vd)+"·dimension count >= 0", p.Pos(vd.Pos()), lenChecked, "`arrayDimensionsLength < 0` → error: "+boolStr(lenChecked))
		}
	}
	// loop
	if primary {
		pr := &ssax.Prover{}
		for _, f := range fns {
			for _, b := range f.Blocks {
				for _, in := range b.Instrs {
					phi, ok := in.(*ssa.Phi)
					if !ok {
						continue
					}
					for _, e := range phi.Edges {
						bo, ok := e.(*ssa.BinOp)
						if !ok || bo.Op != token.ADD || bo.X != ssa.Value(phi) {
							continue
						}
						if _, isConst := ssax.ConstInt(bo.Y); isConst {
							continue
						}
						// only induction variables that control the loop exit
						if !controlsLoop(phi) {
							continue
						}
						okStep := pr.AtLeastOne(bo.Y, bo)
						why := "step >= 1 established by dominating comparisons: " + boolStr(okStep)
						if !okStep {
							if ok2, w := splitPrecondition(c, p, f, bo.Y); ok2 {
								okStep, why = true, w
							} else if w != "" {
								why = w
							}
						}
						c.Ob("C02.loop", fname(f)+"·loop step "+ssax.Path(bo.Y), pos(bo), okStep, why+" — with a step of 0 the loop never ends")
					}
				}
			}
		}
	}
	// rec
	if primary {
		recCheck(c, p, fns)
	}
	// bounds
	{
		readN := p.SSAFunc(p.Func("ua", "Buffer", "ReadN"))
		installCursorHook()
		if primary {
			installConsumedHook(c)
		}
		posOK := bufferInvariant(c, p)
		if primary {
			c.Ob("C02.bounds", "ua.Buffer·invariant 0 <= pos <= len(buf)", p.Pos(readN.Pos()), posOK, "every store to Buffer.pos adds a count that was compared with the remaining bytes (ReadN) or is the consumed count of a decoder run on buf[pos:] (ReadStruct): "+boolStr(posOK))
		}
		posF := p.Field("ua", "Buffer", "pos")
		bufF := p.Field("ua", "Buffer", "buf")
		oldCursor := ssax.CursorHook
		ssax.CursorHook = func(lo, s ssa.Value) bool {
			if posOK && loadedField(lo).f == posF && loadedField(s).f == bufF && ssax.Path(loadedField(lo).base) == ssax.Path(loadedField(s).base) {
				return true
			}
			return oldCursor(lo, s)
		}
		defer func() { ssax.CursorHook = nil; ssax.ConsumedHook = nil }()
		for _, f := range fns {
			if !primary && f != readN {
				continue
			}
			nm := f.Name()
			if !(strings.HasPrefix(nm, "Decode") || strings.HasPrefix(nm, "decode") || strings.HasPrefix(nm, "Read") || nm == "split") {
				continue
			}
			for _, site := range ssax.CheckBounds(f, byteSlice) {
				if !primary {
					continue
				}
				if len(site.Issues) == 0 {
					c.Ob("C02.bounds", fname(f)+"·"+site.Expr, pos(site.At), true, "in bounds")
					continue
				}
				for _, is := range site.Issues {
					c.Ob("C02.bounds", fname(f)+"·"+site.Expr+" ("+is.Kind+")", pos(site.At), false, "needs "+is.Need+", which no dominating comparison establishes")
				}
			}
		}
		// ReadN: n >= 0 at every call site
		if readN == nil {
			c.Fatal("unresolved anchor: ua.Buffer.ReadN")
		} else {
			checkedInside := false
			for _, fact := range allCmps(readN) {
				if ssax.Strip(fact.X) == ssa.Value(readN.Params[1]) {
					if k, ok := ssax.ConstInt(fact.Y); ok && k == 0 && (fact.Op == token.LSS || fact.Op == token.GEQ) {
						checkedInside = true
					}
				}
			}
			if checkedInside {
				c.Ob("C02.bounds", fname(readN)+"·n >= 0"+suffix, p.Pos(readN.Pos()), true, "ReadN rejects negative n itself")
			} else {
				cg := p.CallGraph()
				if n := cg.Nodes[readN]; n != nil {
					for _, e := range n.In {
						if e.Site == nil || !p.IsLib(e.Caller.Func.Pkg.Pkg) {
							continue
						}
						arg := e.Site.Common().Args[1]
						ok := nonNegOnArch(arg)
						c.Ob("C02.bounds", fname(e.Caller.Func)+"·ReadN("+ssax.Path(arg)+") n >= 0"+suffix, pos(e.Site), ok, "argument provably non-negative"+suffix+": "+boolStr(ok)+" — a negative n passes `n > len(d)`, moves the cursor backwards and panics in d[:n]")
					}
				}
			}
		}
	}
}

func errorOnTrue(b *ssa.BasicBlock) bool {
	// the true successor returns a non-nil error
	t := b.Succs[0]
	for _, in := range t.Instrs {
		if r, ok := in.(*ssa.Return); ok {
			last := ssax.RetVal(r, len(r.Results)-1)
			return !ssax.IsNil(last)
		}
	}
	return false
}

func allCmps(f *ssa.Function) []ssax.Cmp {
	var out []ssax.Cmp
	for _, b := range f.Blocks {
		for _, in := range b.Instrs {
			if bo, ok := in.(*ssa.BinOp); ok {
				switch bo.Op {
				case token.LSS, token.LEQ, token.GTR, token.GEQ, token.EQL, token.NEQ:
					out = append(out, ssax.Cmp{Op: bo.Op, X: bo.X, Y: bo.Y})
				}
			}
		}
	}
	return out
}

// controlsLoop: the phi (or phi+step) is compared in a loop-exit condition.
func controlsLoop(phi *ssa.Phi) bool {
	check := func(v ssa.Value) bool {
		refs := v.Referrers()
		if refs == nil {
			return false
		}
		for _, r := range *refs {
			if bo, ok := r.(*ssa.BinOp); ok {
				switch bo.Op {
				case token.LSS, token.LEQ, token.GTR, token.GEQ, token.NEQ:
					if rr := bo.Referrers(); rr != nil {
						for _, u := range *rr {
							if _, ok := u.(*ssa.If); ok {
								return true
							}
						}
					}
				}
			}
		}
		return false
	}
	return check(phi)
}

func loopContains(phi *ssa.Phi, b *ssa.BasicBlock) bool {
	for _, l := range ssax.Loops(phi.Parent()) {
		if l.Header == phi.Block() {
			return l.Blocks[b]
		}
	}
	return false
}

// nonNegOnArch: the int argument is non-negative given the word size under analysis.
func nonNegOnArch(v ssa.Value) bool {
	if k, ok := ssax.ConstInt(v); ok {
		return k >= 0
	}
	switch x := v.(type) {
	case *ssa.Convert:
		from, ok1 := x.X.Type().Underlying().(*types.Basic)
		to, ok2 := x.Type().Underlying().(*types.Basic)
		if ok1 && ok2 {
			if from.Info()&types.IsUnsigned != 0 {
				return sizeofBasic(to) > sizeofBasic(from)
			}
			return nonNegOnArch(x.X)
		}
	case *ssa.Call:
		if ssax.IsBuiltin(x, "len") || ssax.IsBuiltin(x, "cap") {
			return true
		}
	case *ssa.Parameter:
		// ReadN(n) forwarded: look at a dominating n >= 0 — not available here
		return false
	}
	return false
}

// installCursorHook: a cursor that starts at 0 (or at a decoder-consumed count)
// and is advanced only by the byte counts decoders report for s[cursor:] stays
// within 0..len(s).
func installCursorHook() {
	var valid func(lo, s ssa.Value, phis map[*ssa.Phi]bool, d int) bool
	consumedOn := func(n ssa.Value, s ssa.Value, at ssa.Value) bool {
		// n is result #0 of a call one of whose []byte arguments is s[at:]
		ex, ok := ssax.Strip(n).(*ssa.Extract)
		if !ok || ex.Index != 0 {
			return false
		}
		call, ok := ex.Tuple.(*ssa.Call)
		if !ok {
			return false
		}
		for _, a := range call.Call.Args {
			if sl, ok := ssax.Strip(a).(*ssa.Slice); ok && ssax.Path(sl.X) == ssax.Path(s) && sl.High == nil {
				if sl.Low == nil {
					if k, isK := ssax.ConstInt(at); isK && k == 0 {
						return true
					}
					continue
				}
				if ssax.Strip(sl.Low) == ssax.Strip(at) || ssax.Path(sl.Low) == ssax.Path(at) {
					return true
				}
			}
			if k, isK := ssax.ConstInt(at); isK && k == 0 && ssax.Path(a) == ssax.Path(s) {
				return true
			}
		}
		return false
	}
	valid = func(lo, s ssa.Value, phis map[*ssa.Phi]bool, d int) bool {
		lo = ssax.Strip(lo)
		if d > 8 {
			return false
		}
		if k, ok := ssax.ConstInt(lo); ok {
			return k == 0
		}
		switch x := lo.(type) {
		case *ssa.Phi:
			if phis[x] {
				return true
			}
			phis[x] = true
			for _, e := range x.Edges {
				if !valid(e, s, phis, d+1) {
					return false
				}
			}
			return true
		case *ssa.BinOp:
			if x.Op != token.ADD {
				return false
			}
			if valid(x.X, s, phis, d+1) && consumedOn(x.Y, s, x.X) {
				return true
			}
			if valid(x.Y, s, phis, d+1) && consumedOn(x.X, s, x.Y) {
				return true
			}
			return false
		case *ssa.Extract:
			zero := ssa.Value(ssa.NewConst(constant.MakeInt64(0), types.Typ[types.Int]))
			return consumedOn(x, s, zero)
		case *ssa.Call:
			if cal := ssax.Callee(x); cal != nil && cal.Name() == "Pos" {
				return true
			}
		case *ssa.Parameter:
			// a private helper that continues decoding at an offset it is given: the offset is a valid cursor of the
			// slice parameter if it is one of the slice argument at every call site
			f := x.Parent()
			sp, isP := ssax.Strip(s).(*ssa.Parameter)
			if !isP || sp.Parent() != f || f.Object() == nil || f.Object().Exported() {
				return false
			}
			li, si := -1, -1
			for i, q := range f.Params {
				if q == x {
					li = i
				}
				if q == sp {
					si = i
				}
			}
			callers := ipCallers(f)
			if len(callers) == 0 || li < 0 || si < 0 {
				return false
			}
			for _, k := range callers {
				for _, cs := range ssax.Calls(k) {
					if cs.Common().StaticCallee() != f {
						continue
					}
					args := cs.Common().Args
					if li >= len(args) || si >= len(args) || !valid(args[li], args[si], map[*ssa.Phi]bool{}, d+1) {
						return false
					}
				}
			}
			return true
		}
		return false
	}
	ssax.CursorHook = func(lo, s ssa.Value) bool { return valid(lo, s, map[*ssa.Phi]bool{}, 0) }
}

// bufferInvariant: every store to ua.Buffer.pos keeps 0 <= pos <= len(buf).
func bufferInvariant(c *core.Ctx, p *load.Program) bool {
	posF := p.Field("ua", "Buffer", "pos")
	bufF := p.Field("ua", "Buffer", "buf")
	if posF == nil || bufF == nil {
		c.Fatal("unresolved anchor: ua.Buffer.pos / buf")
		return false
	}
	okAll := true
	n := 0
	for _, f := range p.LibFunctions("ua") {
		for _, a := range ssax.FieldAccesses(f, posF) {
			st, ok := a.Use.(*ssa.Store)
			if !ok || a.Kind != ssax.Write {
				continue
			}
			n++
			bo, ok := st.Val.(*ssa.BinOp)
			if !ok || bo.Op != token.ADD || loadedField(bo.X).f != posF {
				okAll = false
				continue
			}
			add := bo.Y
			good := false
			// (a) compared with the remaining bytes: NOT (add > len(d)), d = buf[pos:]
			for _, fact := range ssax.FactsAt(st) {
				if ssax.Strip(fact.X) == ssax.Strip(add) && (fact.Op == token.LEQ || fact.Op == token.LSS) {
					if call, ok := ssax.Strip(fact.Y).(*ssa.Call); ok && ssax.IsBuiltin(call, "len") {
						if sl, ok := ssax.Strip(call.Call.Args[0]).(*ssa.Slice); ok && loadedField(sl.X).f == bufF && sl.Low != nil && loadedField(sl.Low).f == posF && sl.High == nil {
							good = true
						}
					}
				}
			}
			// (b) consumed count of a decoder run on buf[pos:] (possibly through a phi over the decoder variants)
			check := func(v ssa.Value) bool {
				ex, ok := ssax.Strip(v).(*ssa.Extract)
				if !ok || ex.Index != 0 {
					return false
				}
				call, ok := ex.Tuple.(*ssa.Call)
				if !ok {
					return false
				}
				for _, arg := range call.Call.Args {
					if sl, ok := ssax.Strip(arg).(*ssa.Slice); ok && loadedField(sl.X).f == bufF && sl.Low != nil && loadedField(sl.Low).f == posF && sl.High == nil {
						cal := ssax.Callee(call)
						return cal != nil && (cal.Name() == "Decode")
					}
				}
				return false
			}
			if !good {
				if phi, ok := ssax.Strip(add).(*ssa.Phi); ok {
					all := len(phi.Edges) > 0
					for _, e := range phi.Edges {
						if k, isK := ssax.ConstInt(e); isK && k == 0 {
							continue
						}
						if !check(e) {
							all = false
						}
					}
					good = all
				} else {
					good = check(add)
				}
			}
			if !good {
				okAll = false
			}
		}
	}
	return okAll && n > 0
}

// recCheck builds the decode type graph (T → U when T's decoder decodes a U)
// and reports every cycle that has no depth bound.
func recCheck(c *core.Ctx, p *load.Program, fns []*ssa.Function) {
	readStruct := p.Func("ua", "Buffer", "ReadStruct")
	edges := map[string]map[string]bool{}
	add := func(a, b string) {
		if edges[a] == nil {
			edges[a] = map[string]bool{}
		}
		edges[a][b] = true
	}
	typeOfDecoder := func(f *ssa.Function) string {
		// Decode methods and their helper methods belong to the receiver type
		if rn := ssax.ReceiverNamed(f); rn != nil {
			return rn.Obj().Name()
		}
		return ""
	}
	for _, f := range fns {
		owner := typeOfDecoder(f)
		if owner == "" || owner == "Buffer" {
			continue
		}
		for _, call := range ssax.CallsTo(f, readStruct) {
			arg := call.Common().Args[1]
			if mi, ok := arg.(*ssa.MakeInterface); ok {
				if n := derefNamed(mi.X.Type()); n != nil {
					add(owner, n.Obj().Name())
					continue
				}
			}
			// an interface value from the registry (ExtensionObject.Value): any registered type
			add(owner, "<registered type>")
		}
	}
	// registered (reflectively decoded) struct types reach whatever their fields are: find out
	// whether some struct of package ua has a field of each hand-coded recursive type
	uaScope := p.Lib["ua"].Types.Scope()
	for _, name := range uaScope.Names() {
		tn, ok := uaScope.Lookup(name).(*types.TypeName)
		if !ok {
			continue
		}
		st, ok := tn.Type().Underlying().(*types.Struct)
		if !ok {
			continue
		}
		if _, hand := edges[tn.Name()]; hand {
			continue
		}
		for i := 0; i < st.NumFields(); i++ {
			ft := st.Field(i).Type()
			for {
				switch u := ft.(type) {
				case *types.Pointer:
					ft = u.Elem()
					continue
				case *types.Slice:
					ft = u.Elem()
					continue
				}
				break
			}
			if n, ok := ft.(*types.Named); ok && n.Obj().Pkg() != nil && n.Obj().Pkg().Name() == "ua" {
				if _, hand := edges[n.Obj().Name()]; hand {
					add("<registered type>", n.Obj().Name())
				}
			}
		}
	}
	// SCCs by mutual reachability
	reach := func(a string) map[string]bool {
		seen := map[string]bool{}
		var dfs func(x string)
		dfs = func(x string) {
			for y := range edges[x] {
				if !seen[y] {
					seen[y] = true
					dfs(y)
				}
			}
		}
		dfs(a)
		return seen
	}
	done := map[string]bool{}
	var nodes []string
	for a := range edges {
		nodes = append(nodes, a)
	}
	nodes = sortStrings(nodes)
	nCycles := 0
	for _, a := range nodes {
		if done[a] {
			continue
		}
		ra := reach(a)
		if !ra[a] {
			continue
		}
		var scc []string
		for b := range ra {
			if reach(b)[a] {
				scc = append(scc, b)
				done[b] = true
			}
		}
		scc = sortStrings(scc)
		nCycles++
		// depth bound: some decoder on the cycle compares a depth/level value with a constant
		bounded := false
		for _, f := range fns {
			if owner := typeOfDecoder(f); owner != "" {
				in := false
				for _, t := range scc {
					if t == owner {
						in = true
					}
				}
				if !in {
					continue
				}
				for _, cmp := range allCmps(f) {
					lx := strings.ToLower(ssax.Path(cmp.X))
					if strings.Contains(lx, "depth") || strings.Contains(lx, "nesting") {
						if _, ok := ssax.ConstInt(cmp.Y); ok {
							bounded = true
						}
						if u, ok := ssax.Strip(cmp.Y).(*ssa.UnOp); ok {
							if _, isG := u.X.(*ssa.Global); isG {
								bounded = true
							}
						}
					}
				}
			}
		}
		c.Ob("C02.rec", "ua·decode recursion {"+strings.Join(scc, ", ")+"}", "-", bounded, "these decoders can nest in each other without limit; a depth counter compared with a limit on the cycle: "+boolStr(bounded)+" — about one input byte per level grows the goroutine stack until the process dies")
	}
	if nCycles == 0 {
		c.Ob("C02.rec", "ua·no decode recursion", "-", true, "the decode type graph is acyclic")
	}
}

// splitPrecondition discharges the step obligation of ua.split — step =
// (j-i)/dims[level] — from its machine-checked calling discipline: split is
// called only by itself and by Variant.Decode; the outer call is dominated by
// the equality of the (64-bit, in-loop bounded) product of the dimensions with
// the number of elements; every dimension was checked to be >= 1. Then (j-i) is
// the product of dims[level:] >= dims[level], hence step >= 1 (for non-empty
// values; the empty case takes the other branch).
func splitPrecondition(c *core.Ctx, p *load.Program, f *ssa.Function, step ssa.Value) (bool, string) {
	if fname(f) != "ua.split" {
		return false, ""
	}
	bo, ok := ssax.Strip(step).(*ssa.BinOp)
	if !ok || bo.Op != token.QUO {
		return false, "the step of split is no longer (j-i)/dims[level]"
	}
	vd := p.SSAFunc(p.Func("ua", "Variant", "Decode"))
	if vd == nil {
		return false, "Variant.Decode not found"
	}
	cg := p.CallGraph()
	if n := cg.Nodes[f]; n != nil {
		for _, e := range n.In {
			if e.Caller.Func != f && e.Caller.Func != vd {
				return false, "split has a caller other than Variant.Decode and itself: " + fname(e.Caller.Func)
			}
		}
	}
	arrLen := p.Field("ua", "Variant", "arrayLength")
	dimsLen := p.Field("ua", "Variant", "arrayDimensionsLength")
	for _, call := range ssax.CallsTo(vd, f.Object().(*types.Func)) {
		// the call needs at least two dimensions
		minDims := int64(-1)
		for _, fact := range ssax.FactsAt(call) {
			if loadedField(fact.X).f == dimsLen {
				if k, ok := ssax.ConstInt(fact.Y); ok {
					if fact.Op == token.GEQ && k > minDims {
						minDims = k
					}
					if fact.Op == token.GTR && k+1 > minDims {
						minDims = k + 1
					}
				}
			}
		}
		// edges: (1) the equal edge of the product/length comparison, (2) the infeasible
		// `dimension count <= 0` edge of the guard around the consistency check
		equalEdge := func(a, b *ssa.BasicBlock) bool {
			ifi, ok := a.Instrs[len(a.Instrs)-1].(*ssa.If)
			if !ok || len(a.Succs) != 2 {
				return false
			}
			// the consistency check may live in a private predicate: `if !dimensionsCover(dims, length) { error }`.
			// What its true result implies is taken from its own returns (product phi == the length handed in).
			{
				v, pos := ifi.Cond, true
				for {
					if u, ok := v.(*ssa.UnOp); ok && u.Op == token.NOT {
						v, pos = u.X, !pos
						continue
					}
					break
				}
				if call, ok := v.(*ssa.Call); ok {
					tEdge := a.Succs[0]
					if !pos {
						tEdge = a.Succs[1]
					}
					if b == tEdge {
						for _, f := range ssax.CalleeFacts(call, 1, 0) {
							if f.Op != token.EQL {
								continue
							}
							x, okx := f.X.(*ssax.Synth)
							y, oky := f.Y.(*ssax.Synth)
							if !okx || !oky {
								continue
							}
							_, xPhi := ssax.Strip(x.Orig).(*ssa.Phi)
							_, yPhi := ssax.Strip(y.Orig).(*ssa.Phi)
							isLen := func(s *ssax.Synth) bool {
								for _, arg := range call.Call.Args {
									if loadedField(arg).f == arrLen && ssax.Path(arg) == s.P {
										return true
									}
								}
								return false
							}
							if (xPhi && isLen(y)) || (yPhi && isLen(x)) {
								return true
							}
						}
					}
				}
			}
			cmp, neg, ok := ssax.AsCmp(ifi.Cond)
			if !ok {
				return false
			}
			_, xPhi := ssax.Strip(cmp.X).(*ssa.Phi)
			_, yPhi := ssax.Strip(cmp.Y).(*ssa.Phi)
			if (xPhi && loadedField(cmp.Y).f == arrLen) || (yPhi && loadedField(cmp.X).f == arrLen) {
				op := cmp.Op
				if neg {
					op = ssax.NegOp(op)
				}
				if op == token.EQL {
					return b == a.Succs[0]
				}
				if op == token.NEQ {
					return b == a.Succs[1]
				}
			}
			// guard `arrayDimensionsLength > 0`: its false edge contradicts minDims >= 1
			if loadedField(cmp.X).f == dimsLen && minDims >= 1 {
				if k, ok := ssax.ConstInt(cmp.Y); ok && k == 0 {
					op := cmp.Op
					if neg {
						op = ssax.NegOp(op)
					}
					if op == token.GTR {
						return b == a.Succs[1]
					}
					if op == token.LEQ {
						return b == a.Succs[0]
					}
				}
			}
			return false
		}
		reach, _ := ssax.Reach(vd, nil, func(in ssa.Instruction) bool { return in == call.(ssa.Instruction) }, nil, equalEdge)
		if reach {
			return false, "a path reaches the call of split without passing `product of dimensions == array length`"
		}
	}
	// the product must be overflow-free (C02.mul) and the dimensions >= 1 (C02.dims)
	for _, o := range c.Obs {
		if (o.Rule == "C02.mul" || o.Rule == "C02.dims") && !o.OK {
			return false, "the calling discipline of split relies on " + o.Rule + ", which does not hold"
		}
	}
	return true, "split is called only with dimensions whose overflow-free product equals the number of values and which are all >= 1 (C02.mul, C02.dims, equality dominates the call): (j-i) >= dims[level]"
}

// c02Sticky: once a Buffer has failed, every further Read on it is O(1).
//
// Decoders loop up to 65535 times over `buf.ReadStruct(elem)` without looking at buf.Error(); that is cheap only because
// a failed Buffer answers every Read immediately. If a Read method runs a nested decoder before it looks at the sticky
// error, a truncated input with nested arrays costs 65535^depth decoder calls: a 15-byte input never returns.
// Obligation: in every Read* method of ua.Buffer, each call that can run a decoder (an interface Decode, ua.Decode /
// decode, or another Read* of a Buffer other than the receiver) and each loop is dominated by `b.err == nil`.
func c02Sticky(c *core.Ctx) {
	c.Rule("C02.sticky", "in every Read* method of ua.Buffer every call that can run a nested decoder, and every loop, executes only when the sticky error is nil (`b.err != nil` → return dominates it): a failed buffer answers each further Read in constant time, so the 65535-iteration element loops of the decoders stay linear on truncated input", 1)
	errF := field(c, "ua", "Buffer", "err")
	if errF == nil {
		return
	}
	n := 0
	for _, f := range libFns(c, "ua") {
		if recvName(f) != "Buffer" || len(f.Name()) < 5 || f.Name()[:4] != "Read" || f.Parent() != nil {
			continue
		}
		guardedAt := func(in ssa.Instruction) bool {
			for _, fact := range ssax.FactsAt(in) {
				if fact.Op == token.EQL && ssax.IsNil(fact.Y) && loadedField(fact.X).f == errF {
					return true
				}
			}
			return false
		}
		for _, call := range ssax.Calls(f) {
			cc := call.Common()
			name := ""
			if cc.IsInvoke() {
				name = cc.Method.Name()
			} else if cal := ssax.Callee(call); cal != nil {
				name = cal.Name()
			}
			if name != "Decode" && name != "decode" {
				continue
			}
			n++
			ok := guardedAt(call)
			c.Ob("C02.sticky", fname(f)+"·nested "+name, pos(c, call), ok, "runs only when the buffer has not failed yet: "+boolStr(ok))
		}
		for _, l := range ssax.Loops(f) {
			n++
			ok := guardedAt(l.Header.Instrs[0])
			c.Ob("C02.sticky", fname(f)+"·loop", pos(c, l.Header.Instrs[len(l.Header.Instrs)-1]), ok, "loop entered only when the buffer has not failed yet: "+boolStr(ok))
		}
	}
	c.Count("nested decoder calls and loops in Buffer.Read* methods", n)
}
