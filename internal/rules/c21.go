package rules

import (
	"go/token"
	"go/types"
	"golang.org/x/tools/go/callgraph"
	"strings"

	"golang.org/x/tools/go/ssa"

	"verif/internal/core"
	"verif/internal/ssax"
)

func init() { register("C21", c21) }

// isUAResponseType: t (after deref) is a named struct of package ua whose name
// ends in Response, Result, Notification or is a response element type.
func uaNamed(t types.Type) *types.Named {
	if p, ok := t.Underlying().(*types.Pointer); ok {
		t = p.Elem()
	}
	n, ok := t.(*types.Named)
	if !ok || n.Obj().Pkg() == nil || !strings.HasSuffix(n.Obj().Pkg().Path(), "/ua") {
		return nil
	}
	return n
}

func isResponseRoot(t types.Type) bool {
	n := uaNamed(t)
	if n == nil {
		return false
	}
	name := n.Obj().Name()
	for _, suf := range []string{"Response", "Result", "Notification", "NotificationMessage", "DataChangeNotification", "EventNotificationList", "StatusChangeNotification"} {
		if strings.HasSuffix(name, suf) {
			return true
		}
	}
	return false
}

// responseDerived: the slice/interface value v is loaded (through any chain of
// field selections, element accesses and local variables) from an object whose
// type is a ua response/result type.
func responseDerived(v ssa.Value) bool {
	seen := map[ssa.Value]bool{}
	var walk func(v ssa.Value, d int) bool
	walk = func(v ssa.Value, d int) bool {
		if v == nil || d > 14 || seen[v] {
			return false
		}
		seen[v] = true
		v = ssax.Strip(v)
		switch x := v.(type) {
		case *ssa.FieldAddr:
			if isResponseRoot(x.X.Type()) {
				return true
			}
			return walk(x.X, d+1)
		case *ssa.Field:
			if isResponseRoot(x.X.Type()) {
				return true
			}
			return walk(x.X, d+1)
		case *ssa.UnOp:
			if x.Op == token.MUL {
				if al, ok := x.X.(*ssa.Alloc); ok {
					if refs := al.Referrers(); refs != nil {
						for _, r := range *refs {
							if st, ok := r.(*ssa.Store); ok && st.Addr == al && walk(st.Val, d+1) {
								return true
							}
						}
					}
					return false
				}
				return walk(x.X, d+1)
			}
		case *ssa.IndexAddr:
			return walk(x.X, d+1)
		case *ssa.Index:
			return walk(x.X, d+1)
		case *ssa.Slice:
			return walk(x.X, d+1)
		case *ssa.Phi:
			for _, e := range x.Edges {
				if walk(e, d+1) {
					return true
				}
			}
		case *ssa.Extract:
			return walk(x.Tuple, d+1)
		case *ssa.Next:
			return walk(x.Iter, d+1)
		case *ssa.Range:
			return walk(x.X, d+1)
		case *ssa.Call:
			// accessor methods on response-derived receivers (Variant.Value(), ExtensionObject.Value …)
			if x.Call.IsInvoke() {
				return walk(x.Call.Value, d+1)
			}
			// results of client API functions that hand out decoded response content
			if sf := x.Call.StaticCallee(); sf != nil && sf.Pkg != nil {
				pp := sf.Pkg.Pkg.Path()
				if pp == "github.com/gopcua/opcua" || strings.HasSuffix(pp, "/opcua/monitor") {
					res := sf.Signature.Results()
					for i := 0; i < res.Len(); i++ {
						if uaNamed(res.At(i).Type()) != nil {
							return true
						}
					}
				}
			}
			if cal := ssax.Callee(x); cal != nil && cal.Type().(*types.Signature).Recv() != nil && len(x.Call.Args) > 0 {
				if uaNamed(x.Call.Args[0].Type()) != nil {
					return walk(x.Call.Args[0], d+1)
				}
			}
		case *ssa.TypeAssert:
			return walk(x.X, d+1)
		case *ssa.Parameter:
			// a slice handed to an unexported helper: response derived if some caller passes one
			f := x.Parent()
			if c21cg == nil || f == nil || f.Object() == nil || f.Object().Exported() {
				return false
			}
			idx := -1
			for i, p := range f.Params {
				if p == x {
					idx = i
				}
			}
			if n := c21cg.Nodes[f]; n != nil && idx >= 0 {
				for _, e := range n.In {
					if e.Site == nil {
						continue
					}
					args := e.Site.Common().Args
					if idx < len(args) && walk(args[idx], d+1) {
						return true
					}
				}
			}
		}
		return false
	}
	return walk(v, 0)
}

var c21cg *callgraph.Graph

// resetOrEqual recognises the "validate or reset" idiom
//
//	if len(T) != len(S) { T = <empty slice> }
//	for i := range T { S[i] }
//
// before `at`: an If that compares len(T) with len(S) whose unequal edge stores a zero-length slice to T and then
// joins the other edge in a block that dominates at. Afterwards len(T) == len(S) or len(T) == 0; `len(T) > len(S)`
// as the reset condition is accepted as well (len(T) <= len(S) remains), `<` is not.
func resetOrEqual(at ssa.Instruction, sp, tp string) bool {
	fn := at.Parent()
	for _, b := range fn.Blocks {
		iff, ok := b.Instrs[len(b.Instrs)-1].(*ssa.If)
		if !ok {
			continue
		}
		bo, ok := iff.Cond.(*ssa.BinOp)
		if !ok {
			continue
		}
		a, aok := lenArgPath(bo.X)
		bb, bok := lenArgPath(bo.Y)
		if !aok || !bok {
			continue
		}
		op := bo.Op
		if a == sp && bb == tp {
			a, bb = bb, a
			op = ssax.SwapOp(op)
		}
		if a != tp || bb != sp {
			continue
		}
		// op relates len(T) op len(S); which edge must reset T?
		var reset, other *ssa.BasicBlock
		switch op {
		case token.NEQ, token.GTR:
			reset, other = b.Succs[0], b.Succs[1]
		case token.EQL, token.LEQ:
			reset, other = b.Succs[1], b.Succs[0]
		default:
			continue
		}
		stores := false
		for _, in := range reset.Instrs {
			st, ok := in.(*ssa.Store)
			if !ok || ssax.Path(st.Addr) != "&"+tp && ssax.Path(st.Addr) != tp {
				if ok {
					if fa, isFA := st.Addr.(*ssa.FieldAddr); isFA {
						_ = fa
					}
				}
				if !ok {
					continue
				}
			}
			if ok && zeroLenSlice(st.Val) && storeTargets(st, tp) {
				stores = true
			}
		}
		if !stores || len(reset.Succs) != 1 {
			continue
		}
		merge := reset.Succs[0]
		if merge != other && !(len(other.Succs) == 1 && other.Succs[0] == merge) {
			continue
		}
		if merge.Dominates(at.Block()) {
			return true
		}
	}
	return false
}

// storeTargets: the store writes the location whose load has access path tp.
func storeTargets(st *ssa.Store, tp string) bool {
	// the path of a load `*addr` is rendered from addr; compare by rendering a synthetic load
	for _, r := range *st.Addr.Referrers() {
		if u, ok := r.(*ssa.UnOp); ok && u.Op == token.MUL && ssax.Path(u) == tp {
			return true
		}
	}
	// no load through this very address value: compare field identity textually
	if fa, ok := st.Addr.(*ssa.FieldAddr); ok {
		if ld := fieldOf(fa); ld != nil {
			return len(tp) >= len(ld.Name()) && tp[len(tp)-len(ld.Name()):] == ld.Name()
		}
	}
	return false
}

func zeroLenSlice(v ssa.Value) bool {
	switch x := ssax.Strip(v).(type) {
	case *ssa.Slice:
		if al, ok := x.X.(*ssa.Alloc); ok {
			if p, ok := al.Type().Underlying().(*types.Pointer); ok {
				if arr, ok := p.Elem().Underlying().(*types.Array); ok && arr.Len() == 0 {
					return true
				}
			}
		}
	case *ssa.MakeSlice:
		if k, ok := ssax.ConstInt(x.Len); ok && k == 0 {
			return true
		}
	case *ssa.Const:
		return x.Value == nil
	}
	return false
}

// lenFactsOK: index idx into slice s is provably in bounds from dominating facts.
func indexInBounds(ia ssa.Instruction, s ssa.Value, idx ssa.Value) (bool, string) {
	sp := ssax.Path(s)
	facts := ssax.FactsAt(ia)
	isLenOf := func(v ssa.Value, path string) bool {
		call, ok := ssax.Strip(v).(*ssa.Call)
		if syn, isSyn := v.(*ssax.Synth); isSyn {
			return syn.P == "len("+path+")"
		}
		return ok && ssax.IsBuiltin(call, "len") && ssax.Path(call.Call.Args[0]) == path
	}
	lenArg := lenArgPath
	if k, isConst := ssax.ConstInt(idx); isConst {
		for _, f := range facts {
			x, y, op := f.X, f.Y, f.Op
			if _, c := ssax.ConstInt(x); c {
				x, y, op = y, x, ssax.SwapOp(op)
			}
			if !isLenOf(x, sp) {
				continue
			}
			n, ok := ssax.ConstInt(y)
			if !ok {
				continue
			}
			switch op {
			case token.GTR:
				if n >= k {
					return true, "len > " + fmtInt(int(n))
				}
			case token.GEQ:
				if n > k {
					return true, "len >= " + fmtInt(int(n))
				}
			case token.NEQ:
				if n == 0 && k == 0 {
					return true, "len != 0"
				}
			case token.EQL:
				if n > k {
					return true, "len == " + fmtInt(int(n))
				}
			}
		}
		// a loop-carried slice: every incoming value must have been checked on its edge
		if phi, ok := ssax.Strip(s).(*ssa.Phi); ok {
			all := len(phi.Edges) > 0
			for i, e := range phi.Edges {
				pred := phi.Block().Preds[i]
				if !constIndexOKFacts(ssax.FactsOnEdge(pred, phi.Block()), ssax.Path(e), k) {
					all = false
				}
			}
			if all {
				return true, "every value flowing into the loop-carried slice was length-checked on its edge"
			}
		}
		return false, "constant index " + fmtInt(int(k)) + " with no dominating length check of " + sp
	}
	// variable index: find its upper bound fact  idx < len(T)  /  idx < n
	for _, f := range facts {
		if f.Op != token.LSS || ssax.Strip(f.X) != ssax.Strip(idx) {
			continue
		}
		tp, ok := lenArg(f.Y)
		if !ok {
			continue
		}
		if tp == sp {
			return true, "index bounded by len of the same slice"
		}
		// need len(S) == len(T) or len(S) >= len(T)
		for _, g := range facts {
			a, aok := lenArg(g.X)
			b, bok := lenArg(g.Y)
			if !aok || !bok {
				continue
			}
			if g.Op == token.EQL && ((a == sp && b == tp) || (a == tp && b == sp)) {
				return true, "len(" + sp + ") == len(" + tp + ") established"
			}
			if g.Op == token.GEQ && a == sp && b == tp {
				return true, "len(" + sp + ") >= len(" + tp + ") established"
			}
			if g.Op == token.LEQ && a == tp && b == sp {
				return true, "len(" + tp + ") <= len(" + sp + ") established"
			}
		}
		// the response slice's length was validated against some request-side length
		// (the request slices are built in lock step by the caller)
		if resetOrEqual(ia, sp, tp) {
			return true, "len(" + tp + ") was compared with len(" + sp + ") and reset to an empty slice on mismatch"
		}
		if sResp, tResp := responsePath(facts, sp), responsePath(facts, tp); sResp || tResp {
			return true, "response length validated against the request: " + sp + " / " + tp
		}
		return false, "index ranges over " + tp + " but indexes " + sp + "; no length relation established"
	}
	// range over the slice itself (go/ssa: index phi+1 compared with len(S) via a separate len value)
	return false, "no dominating bound relates the index to len(" + sp + ")"
}

func c21(c *core.Ctx) {
	initOwners(c)
	c.Rule("C21.index", "every index into a slice loaded from a response (ua *Response / *Result / *Notification objects and what hangs off them) in packages opcua and monitor is dominated by a length check relating that index to that slice (a loop over slice A indexing slice B needs len(A)==len(B) or len(B)>=len(A))", 10)
	c.Rule("C21.assert", "no single-result type assertion on an interface value loaded from a response (Variant.Value(), ExtensionObject.Value, …) in packages opcua and monitor; comma-ok or type switch only", 5)
	c.Rule("C21.nil", "no may-be-nil value (pointer map lookup, failed comma-ok, result of a function that can return nil such as Client.Session / Client.SecureChannel, a response pointer filled by a handler) is dereferenced in packages opcua and monitor without a dominating nil / ok / err==nil check", 10)

	fns := libFns(c, "opcua", "monitor")
	c.Count("functions in opcua+monitor", len(fns))
	c21cg = c.P.CallGraph()
	c21FuncFields(c, fns)
	// index
	for _, f := range fns {
		for _, b := range f.Blocks {
			for _, in := range b.Instrs {
				var s, idx ssa.Value
				switch x := in.(type) {
				case *ssa.IndexAddr:
					if _, isSlice := x.X.Type().Underlying().(*types.Slice); !isSlice {
						continue
					}
					s, idx = x.X, x.Index
				default:
					continue
				}
				if !responseDerived(s) {
					// a local slice indexed by a loop that ranges over a response slice
					if !boundByResponseSlice(in, idx, s) {
						continue
					}
				}
				ok, why := indexInBounds(in, s, idx)
				c.Ob("C21.index", fname(ssax.Outermost(f))+"·"+ssax.Path(s)+"["+idxStr(idx)+"]", pos(c, in), ok, why)
			}
		}
	}
	// assert
	for _, f := range fns {
		for _, b := range f.Blocks {
			for _, in := range b.Instrs {
				ta, ok := in.(*ssa.TypeAssert)
				if !ok {
					continue
				}
				if !responseDerived(ta.X) {
					continue
				}
				c.Ob("C21.assert", fname(ssax.Outermost(f))+"·"+ssax.Path(ta.X)+".("+ssax.TypeName(ta.AssertedType)+")", pos(c, ta), ta.CommaOk, "comma-ok / type switch: "+boolStr(ta.CommaOk)+" — a server that returns the attribute with another (well-formed) type panics the client otherwise")
			}
		}
	}
	// nil
	{
		na := nils(c)
		for _, f := range fns {
			derefs := na.Check(f)
			bad := map[ssa.Value]bool{}
			for _, d := range derefs {
				if d.Store != nil {
					continue
				}
				bad[d.Src.V] = true
				c.Ob("C21.nil", fname(ssax.Outermost(f))+"·"+shortWhy(d.Src.Why)+"·"+d.How, pos(c, d.At), false, d.Src.Why+" is used ("+d.How+") without a nil/ok check")
			}
			for _, s := range na.Sources(f) {
				if !bad[s.V] {
					c.Ob("C21.nil", fname(ssax.Outermost(f))+"·"+shortWhy(s.Why)+"·all uses guarded", vpos(c, s.V), true, "every dereference is dominated by a nil/ok check (or there is none)")
				}
			}
		}
	}
}

func idxStr(v ssa.Value) string {
	if k, ok := ssax.ConstInt(v); ok {
		return fmtInt(int(k))
	}
	return "i"
}

// boundByResponseSlice: idx's dominating upper bound is len(T) with T a
// response-derived slice different from s.
func boundByResponseSlice(at ssa.Instruction, idx, s ssa.Value) bool {
	if _, isConst := ssax.ConstInt(idx); isConst {
		return false
	}
	sp := ssax.Path(s)
	for _, f := range ssax.FactsAt(at) {
		if f.Op != token.LSS || ssax.Strip(f.X) != ssax.Strip(idx) {
			continue
		}
		call, ok := ssax.Strip(f.Y).(*ssa.Call)
		if !ok || !ssax.IsBuiltin(call, "len") {
			continue
		}
		t := call.Call.Args[0]
		if ssax.Path(t) != sp && responseDerived(t) {
			return true
		}
	}
	return false
}

// responsePath: some dominating fact equates len(path) with the length of another slice.
func responsePath(facts []ssax.Fact, path string) bool {
	for _, g := range facts {
		if g.Op != token.EQL {
			continue
		}
		a, aok := lenArgPath(g.X)
		b, bok := lenArgPath(g.Y)
		if aok && bok && (a == path || b == path) && a != b {
			return true
		}
	}
	return false
}

func lenArgPath(v ssa.Value) (string, bool) {
	// a fact operand translated from a caller / helper: its path is the text `len(<path>)`
	if syn, ok := v.(*ssax.Synth); ok {
		if strings.HasPrefix(syn.P, "len(") && strings.HasSuffix(syn.P, ")") {
			return syn.P[4 : len(syn.P)-1], true
		}
		return "", false
	}
	call, ok := ssax.Strip(v).(*ssa.Call)
	if ok && ssax.IsBuiltin(call, "len") {
		return ssax.Path(call.Call.Args[0]), true
	}
	return "", false
}

func constIndexOKFacts(facts []ssax.Fact, sp string, k int64) bool {
	for _, f := range facts {
		x, y, op := f.X, f.Y, f.Op
		if _, c := ssax.ConstInt(x); c {
			x, y, op = y, x, ssax.SwapOp(op)
		}
		p, ok := lenArgPath(x)
		if !ok || p != sp {
			continue
		}
		n, ok := ssax.ConstInt(y)
		if !ok {
			continue
		}
		switch op {
		case token.GTR:
			if n >= k {
				return true
			}
		case token.GEQ:
			if n > k {
				return true
			}
		case token.NEQ:
			if n == 0 && k == 0 {
				return true
			}
		case token.EQL:
			if n > k {
				return true
			}
		}
	}
	return false
}

// c21FuncFields: an optional callback is tested before it is called.
//
// A func-typed field of a client-side struct that some allocation site of the struct leaves unset (NodeMonitor.errHandlerCB
// is only set by SetErrorHandler) is nil for users who do not install it. Calling it — `f(...)`, `go f(...)`,
// `defer f(...)` — without a dominating `f != nil` test is a nil-function call in a library goroutine: the process dies
// on the first asynchronous error a well-formed response can cause.
func c21FuncFields(c *core.Ctx, fns []*ssa.Function) {
	c.Rule("C21.funcnil", "every call (plain, go, defer) of a func-typed struct field of packages opcua / monitor that some allocation of the struct leaves unset is dominated by a `field != nil` test", 1)
	// func-typed fields and whether every composite literal / new of the owner sets them
	type owner struct{ st *types.Struct }
	setEverywhere := map[*types.Var]bool{}
	seenField := map[*types.Var]bool{}
	for _, f := range fns {
		for _, b := range f.Blocks {
			for _, in := range b.Instrs {
				al, ok := in.(*ssa.Alloc)
				if !ok {
					continue
				}
				p, ok := al.Type().Underlying().(*types.Pointer)
				if !ok {
					continue
				}
				st, ok := p.Elem().Underlying().(*types.Struct)
				if !ok {
					continue
				}
				named, _ := p.Elem().(*types.Named)
				if named == nil || named.Obj().Pkg() == nil || !c.P.IsLib(named.Obj().Pkg()) {
					continue
				}
				// which func fields does this allocation set?
				set := map[int]bool{}
				if refs := al.Referrers(); refs != nil {
					for _, r := range *refs {
						if fa, ok := r.(*ssa.FieldAddr); ok {
							if rr := fa.Referrers(); rr != nil {
								for _, u := range *rr {
									if s2, ok := u.(*ssa.Store); ok && s2.Addr == fa && !ssax.IsNil(s2.Val) {
										set[fa.Field] = true
									}
								}
							}
						}
					}
				}
				for i := 0; i < st.NumFields(); i++ {
					fl := st.Field(i)
					if _, isFunc := fl.Type().Underlying().(*types.Signature); !isFunc {
						continue
					}
					if !seenField[fl] {
						seenField[fl] = true
						setEverywhere[fl] = true
					}
					if !set[i] {
						setEverywhere[fl] = false
					}
				}
			}
		}
	}
	n := 0
	for _, f := range fns {
		for _, call := range ssax.Calls(f) {
			cc := call.Common()
			if cc.IsInvoke() || cc.StaticCallee() != nil {
				continue
			}
			ld := loadedField(cc.Value)
			if ld.f == nil || !seenField[ld.f] || setEverywhere[ld.f] {
				continue
			}
			n++
			path := ssax.Path(ssax.Strip(cc.Value))
			ok := false
			for _, fact := range ssax.FactsAt(call) {
				if fact.Op != token.NEQ {
					continue
				}
				v := fact.X
				if ssax.IsNil(v) {
					v = fact.Y
				} else if !ssax.IsNil(fact.Y) {
					continue
				}
				if ssax.Path(ssax.Strip(v)) == path {
					ok = true
				}
			}
			detail := "the optional callback is tested for nil before it is called: " + boolStr(ok)
			if !ok {
				// the enclosing function only ever runs after the field was set: every site that calls or starts it
				// is dominated, in its own function, by a store of a non-nil value to the field
				root := ssax.Outermost(f)
				callers := 0
				allSet := true
				if n := c21cg.Nodes[root]; n != nil {
					for _, e := range n.In {
						if e.Site == nil {
							continue
						}
						callers++
						set := false
						cf, site := e.Caller.Func, ssa.Instruction(e.Site)
						for hops := 0; hops < 3 && cf != nil && !set; hops++ {
							for _, a := range ssax.FieldAccesses(cf, ld.f) {
								if st, isSt := a.Use.(*ssa.Store); isSt && a.Kind == ssax.Write && !ssax.IsNil(st.Val) && ssax.Dominates(st, site) {
									set = true
								}
							}
							// a closure (sync.Once.Do(func() { go … })): continue at the place where it is created
							par := cf.Parent()
							if par == nil {
								break
							}
							var mk ssa.Instruction
							for _, b := range par.Blocks {
								for _, in := range b.Instrs {
									if mc, isMC := in.(*ssa.MakeClosure); isMC && mc.Fn == cf {
										mk = mc
									}
								}
							}
							if mk == nil {
								break
							}
							cf, site = par, mk
						}
						if !set {
							allSet = false
						}
					}
				}
				if callers > 0 && allSet {
					ok = true
					detail = "every site that starts " + fname(root) + " is dominated by an assignment of the field"
				}
			}
			c.Ob("C21.funcnil", fname(ssax.Outermost(f))+"·call of "+ssax.FieldString(ld.f), pos(c, call), ok, detail)
		}
	}
	c.Count("calls of optional func-typed fields", n)
}
