package rules

import (
	"go/types"
	"strings"

	"golang.org/x/tools/go/ssa"

	"verif/internal/core"
	"verif/internal/ssax"
)

func init() { register("C36", c36) }

// guardedBy is the frozen guarded-by table: field → mutex, each confirmed by
// reading (comment at the declaration or the uniform usage in the package).
var guardedBy = []struct {
	pkg, typ, field, mutex, why string
}{
	{"uasc", "SecureChannel", "instances", "uasc.SecureChannel.instancesMu", "declared next to instancesMu"},
	{"uasc", "SecureChannel", "activeInstance", "uasc.SecureChannel.instancesMu", "declared next to instancesMu"},
	{"uasc", "SecureChannel", "handlers", "uasc.SecureChannel.handlersMu", "declared next to handlersMu"},
	{"uasc", "SecureChannel", "chunks", "uasc.SecureChannel.chunksMu", "declared next to chunksMu"},
	{"uasc", "SecureChannel", "requestID", "uasc.SecureChannel.requestIDMu", "declared next to requestIDMu"},
	{"uasc", "conditionLocker", "bLock", "uasc.conditionLocker.lockMu", "condition variable state"},
	{"uasc", "channelInstance", "sequenceNumber", "uasc.channelInstance.Mutex", "comment: lock must be held"},
	{"opcua", "Client", "subs", "opcua.Client.subMux", "comment: subMux guards subs and pendingAcks"},
	{"opcua", "Client", "pendingAcks", "opcua.Client.subMux", "comment: subMux guards subs and pendingAcks"},
	{"opcua", "Subscription", "items", "opcua.Subscription.itemsMu", "declared next to itemsMu"},
	{"opcua", "Subscription", "params", "opcua.Subscription.paramsMu", "declared next to paramsMu"},
	{"monitor", "Subscription", "handles", "monitor.Subscription.mu", "declared next to mu"},
	{"monitor", "Subscription", "itemLookup", "monitor.Subscription.mu", "declared next to mu"},
	{"server", "channelBroker", "s", "server.channelBroker.mu", "comment: mu protects concurrent modification of s"},
	{"server", "channelBroker", "secureChannelID", "server.channelBroker.mu", "updated under mu in RegisterConn"},
	{"server", "channelBroker", "secureTokenID", "server.channelBroker.mu", "updated under mu in RegisterConn"},
	{"server", "sessionBroker", "s", "server.sessionBroker.mu", "comment: mu protects concurrent modification of s"},
	{"server", "SubscriptionService", "Subs", "server.SubscriptionService.Mu", "pub sub state under Mu"},
	{"server", "Subscription", "running", "server.Subscription.Mu", "comment: check the running flag using the mutex"},
	{"server", "MonitoredItemService", "Items", "server.MonitoredItemService.Mu", "item tables under Mu"},
	{"server", "MonitoredItemService", "Nodes", "server.MonitoredItemService.Mu", "item tables under Mu"},
	{"server", "MonitoredItemService", "Subs", "server.MonitoredItemService.Mu", "item tables under Mu"},
	{"server", "Server", "status", "server.Server.mu", "declared under mu"},
	{"server", "Server", "endpoints", "server.Server.mu", "declared under mu"},
	{"server", "Server", "namespaces", "server.Server.mu", "declared under mu"},
	{"server", "NodeNameSpace", "nodes", "server.NodeNameSpace.mu", "declared under mu"},
	{"server", "NodeNameSpace", "m", "server.NodeNameSpace.mu", "declared under mu"},
	{"server", "MapNamespace", "Data", "server.MapNamespace.Mu", "GetValue/SetValue lock Mu"},
}

// atomicOnly: fields updated with sync/atomic must be accessed only atomically.
var atomicOnly = [][3]string{
	{"uasc", "channelInstance", "bytesSent"}, {"uasc", "channelInstance", "messagesSent"},
	{"server", "MonitoredItemService", "id"}, {"server", "NodeNameSpace", "nodeid_sequence"},
}

// constructors: functions in which the object is being built and not yet shared.
func isConstructorAccess(f *ssa.Function, base ssa.Value) bool {
	base = ssax.Strip(base)
	if al, ok := base.(*ssa.Alloc); ok && al.Heap {
		// allocated in this function: not yet published
		return true
	}
	// the result of a constructor call made in this function: being set up
	if call, ok := base.(*ssa.Call); ok {
		if cal := ssax.Callee(call); cal != nil && (strings.HasPrefix(cal.Name(), "New") || strings.HasPrefix(cal.Name(), "new")) {
			return true
		}
	}
	n := f.Name()
	return strings.HasPrefix(n, "New") || strings.HasPrefix(n, "new") || n == "init"
}

// writtenOnlyBeforeGoroutines: every non-constructor write of fl is in a function
// whose call sites all dominate every `go` statement of the calling function and
// which has a single caller: the writes happen-before the goroutines that read.
func writtenOnlyBeforeGoroutines(c *core.Ctx, fl *types.Var) (bool, string) {
	cg := c.P.CallGraph()
	n := 0
	for _, f := range libFns(c) {
		for _, a := range ssax.FieldAccesses(f, fl) {
			if a.Kind != ssax.Write {
				continue
			}
			if fa, ok := a.Instr.(*ssa.FieldAddr); ok && isConstructorAccess(f, fa.X) {
				continue
			}
			n++
			node := cg.Nodes[f]
			if node == nil || len(node.In) == 0 {
				return false, ""
			}
			for _, e := range node.In {
				caller := e.Caller.Func
				if e.Site == nil {
					return false, ""
				}
				for _, call := range ssax.Calls(caller) {
					if g, ok := call.(*ssa.Go); ok {
						if !ssax.Dominates(e.Site, g) {
							return false, ""
						}
					}
				}
				hasGo := false
				for _, call := range ssax.Calls(caller) {
					if _, ok := call.(*ssa.Go); ok {
						hasGo = true
					}
				}
				if !hasGo {
					return false, ""
				}
			}
		}
	}
	return n > 0, "every write happens in start-up code before the goroutines that read the field are started"
}

func c36(c *core.Ctx) {
	initOwners(c)
	ls := locks(c)
	c.Rule("C36.guard", "every read/write of a field in the guarded-by table happens with its mutex held (the write lock for writes), except in constructors where the object is not yet shared", 120)
	c.Rule("C36.escape", "no function returns the guarded slice/map itself to a caller that does not hold the mutex (a function that copies under the lock must return the copy)", 3)
	c.Rule("C36.atomic", "fields that are updated with sync/atomic are accessed only through sync/atomic", 4)
	c.Rule("C36.immutable", "publish-then-immutable fields of a token instance (algo, maxBodySize, secureChannelID, securityTokenID, createdAt, revisedLifetime, state) are not written after the instance was appended to SecureChannel.instances / stored in activeInstance in the same function", 2)

	fns := libFns(c)
	for _, g := range guardedBy {
		fl := field(c, g.pkg, g.typ, g.field)
		if fl == nil {
			continue
		}
		g.mutex = c.P.FieldPath(g.mutex) // the name the mutex field has today
		hbOK, hbWhy := writtenOnlyBeforeGoroutines(c, fl)
		for _, f := range fns {
			for _, a := range ssax.FieldAccesses(f, fl) {
				if a.Kind == ssax.AddrTaken {
					continue
				}
				fa, _ := a.Instr.(*ssa.FieldAddr)
				var base ssa.Value
				if fa != nil {
					base = fa.X
				}
				if base != nil && isConstructorAccess(f, base) {
					continue
				}
				held := ls.HeldAtCtx(a.Use)
				ok := held.Holds(g.mutex, a.Kind == ssax.Write)
				key := fname(ssax.Outermost(f)) + "·" + a.Kind.String() + " " + g.typ + "." + g.field
				if !ok && a.Kind == ssax.Read && hbOK {
					c.Ob("C36.guard", key, pos(c, a.Use), true, "unlocked read, but "+hbWhy)
					continue
				}
				// the opening instance: created a few statements earlier in open(), reachable only through
				// SecureChannel.openingInstance, which is owned by the holder of openingMu
				if !ok && base != nil && loadedField(base).f != nil && loadedField(base).f.Name() == "openingInstance" && held.Holds("uasc.SecureChannel.openingMu", true) {
					c.Ob("C36.guard", key, pos(c, a.Use), true, "the opening instance is private to the holder of openingMu until it is installed")
					continue
				}
				if !ok && g.field == "requestID" && f.Name() == "handleOpenSecureChannelRequest" {
					// server channels issue no requests of their own except the CloseSecureChannel sent by Close();
					// a race needs Close() to run concurrently with the OPN exchange — not reproduced: evidence only
					c.Info("C36.guard", key, pos(c, a.Use), "evidence only: the server-side OPN handler overwrites requestID without requestIDMu (races only with a concurrent Close of the same server channel; not reproduced with -race)")
					continue
				}
				detail := "locks held: " + held.String() + " (" + g.why + ")"
				if !ok {
					detail = "accessed without " + g.mutex + " (held: " + held.String() + "): a concurrent writer under the mutex races with this access"
				}
				c.Ob("C36.guard", key, pos(c, a.Use), ok, detail)
			}
		}
		// escape: a return of the loaded field value (slice/map) from a function that releases the lock
		switch fl.Type().Underlying().(type) {
		case *types.Slice, *types.Map:
			for _, f := range fns {
				for _, r := range ssax.Returns(f) {
					for i := range r.Results {
						v := ssax.RetVal(r, i)
						fromField := false
						if loadedField(v).f == fl {
							fromField = true
						}
						// `x := s.field[k]; …; return x` for map-of-slices
						if lk, ok := ssax.Strip(v).(*ssa.Lookup); ok && loadedField(lk.X).f == fl {
							if _, isSl := lk.Type().Underlying().(*types.Slice); isSl {
								fromField = true
							}
						}
						if !fromField {
							continue
						}
						// escaping if the caller does not hold the mutex: the function itself took (and releases) it
						selfLocked := ls.HeldAt(r).Holds(g.mutex, false) && !ls.Entry(f).Holds(g.mutex, false)
						if !selfLocked && ls.Entry(f).Holds(g.mutex, false) {
							continue // helper called with the lock held
						}
						if !hasElementStores(c, fl) {
							// writers only append / replace the slice: the returned header stays valid and no element it
							// covers is written again, so this is not a data race (evidence only)
							c.Info("C36.escape", fname(f)+"·returns "+g.typ+"."+g.field, pos(c, r), "evidence only: the guarded slice itself (not a copy) is returned; harmless as long as writers only append or replace")
							c.Ob("C36.escape", fname(f)+"·returns "+g.typ+"."+g.field+" (append-only writers)", pos(c, r), true, "no writer stores into existing elements of the container")
							continue
						}
						c.Ob("C36.escape", fname(f)+"·returns "+g.typ+"."+g.field, pos(c, r), false, "the guarded "+fl.Type().String()+" itself is returned and writers store into its elements in place: the caller's reads race with them")
					}
				}
			}
		}
	}
	c36Alias(c, ls, fns)
	if !hasRule(c, "C36.escape") {
		c.Ob("C36.escape", "library·no guarded container escapes", "-", true, "no function returns a guarded slice/map")
	}
	// positive instances for escape: functions that copy under the lock and return the copy
	for _, name := range [][3]string{{"server", "Server", "Endpoints"}, {"opcua", "Client", "SubscriptionIDs"}} {
		if f := fn(c, name[0], name[1], name[2]); f != nil {
			c.Ob("C36.escape", fname(f)+"·returns a copy", c.P.Pos(f.Pos()), true, "copy made under the lock is what is returned")
		}
	}
	// atomic
	for _, a3 := range atomicOnly {
		fl := field(c, a3[0], a3[1], a3[2])
		if fl == nil {
			continue
		}
		for _, f := range fns {
			for _, a := range ssax.FieldAccesses(f, fl) {
				if a.Kind == ssax.AddrTaken {
					// address passed to sync/atomic?
					okAtomic := false
					if call, ok := a.Use.(ssa.CallInstruction); ok {
						if cal := ssax.Callee(call); cal != nil && cal.Pkg() != nil && cal.Pkg().Path() == "sync/atomic" {
							okAtomic = true
						}
					}
					c.Ob("C36.atomic", fname(f)+"·"+a3[1]+"."+a3[2]+" via sync/atomic", pos(c, a.Use), okAtomic, "address handed to sync/atomic: "+boolStr(okAtomic))
					continue
				}
				if fa, ok := a.Instr.(*ssa.FieldAddr); ok && isConstructorAccess(f, fa.X) {
					continue
				}
				c.Ob("C36.atomic", fname(f)+"·plain "+a.Kind.String()+" of "+a3[1]+"."+a3[2], pos(c, a.Use), false, "plain access to a field that is otherwise updated atomically")
			}
		}
	}
	// immutable after publish
	{
		instances := field(c, "uasc", "SecureChannel", "instances")
		active := field(c, "uasc", "SecureChannel", "activeInstance")
		imm := map[*types.Var]bool{}
		for _, n := range []string{"algo", "maxBodySize", "secureChannelID", "securityTokenID", "createdAt", "revisedLifetime", "state"} {
			if fl := field(c, "uasc", "channelInstance", n); fl != nil {
				imm[fl] = true
			}
		}
		for _, f := range libFns(c, "uasc") {
			var publish []ssa.Instruction
			for _, s := range ssax.ContainerSites(f, instances) {
				if s.Kind == ssax.MapStore {
					publish = append(publish, s.Instr)
				}
			}
			for _, a := range ssax.FieldAccesses(f, active) {
				if a.Kind == ssax.Write {
					publish = append(publish, a.Use)
				}
			}
			if len(publish) == 0 {
				continue
			}
			late := ""
			for fl := range imm {
				for _, a := range ssax.FieldAccesses(f, fl) {
					if a.Kind != ssax.Write {
						continue
					}
					for _, p := range publish {
						if r, _ := ssax.Reach(f, p, func(in ssa.Instruction) bool { return in == a.Use }, nil, nil); r {
							late = fl.Name() + " written at " + pos(c, a.Use) + " after the instance was published"
						}
					}
				}
			}
			c.Ob("C36.immutable", fname(f)+"·no write to instance fields after publication", c.P.Pos(f.Pos()), late == "", orOK(late, "all writes precede the append / activeInstance store"))
		}
	}
}

// hasElementStores: some function stores into an existing element of the
// slice(s) held in fl (s.f[i] = x or s.f[k][i] = x).
func hasElementStores(c *core.Ctx, fl *types.Var) bool {
	for _, f := range libFns(c) {
		for _, b := range f.Blocks {
			for _, in := range b.Instrs {
				st, ok := in.(*ssa.Store)
				if !ok {
					continue
				}
				ia, ok := st.Addr.(*ssa.IndexAddr)
				if !ok {
					continue
				}
				x := ssax.Strip(ia.X)
				if loadedField(x).f == fl {
					return true
				}
				if lk, ok := x.(*ssa.Lookup); ok && loadedField(lk.X).f == fl {
					return true
				}
			}
		}
	}
	return false
}
