package rules

import (
	"go/types"

	"golang.org/x/tools/go/ssa"

	"verif/internal/core"
	"verif/internal/ssax"
)

// c29IterAlias: a loop does not iterate over a slice that the loop body edits in place.
//
// `items := table[key]; for i := range items { drop(items[i].ID) }` where drop() removes the element from table[key]
// with slices.Delete (which shifts the tail left inside the same backing array and zeroes the end) visits only every
// second element — the others stay registered for ever. In the server the left-over monitored items keep feeding a
// notification channel nobody drains until its sender blocks, holding the service mutex, on the dispatcher goroutine.
// Obligation, for every function of package server that loads a slice from a map-of-slices field, loops over it and
// calls, inside the loop, a function that rewrites entries of that same field: the entry is detached first
// (delete(table, key) or table[key] = … on every path from the load to the loop).
func c29IterAlias(c *core.Ctx) {
	c.Rule("C29.iteralias", "no loop of package server iterates over a slice loaded from a map-of-slices field (MonitoredItemService.Subs / Nodes, …) while its body calls a function that rewrites that field's entries in place (slices.Delete / append / element store), unless the entry was detached from the map before the loop", 1)
	fns := libFns(c, "server")
	// candidate fields: struct fields of type map[K][]T
	type key struct{ f *types.Var }
	rewriters := map[*types.Var]map[*ssa.Function]bool{}
	isMapOfSlices := func(t types.Type) bool {
		m, ok := t.Underlying().(*types.Map)
		if !ok {
			return false
		}
		_, ok = m.Elem().Underlying().(*types.Slice)
		return ok
	}
	var fields []*types.Var
	seenF := map[*types.Var]bool{}
	for _, f := range fns {
		for _, b := range f.Blocks {
			for _, in := range b.Instrs {
				fa, ok := in.(*ssa.FieldAddr)
				if !ok {
					continue
				}
				fl := ssax.FieldOf(fa.X.Type(), fa.Field)
				if fl != nil && !seenF[fl] && isMapOfSlices(fl.Type()) {
					seenF[fl] = true
					fields = append(fields, fl)
				}
			}
		}
	}
	cg := c.P.CallGraph()
	for _, fl := range fields {
		direct := map[*ssa.Function]bool{}
		for _, f := range fns {
			for _, s := range ssax.ContainerSites(f, fl) {
				if s.Kind == ssax.MapStore {
					direct[f] = true
				}
			}
		}
		// transitive callers within server (depth 3)
		all := map[*ssa.Function]bool{}
		for f := range direct {
			all[f] = true
		}
		for d := 0; d < 3; d++ {
			for f := range all {
				if n := cg.Nodes[f]; n != nil {
					for _, e := range n.In {
						if cf := e.Caller.Func; cf != nil && shortOf(cf) == "server" {
							if _, isGo := e.Site.(*ssa.Go); !isGo {
								all[cf] = true
							}
						}
					}
				}
			}
		}
		rewriters[fl] = all
	}
	n := 0
	for _, f := range fns {
		for _, fl := range fields {
			for _, s := range ssax.ContainerSites(f, fl) {
				if s.Kind != ssax.MapLookup {
					continue
				}
				// the looked-up slice value
				var sl ssa.Value
				if lk, ok := s.Instr.(*ssa.Lookup); ok {
					sl = lk
					if lk.CommaOk {
						if refs := lk.Referrers(); refs != nil {
							for _, r := range *refs {
								if ex, ok := r.(*ssa.Extract); ok && ex.Index == 0 {
									sl = ex
								}
							}
						}
					}
				}
				if sl == nil {
					continue
				}
				// loops that index sl and call a rewriter of fl
				for _, l := range ssax.Loops(f) {
					if l.Blocks[s.Instr.Block()] {
						continue // the lookup itself is inside the loop: a fresh load per iteration
					}
					indexes := false
					var rw ssa.CallInstruction
					for b := range l.Blocks {
						for _, in := range b.Instrs {
							if ia, ok := in.(*ssa.IndexAddr); ok && ssax.Strip(ia.X) == ssax.Strip(sl) {
								indexes = true
							}
							if call, ok := in.(ssa.CallInstruction); ok {
								if _, isGo := call.(*ssa.Go); isGo {
									continue
								}
								if sf := call.Common().StaticCallee(); sf != nil && rewriters[fl][sf] && sf != f {
									rw = call
								}
							}
						}
					}
					if !indexes || rw == nil {
						continue
					}
					n++
					// detached before the loop: a MapDelete/MapStore on fl in f, after the lookup, dominating the loop header
					detached := false
					for _, s2 := range ssax.ContainerSites(f, fl) {
						if (s2.Kind == ssax.MapDelete || s2.Kind == ssax.MapStore) && ssax.Dominates(s.Instr, s2.Instr) && s2.Instr.Block().Dominates(l.Header) && !l.Blocks[s2.Instr.Block()] {
							detached = true
						}
					}
					c.Ob("C29.iteralias", fname(f)+"·loop over "+ssax.FieldString(fl)+"[…] calling "+fname(rw.Common().StaticCallee()), pos(c, rw), detached, "the body rewrites entries of "+ssax.FieldString(fl)+" in place; entry detached from the map before the loop: "+boolStr(detached))
				}
			}
		}
	}
	c.Count("loops over a map-of-slices entry whose body rewrites the map", n)
}
