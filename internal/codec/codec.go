// Package codec extracts "wire scripts" from hand-written Decode / Encode
// methods: the ordered list of primitive reads / writes on the method's primary
// ua.Buffer, each with the receiver field it concerns and the presence guards
// (mask tests, case labels) under which it executes. The scripts of the two
// siblings of one type are compared with each other — not with a frozen copy.
package codec

import (
	"go/ast"
	"go/token"
	"go/types"
	"sort"
	"strings"
)

// Step is one primitive operation on the wire.
type Step struct {
	Prim   string   // normalised primitive: Uint16, Byte, String, Bytes, Struct, Time, Raw(n), Delegate(name)
	Field  string   // receiver-relative field path ("Value", "arrayDimensions[]"), "<local>" for locals
	Guards []string // presence guards (sorted): Has(X), case:X, EncodingMask==X, loop
	Pos    token.Pos
	Width  int // byte width when the primitive has a fixed one, else 0
	Callee string // for Delegate steps: the method called
}

func (s Step) String() string {
	g := ""
	if len(s.Guards) > 0 {
		g = " if " + strings.Join(s.Guards, " && ")
	}
	return s.Prim + " " + s.Field + g
}

var primNorm = map[string]string{
	"Bool": "Bool", "Byte": "Uint8", "Uint8": "Uint8", "Int8": "Int8", "Int16": "Int16", "Uint16": "Uint16",
	"Int32": "Int32", "Uint32": "Uint32", "Int64": "Int64", "Uint64": "Uint64", "Float32": "Float32", "Float64": "Float64",
	"String": "String", "Bytes": "Bytes", "ByteString": "Bytes", "Struct": "Struct", "Time": "Time", "N": "Raw", "": "Raw",
}

var primWidth = map[string]int{"Bool": 1, "Uint8": 1, "Int8": 1, "Int16": 2, "Uint16": 2, "Int32": 4, "Uint32": 4, "Int64": 8, "Uint64": 8, "Float32": 4, "Float64": 8, "Time": 8}

type extractor struct {
	info    *types.Info
	recv    string
	bufVar  types.Object // primary buffer variable
	steps   []Step
	decode  bool
	bufType func(types.Type) bool
	depth   int
}

// Resolve, when set, maps a method object to its declaration and the type info of its package; Script then inlines
// private helper methods of the codec's own receiver that take the buffer.
var Resolve func(f *types.Func) (*ast.FuncDecl, *types.Info)

// Inline switches the inlining of private helper methods on (off: such calls are Delegate steps).
var Inline bool

// InlineOnly, when non-nil, restricts inlining to the named helper methods.
var InlineOnly map[string]bool

// Script extracts the wire script of a Decode (decode=true) or Encode method.
func Script(fd *ast.FuncDecl, info *types.Info, isBuffer func(types.Type) bool, decode bool) []Step {
	ex := &extractor{info: info, decode: decode, bufType: isBuffer}
	if fd.Recv != nil && len(fd.Recv.List) > 0 && len(fd.Recv.List[0].Names) > 0 {
		ex.recv = fd.Recv.List[0].Names[0].Name
	}
	ex.block(fd.Body.List, nil)
	return ex.steps
}

func (ex *extractor) block(stmts []ast.Stmt, guards []string) {
	guards = append([]string{}, guards...)
	for _, st := range stmts {
		switch s := st.(type) {
		case *ast.IfStmt:
			if s.Init != nil {
				ex.stmt(s.Init, guards)
			}
			cond := ex.guard(s.Cond)
			ex.block(s.Body.List, add(guards, cond))
			if s.Else != nil {
				switch e := s.Else.(type) {
				case *ast.BlockStmt:
					ex.block(e.List, add(guards, neg(cond)))
				case *ast.IfStmt:
					ex.block([]ast.Stmt{e}, add(guards, neg(cond)))
				}
			} else if endsWithReturn(s.Body) {
				// early return: the rest of this block runs under the negated condition
				// (marked ~: such a guard is compared only when both siblings carry it)
				if n := neg(cond); n != "" {
					guards = add(guards, "~"+n)
				}
			}
		case *ast.SwitchStmt:
			if s.Init != nil {
				ex.stmt(s.Init, guards)
			}
			for _, cc := range s.Body.List {
				clause := cc.(*ast.CaseClause)
				var labels []string
				for _, e := range clause.List {
					if s.Tag != nil {
						labels = append(labels, types.ExprString(e))
					} else {
						labels = append(labels, ex.guard(e))
					}
				}
				g := "case:default"
				if len(labels) > 0 {
					sort.Strings(labels)
					g = "case:" + strings.Join(labels, "|")
					if s.Tag == nil && len(labels) == 1 {
						g = labels[0]
					}
				}
				ex.block(clause.Body, add(guards, g))
			}
		case *ast.ForStmt:
			ex.block(s.Body.List, add(guards, "loop"))
		case *ast.RangeStmt:
			ex.block(s.Body.List, add(guards, "loop"))
		case *ast.BlockStmt:
			ex.block(s.List, guards)
		default:
			ex.stmt(st, guards)
		}
	}
}

func endsWithReturn(b *ast.BlockStmt) bool {
	if len(b.List) == 0 {
		return false
	}
	_, ok := b.List[len(b.List)-1].(*ast.ReturnStmt)
	return ok
}

func add(g []string, x string) []string {
	if x == "" {
		return g
	}
	return append(append([]string{}, g...), x)
}

func neg(c string) string {
	if c == "" {
		return ""
	}
	if strings.HasPrefix(c, "!") {
		return strings.TrimPrefix(c, "!")
	}
	return "!" + c
}

// guard renders a condition if it is a presence guard (mask test), else "".
func (ex *extractor) guard(e ast.Expr) string {
	s := ex.norm(types.ExprString(e))
	s = strings.TrimSpace(s)
	for strings.HasPrefix(s, "(") && strings.HasSuffix(s, ")") {
		s = s[1 : len(s)-1]
	}
	negated := false
	if strings.HasPrefix(s, "!") {
		negated = true
		s = s[1:]
	}
	if strings.HasSuffix(s, " == nil") && strings.HasPrefix(s, "$") {
		s = "nil:" + strings.TrimSuffix(s, " == nil")
	} else if strings.HasSuffix(s, " != nil") && strings.HasPrefix(s, "$") {
		s = "nil:" + strings.TrimSuffix(s, " != nil")
		negated = !negated
	} else {
		keep := strings.Contains(s, "Has") || strings.Contains(s, "EncodingMask") || strings.Contains(s, "mask")
		if !keep {
			return ""
		}
	}
	if negated {
		return "!" + s
	}
	return s
}

func (ex *extractor) norm(s string) string {
	if ex.recv != "" {
		s = replaceIdent(s, ex.recv, "$")
	}
	return s
}

func replaceIdent(s, id, with string) string {
	var out strings.Builder
	i := 0
	isId := func(c byte) bool { return c == '_' || c >= '0' && c <= '9' || c >= 'a' && c <= 'z' || c >= 'A' && c <= 'Z' }
	for i < len(s) {
		if strings.HasPrefix(s[i:], id) && (i == 0 || !isId(s[i-1])) && (i+len(id) == len(s) || !isId(s[i+len(id)])) {
			out.WriteString(with)
			i += len(id)
			continue
		}
		out.WriteByte(s[i])
		i++
	}
	return out.String()
}

func (ex *extractor) stmt(st ast.Stmt, guards []string) {
	switch s := st.(type) {
	case *ast.AssignStmt:
		// primary buffer definition
		for i, rhs := range s.Rhs {
			if call, ok := rhs.(*ast.CallExpr); ok && ex.bufVar == nil {
				if tv, ok := ex.info.Types[call]; ok && ex.bufType(tv.Type) && i < len(s.Lhs) {
					if id, ok := s.Lhs[i].(*ast.Ident); ok {
						ex.bufVar = ex.info.ObjectOf(id)
						continue
					}
				}
			}
			var lhs ast.Expr
			if i < len(s.Lhs) {
				lhs = s.Lhs[i]
			}
			ex.expr(rhs, lhs, guards)
		}
	case *ast.ExprStmt:
		ex.expr(s.X, nil, guards)
	case *ast.DeclStmt, *ast.ReturnStmt, *ast.IncDecStmt:
	}
}

// expr finds buffer primitives inside e; lhs is the assignment target (decode).
func (ex *extractor) expr(e ast.Expr, lhs ast.Expr, guards []string) {
	ast.Inspect(e, func(n ast.Node) bool {
		call, ok := n.(*ast.CallExpr)
		if !ok {
			return true
		}
		sel, ok := call.Fun.(*ast.SelectorExpr)
		if !ok {
			return true
		}
		// method on the primary buffer?
		if id, ok := sel.X.(*ast.Ident); ok && ex.bufVar != nil && ex.info.ObjectOf(id) == ex.bufVar {
			name := sel.Sel.Name
			var prim string
			switch {
			case strings.HasPrefix(name, "Read"):
				prim = strings.TrimPrefix(name, "Read")
			case strings.HasPrefix(name, "Write"):
				prim = strings.TrimPrefix(name, "Write")
			default:
				return true
			}
			p, ok := primNorm[prim]
			if !ok {
				p = prim
			}
			st := Step{Prim: p, Guards: cleanGuards(guards), Pos: call.Pos(), Width: primWidth[p]}
			if ex.decode {
				switch {
				case p == "Struct" && len(call.Args) > 0:
					st.Field = ex.field(call.Args[0])
				case lhs != nil:
					st.Field = ex.field(lhs)
				default:
					st.Field = "<local>"
				}
				if p == "Raw" && len(call.Args) > 0 {
					if tv, ok := ex.info.Types[call.Args[0]]; ok && tv.Value != nil {
						st.Prim = "Raw"
						st.Width = constInt(tv)
					}
				}
			} else if len(call.Args) > 0 {
				st.Field = ex.field(call.Args[0])
			}
			ex.steps = append(ex.steps, st)
			return false
		}
		// delegation: a method of the receiver that takes the primary buffer
		for ai, a := range call.Args {
			if id, ok := a.(*ast.Ident); ok && ex.bufVar != nil && ex.info.ObjectOf(id) == ex.bufVar {
				// a private helper of the same receiver (part of this codec moved into a method): its steps are
				// this codec's steps
				if Resolve != nil && Inline && ex.depth < 2 {
					if fobj, isF := ex.info.Uses[sel.Sel].(*types.Func); isF && !fobj.Exported() && (InlineOnly == nil || InlineOnly[fobj.Name()]) {
						if rx, isRecv := sel.X.(*ast.Ident); isRecv && rx.Name == ex.recv {
							if fd2, info2 := Resolve(fobj); fd2 != nil && fd2.Body != nil && fd2.Type.Params != nil {
								// the helper's buffer parameter
								var bufObj types.Object
								k := 0
								for _, fl := range fd2.Type.Params.List {
									for _, nm := range fl.Names {
										if k == ai {
											bufObj = info2.ObjectOf(nm)
										}
										k++
									}
								}
								if bufObj != nil {
									sub := &extractor{info: info2, decode: ex.decode, bufType: ex.bufType, bufVar: bufObj, depth: ex.depth + 1}
									if fd2.Recv != nil && len(fd2.Recv.List) > 0 && len(fd2.Recv.List[0].Names) > 0 {
										sub.recv = fd2.Recv.List[0].Names[0].Name
									}
									sub.block(fd2.Body.List, guards)
									ex.steps = append(ex.steps, sub.steps...)
									return false
								}
							}
						}
					}
				}
				f := "value"
				ex.steps = append(ex.steps, Step{Prim: "Delegate", Field: f, Guards: cleanGuards(guards), Pos: call.Pos(), Callee: sel.Sel.Name})
				return false
			}
		}
		return true
	})
}

func constInt(tv types.TypeAndValue) int {
	if tv.Value == nil {
		return 0
	}
	s := tv.Value.ExactString()
	n := 0
	for _, c := range s {
		if c < '0' || c > '9' {
			return 0
		}
		n = n*10 + int(c-'0')
	}
	return n
}

func cleanGuards(g []string) []string {
	var out []string
	seen := map[string]bool{}
	for _, x := range g {
		if x == "" || seen[x] {
			continue
		}
		// a guard and its double negation
		seen[x] = true
		out = append(out, x)
	}
	sort.Strings(out)
	return out
}

// field renders the receiver-relative path of an expression, looking through
// conversions, & and indexing.
func (ex *extractor) field(e ast.Expr) string {
	for {
		switch x := e.(type) {
		case *ast.ParenExpr:
			e = x.X
			continue
		case *ast.UnaryExpr:
			e = x.X
			continue
		case *ast.StarExpr:
			e = x.X
			continue
		case *ast.CallExpr:
			// conversion T(x) / []byte(x)
			if len(x.Args) == 1 {
				if tv, ok := ex.info.Types[x.Fun]; ok && tv.IsType() {
					e = x.Args[0]
					continue
				}
			}
			// method call on the receiver's field, e.g. body.Len(): local
			return "<local>"
		case *ast.IndexExpr:
			return ex.field(x.X) + "[]"
		case *ast.SelectorExpr:
			base := ex.field(x.X)
			if base == "$" {
				return x.Sel.Name
			}
			if base == "<local>" {
				return "<local>"
			}
			return base + "." + x.Sel.Name
		case *ast.Ident:
			if x.Name == ex.recv {
				return "$"
			}
			return "<local>"
		}
		return "<local>"
	}
}

// Compare reports the differences between a decode and an encode script.
// normalise prepares a script for comparison: steps that run only when a
// pointer is nil (encoder-only fallbacks) are dropped, nil guards are removed,
// the scalar/array arms of one delegation are merged and delegations are
// compared without guards.
func normalise(steps []Step) []Step {
	var out []Step
	for i, s := range steps {
		drop := false
		var g []string
		for _, x := range s.Guards {
			switch {
			case strings.HasPrefix(x, "nil:"):
				drop = true
			case strings.HasPrefix(x, "!nil:"):
			default:
				g = append(g, x)
			}
		}
		if drop {
			continue
		}
		s.Guards = g
		if s.Prim == "Delegate" {
			// the early-return arm of a decision whose other arm delegates as well
			merged := false
			for _, x := range s.Guards {
				if strings.HasPrefix(x, "!") {
					for _, later := range steps[i+1:] {
						if later.Prim == "Delegate" {
							for _, y := range later.Guards {
								y = strings.TrimPrefix(y, "~")
								if y == strings.TrimPrefix(x, "!") || y == "!"+x {
									merged = true
								}
							}
						}
					}
				}
			}
			if merged {
				continue
			}
			s.Guards = nil
		}
		out = append(out, s)
	}
	return out
}

func Compare(dec, enc []Step) []string {
	dec, enc = normalise(dec), normalise(enc)
	var diffs []string
	n := len(dec)
	if len(enc) > n {
		n = len(enc)
	}
	for i := 0; i < n; i++ {
		if i >= len(dec) {
			diffs = append(diffs, "step "+itoa(i+1)+": encoder writes "+enc[i].String()+" that the decoder never reads")
			continue
		}
		if i >= len(enc) {
			diffs = append(diffs, "step "+itoa(i+1)+": decoder reads "+dec[i].String()+" that the encoder never writes")
			continue
		}
		d, e := dec[i], enc[i]
		if d.Prim != e.Prim {
			diffs = append(diffs, "step "+itoa(i+1)+": decoder reads "+d.String()+" but encoder writes "+e.String()+" (primitive differs)")
			continue
		}
		if d.Field != e.Field && d.Field != "<local>" && e.Field != "<local>" {
			diffs = append(diffs, "step "+itoa(i+1)+": decoder reads "+d.String()+" but encoder writes "+e.String()+" (field differs)")
			continue
		}
		if !sameGuards(d.Guards, e.Guards) {
			diffs = append(diffs, "step "+itoa(i+1)+": "+d.Prim+" "+d.Field+" is read under ["+strings.Join(d.Guards, " && ")+"] but written under ["+strings.Join(e.Guards, " && ")+"]")
		}
	}
	return diffs
}

func itoa(i int) string {
	if i == 0 {
		return "0"
	}
	s := ""
	for i > 0 {
		s = string(rune('0'+i%10)) + s
		i /= 10
	}
	return s
}

// Size returns the total width of a script if every step has a fixed width and
// no guard, else -1.
func Size(steps []Step) int {
	n := 0
	for _, s := range steps {
		if s.Width == 0 || len(s.Guards) > 0 {
			return -1
		}
		n += s.Width
	}
	return n
}

// sameGuards compares presence guards: guards written as an enclosing `if`
// must agree exactly; guards that stem from an early return (~) are compared
// only when both siblings have early-return guards.
func sameGuards(a, b []string) bool {
	split := func(g []string) (strict, early []string) {
		for _, x := range g {
			if strings.HasPrefix(x, "~") {
				early = append(early, strings.TrimPrefix(strings.TrimPrefix(x, "~"), "!!"))
			} else {
				strict = append(strict, x)
			}
		}
		return
	}
	as, ae := split(a)
	bs, be := split(b)
	// an early-return guard on one side may appear as a strict guard on the other
	norm := func(strict, early, otherStrict []string) []string {
		out := append([]string{}, strict...)
		for _, e := range early {
			for _, o := range otherStrict {
				if o == e {
					out = append(out, e)
				}
			}
		}
		sort.Strings(out)
		return out
	}
	na, nb := norm(as, ae, bs), norm(bs, be, as)
	if strings.Join(na, "&") != strings.Join(nb, "&") {
		return false
	}
	// early guards that were matched against a strict guard of the sibling are settled; the rest is compared only
	// when both siblings still carry some
	rest := func(early, otherStrict []string) []string {
		var out []string
		for _, e := range early {
			matched := false
			for _, o := range otherStrict {
				if o == e {
					matched = true
				}
			}
			if !matched {
				out = append(out, e)
			}
		}
		sort.Strings(out)
		return out
	}
	ra, rb := rest(ae, bs), rest(be, as)
	if len(ra) > 0 && len(rb) > 0 {
		return strings.Join(ra, "&") == strings.Join(rb, "&")
	}
	return true
}
