// Package nilcheck finds dereferences of values that may be nil: results of
// library functions that can return nil, map lookups with pointer elements and
// failed comma-ok forms, including values parked in struct fields. The table of
// may-return-nil functions is derived from the code itself (a function with a
// `return nil` / zero-value lookup result on some path), not from names.
package nilcheck

import (
	"go/token"
	"go/types"

	"golang.org/x/tools/go/callgraph"
	"golang.org/x/tools/go/ssa"

	"verif/internal/ssax"
)

type Analysis struct {
	cg        *callgraph.Graph
	fns       []*ssa.Function
	inSet     map[*ssa.Function]bool
	MayNil    map[*ssa.Function]map[int]bool // result index -> may be nil
	Derefs    map[*ssa.Function]map[int]bool // param index -> dereferenced without a nil check
	implsOf   func(m *types.Func) []*ssa.Function
	NilFields map[*types.Var]ssa.Instruction // fields that receive an unguarded may-nil store
}

func nillable(t types.Type) bool {
	switch t.Underlying().(type) {
	case *types.Pointer, *types.Interface:
		return true
	}
	return false
}

// New computes the summaries over fns.
func New(cg *callgraph.Graph, fns []*ssa.Function) *Analysis {
	a := &Analysis{cg: cg, fns: fns, inSet: map[*ssa.Function]bool{}, MayNil: map[*ssa.Function]map[int]bool{}, Derefs: map[*ssa.Function]map[int]bool{}, NilFields: map[*types.Var]ssa.Instruction{}}
	for _, f := range fns {
		a.inSet[f] = true
	}
	// may-return-nil, to fixed point
	for changed := true; changed; {
		changed = false
		for _, f := range fns {
			res := f.Signature.Results()
			for i := 0; i < res.Len(); i++ {
				if !nillable(res.At(i).Type()) || a.MayNil[f][i] {
					continue
				}
				if isErrorType(res.At(i).Type()) {
					continue
				}
				for _, r := range ssax.Returns(f) {
					// a nil result next to a non-nil error is the error convention, not a may-nil result
					if errIdx := errorIndex(res); errIdx >= 0 && errIdx != i {
						if ev := ssax.RetVal(r, errIdx); ev != nil && !ssax.IsNil(ev) {
							continue
						}
					}
					if a.valueMayBeNilAt(ssax.RetVal(r, i), r) {
						if a.MayNil[f] == nil {
							a.MayNil[f] = map[int]bool{}
						}
						a.MayNil[f][i] = true
						changed = true
						break
					}
				}
			}
		}
	}
	// derefs-param, two rounds
	for round := 0; round < 3; round++ {
		for _, f := range fns {
			for j, p := range f.Params {
				if !nillable(p.Type()) || a.Derefs[f][j] {
					continue
				}
				if len(a.unguardedDerefs(f, p, nil)) > 0 {
					if a.Derefs[f] == nil {
						a.Derefs[f] = map[int]bool{}
					}
					a.Derefs[f][j] = true
				}
			}
		}
	}
	return a
}

func isErrorType(t types.Type) bool { return t.String() == "error" }

func errorIndex(res *types.Tuple) int {
	for i := 0; i < res.Len(); i++ {
		if isErrorType(res.At(i).Type()) {
			return i
		}
	}
	return -1
}

// valueMayBeNilAt: v may be nil when instruction at executes (comma-ok results
// guarded by their ok flag, and values guarded by a dominating != nil test, are not).
func (a *Analysis) valueMayBeNilAt(v ssa.Value, at ssa.Instruction) bool {
	if !a.valueMayBeNil(v, 0) {
		return false
	}
	sv := ssax.Strip(v)
	s := Source{V: sv}
	if ex, ok := sv.(*ssa.Extract); ok {
		switch ex.Tuple.(type) {
		case *ssa.Lookup, *ssa.TypeAssert:
			s.OkOf = ex.Tuple
		}
	}
	// loads of local cells: check every stored value
	if u, ok := sv.(*ssa.UnOp); ok && u.Op == token.MUL {
		if al, ok := u.X.(*ssa.Alloc); ok {
			if refs := al.Referrers(); refs != nil {
				any := false
				for _, r := range *refs {
					if st, ok := r.(*ssa.Store); ok && st.Addr == al && a.valueMayBeNilAt(st.Val, st) {
						any = true
					}
				}
				if !any {
					return false
				}
			}
		}
	}
	if p, ok := sv.(*ssa.Phi); ok {
		any := false
		for i, e := range p.Edges {
			pred := p.Block().Preds[i]
			last := pred.Instrs[len(pred.Instrs)-1]
			if a.valueMayBeNilAt(e, last) {
				any = true
			}
		}
		return any
	}
	return !guarded(at, s)
}

// valueMayBeNil: v may evaluate to nil (syntactically evident sources only).
func (a *Analysis) valueMayBeNil(v ssa.Value, d int) bool {
	if v == nil || d > 6 {
		return false
	}
	v = ssax.Strip(v)
	switch x := v.(type) {
	case *ssa.Const:
		return x.Value == nil && nillable(x.Type())
	case *ssa.Phi:
		for _, e := range x.Edges {
			if a.valueMayBeNil(e, d+1) {
				return true
			}
		}
	case *ssa.Lookup:
		return !x.CommaOk && nillable(x.Type())
	case *ssa.Extract:
		switch t := x.Tuple.(type) {
		case *ssa.Lookup:
			return x.Index == 0 && nillable(x.Type())
		case *ssa.TypeAssert:
			return x.Index == 0 && nillable(x.Type())
		case *ssa.Call:
			return a.callMayReturnNil(t, x.Index)
		}
	case *ssa.Call:
		return a.callMayReturnNil(x, 0)
	case *ssa.UnOp:
		if x.Op == token.MUL {
			if al, ok := x.X.(*ssa.Alloc); ok {
				if refs := al.Referrers(); refs != nil {
					for _, r := range *refs {
						if st, ok := r.(*ssa.Store); ok && st.Addr == al && a.valueMayBeNil(st.Val, d+1) {
							return true
						}
					}
				}
			}
		}
	}
	return false
}

func (a *Analysis) callees(call ssa.CallInstruction) []*ssa.Function {
	if sf := call.Common().StaticCallee(); sf != nil {
		if sf.Origin() != nil {
			sf = sf.Origin()
		}
		return []*ssa.Function{sf}
	}
	var out []*ssa.Function
	if n := a.cg.Nodes[call.Parent()]; n != nil {
		for _, e := range n.Out {
			if e.Site == call {
				out = append(out, e.Callee.Func)
			}
		}
	}
	return out
}

func (a *Analysis) callMayReturnNil(call *ssa.Call, idx int) bool {
	for _, cf := range a.callees(call) {
		if a.MayNil[cf][idx] {
			return true
		}
	}
	return false
}

// Source is a value that may be nil at its definition.
type Source struct {
	V    ssa.Value
	OkOf ssa.Value // for comma-ok forms: the tuple whose #1 is the ok flag
	Why  string
}

// Sources lists the may-nil values defined in f.
func (a *Analysis) Sources(f *ssa.Function) []Source {
	var out []Source
	for _, b := range f.Blocks {
		for _, in := range b.Instrs {
			switch x := in.(type) {
			case *ssa.Call:
				res := x.Call.Signature().Results()
				if res.Len() == 1 && nillable(res.At(0).Type()) && !isErrorType(res.At(0).Type()) && a.callMayReturnNil(x, 0) {
					out = append(out, Source{V: x, Why: "result of " + calleeName(x) + " (may return nil)"})
				}
			case *ssa.Extract:
				if !nillable(x.Type()) || isErrorType(x.Type()) {
					continue
				}
				switch t := x.Tuple.(type) {
				case *ssa.Call:
					if a.callMayReturnNil(t, x.Index) {
						out = append(out, Source{V: x, Why: "result of " + calleeName(t) + " (may return nil)"})
					}
				case *ssa.Lookup:
					if x.Index == 0 {
						out = append(out, Source{V: x, OkOf: t, Why: "map lookup " + ssax.Path(t.X) + "[…] (zero value when the key is absent)"})
					}
				case *ssa.TypeAssert:
					if x.Index == 0 {
						out = append(out, Source{V: x, OkOf: t, Why: "comma-ok assertion (nil when it fails)"})
					}
				}
			case *ssa.Lookup:
				if !x.CommaOk && nillable(x.Type()) {
					if _, isMap := x.X.Type().Underlying().(*types.Map); isMap {
						out = append(out, Source{V: x, Why: "map lookup " + ssax.Path(x.X) + "[…] (nil when the key is absent)"})
					}
				}
			case *ssa.UnOp:
				if x.Op == token.MUL {
					if fa, ok := x.X.(*ssa.FieldAddr); ok {
						if fl := ssax.FieldOf(fa.X.Type(), fa.Field); fl != nil {
							if _, bad := a.NilFields[fl]; bad {
								out = append(out, Source{V: x, Why: "load of field " + ssax.FieldString(fl) + " which may hold nil"})
							}
						}
					}
				}
			}
		}
	}
	return out
}

func calleeName(call *ssa.Call) string {
	if f := ssax.Callee(call); f != nil {
		return ssax.ObjName(f)
	}
	return "call"
}

// Deref is a dereference of a may-nil value without a dominating nil check.
type Deref struct {
	Src   Source
	At    ssa.Instruction
	How   string
	Store *types.Var // non-nil: the value is parked in this field (no deref here)
}

// holds reports whether v may hold src (same value, a conversion of it, or a
// load of a local cell / phi it was stored to).
func holds(v ssa.Value, src ssa.Value) bool {
	v = ssax.Strip(v)
	if v == src {
		return true
	}
	for _, o := range ssax.Origins(v, nil, 0) {
		if o.CallV == src || o.Other == src {
			return true
		}
	}
	return false
}

// guarded: at executes only when src is known non-nil.
func guarded(at ssa.Instruction, s Source) bool {
	for _, f := range ssax.FactsAt(at) {
		if f.Op == token.NEQ && ((ssax.IsNil(f.Y) && holds(f.X, s.V)) || (ssax.IsNil(f.X) && holds(f.Y, s.V))) {
			return true
		}
	}
	// value and ok flag handed through a helper: `v, ok := lookupHelper(k)` where the helper returns the two results
	// of one comma-ok lookup (or nil,false): ok == true implies v is what the map held under an existing key
	if ex, isEx := ssax.Strip(s.V).(*ssa.Extract); isEx {
		if call, isCall := ex.Tuple.(*ssa.Call); isCall {
			if j := okPairedResult(call.Call.StaticCallee(), ex.Index); j >= 0 {
				trues, _ := ssax.BoolFactsAt(at)
				for _, v := range trues {
					if e2, ok := ssax.Strip(v).(*ssa.Extract); ok && e2.Tuple == ssa.Value(call) && e2.Index == j {
						return true
					}
				}
			}
		}
	}
	if s.OkOf != nil {
		trues, _ := ssax.BoolFactsAt(at)
		for _, v := range trues {
			if ex, ok := v.(*ssa.Extract); ok && ex.Tuple == s.OkOf && ex.Index == 1 {
				return true
			}
			// ok stored in a local cell
			for _, o := range ssax.Origins(v, nil, 0) {
				if ex, ok := o.Other.(*ssa.Extract); ok && ex.Tuple == s.OkOf && ex.Index == 1 {
					return true
				}
			}
		}
	}
	return false
}

// unguardedDerefs lists dereferences of value v in f not dominated by a nil check.
func (a *Analysis) unguardedDerefs(f *ssa.Function, v ssa.Value, src *Source) []Deref {
	s := Source{V: v}
	if src != nil {
		s = *src
	}
	var out []Deref
	for _, b := range f.Blocks {
		for _, in := range b.Instrs {
			how := ""
			switch x := in.(type) {
			case *ssa.FieldAddr:
				if holds(x.X, v) {
					how = "field access ." + fieldName(x)
				}
			case *ssa.UnOp:
				if x.Op == token.MUL && holds(x.X, v) {
					if _, isPtr := v.Type().Underlying().(*types.Pointer); isPtr {
						// only a deref if v itself is the pointer being loaded through
						if ssax.Strip(x.X) == v {
							how = "load through the pointer"
						}
					}
				}
			case ssa.CallInstruction:
				cc := x.Common()
				if cc.IsInvoke() {
					if holds(cc.Value, v) {
						how = "method call " + cc.Method.Name() + " on a nil interface"
					}
				} else {
					for j, arg := range cc.Args {
						if !holds(arg, v) {
							continue
						}
						for _, cf := range a.callees(x) {
							if a.Derefs[cf][j] {
								how = "passed to " + ssax.FuncName(cf) + " which dereferences it"
							}
						}
					}
				}
			case *ssa.Store:
				if fa, ok := x.Addr.(*ssa.FieldAddr); ok && holds(x.Val, v) && src != nil {
					fl := ssax.FieldOf(fa.X.Type(), fa.Field)
					if !guarded(in, s) {
						out = append(out, Deref{Src: s, At: in, How: "stored into field " + ssax.FieldString(fl), Store: fl})
					}
				}
			}
			if how == "" {
				continue
			}
			if guarded(in, s) {
				continue
			}
			out = append(out, Deref{Src: s, At: in, How: how})
		}
	}
	return out
}

func fieldName(fa *ssa.FieldAddr) string {
	if f := ssax.FieldOf(fa.X.Type(), fa.Field); f != nil {
		return f.Name()
	}
	return "?"
}

// Check returns the unguarded dereferences of may-nil values in f.
func (a *Analysis) Check(f *ssa.Function) []Deref {
	var out []Deref
	for _, s := range a.Sources(f) {
		s := s
		for _, d := range a.unguardedDerefs(f, s.V, &s) {
			out = append(out, d)
		}
	}
	return out
}

// FindNilFields records fields that receive an unguarded may-nil store and
// whose loads are dereferenced without a check somewhere in fns.
func (a *Analysis) FindNilFields() {
	cands := map[*types.Var]ssa.Instruction{}
	for _, f := range a.fns {
		for _, d := range a.Check(f) {
			if d.Store != nil {
				cands[d.Store] = d.At
			}
		}
	}
	for fl, at := range cands {
		a.NilFields[fl] = at
	}
}

// okPairedResult: h returns, at every return, result idx and a boolean result j that are the value and the ok flag of
// one comma-ok map lookup / type assertion (or j is the constant false). Returns j, or -1.
func okPairedResult(h *ssa.Function, idx int) int {
	if h == nil || len(h.Blocks) == 0 {
		return -1
	}
	res := h.Signature.Results()
	for j := 0; j < res.Len(); j++ {
		if j == idx || res.At(j).Type().String() != "bool" {
			continue
		}
		all, n := true, 0
		for _, r := range ssax.Returns(h) {
			if idx >= len(r.Results) || j >= len(r.Results) {
				all = false
				continue
			}
			n++
			okv := ssax.Strip(ssax.RetVal(r, j))
			if k, isK := okv.(*ssa.Const); isK && k.Value != nil && k.Value.String() == "false" {
				continue
			}
			ev, isE := okv.(*ssa.Extract)
			vv, isV := ssax.Strip(ssax.RetVal(r, idx)).(*ssa.Extract)
			if k, isK := okv.(*ssa.Const); isK && k.Value != nil && k.Value.String() == "true" && isV && vv.Index == 0 {
				// `return v, true` behind `if !ok { return nil, false }`: the flag of the lookup is known true here
				paired := false
				trues, _ := ssax.BoolFactsAt(r)
				for _, t := range trues {
					if te, ok := ssax.Strip(t).(*ssa.Extract); ok && te.Tuple == vv.Tuple && te.Index == 1 {
						paired = true
					}
				}
				if !paired {
					all = false
				}
				continue
			}
			if !isE || !isV || ev.Tuple != vv.Tuple || ev.Index != 1 || vv.Index != 0 {
				all = false
			}
		}
		if all && n > 0 {
			return j
		}
	}
	return -1
}
