// Package core holds the obligation model shared by all rules, the
// known-findings matcher and the evidence writer.
package core

import (
	"crypto/sha1"
	"encoding/json"
	"fmt"
	"os"
	"path/filepath"
	"sort"
	"strings"
	"time"

	"verif/internal/load"
)

// Obligation is one decided rule instance.
type Obligation struct {
	Rule   string   `json:"rule"`   // e.g. C17.key
	Key    string   `json:"key"`    // object-based instance key (never a line number)
	Pos    string   `json:"pos"`    // file:line, for the reader only
	OK     bool     `json:"ok"`     // discharged?
	Detail string   `json:"detail"` // why / what was found
	Path   []string `json:"path,omitempty"`
	// Info obligations are reported in evidence only and never fail.
	Info bool `json:"info,omitempty"`
}

// Ctx is handed to the rules of one property.
type Ctx struct {
	Prop  string
	Tier  string
	P     *load.Program
	P386  *load.Program // thorough only, may be nil
	Depth int           // interprocedural bound (3 quick / 6 thorough)

	Obs      []Obligation
	floors   map[string]int
	ruleDoc  map[string]string
	ruleOrd  []string
	Notes    []string
	Errors   []string // unresolved anchors, undecided: exit 2
	Analysed map[string]int
	keySeen  map[string]int
}

func NewCtx(prop, tier string, p *load.Program) *Ctx {
	d := 3
	if tier == "thorough" {
		d = 6
	}
	return &Ctx{Prop: prop, Tier: tier, P: p, Depth: d, floors: map[string]int{}, ruleDoc: map[string]string{}, Analysed: map[string]int{}, keySeen: map[string]int{}}
}

// Rule declares a rule with its text and the instance floor confirmed by hand.
func (c *Ctx) Rule(id, doc string, floor int) {
	if _, ok := c.ruleDoc[id]; !ok {
		c.ruleOrd = append(c.ruleOrd, id)
	}
	c.ruleDoc[id] = doc
	c.floors[id] = floor
}

// Ob records a decided obligation. Duplicate keys inside one rule get an
// ordinal suffix (#2, #3 ...) in order of appearance.
func (c *Ctx) Ob(rule, key, pos string, ok bool, detail string, path ...string) {
	if _, declared := c.ruleDoc[rule]; !declared {
		c.Errors = append(c.Errors, "internal: obligation for undeclared rule "+rule)
	}
	k := rule + "|" + key
	c.keySeen[k]++
	if n := c.keySeen[k]; n > 1 {
		key = fmt.Sprintf("%s#%d", key, n)
	}
	c.Obs = append(c.Obs, Obligation{Rule: rule, Key: key, Pos: pos, OK: ok, Detail: detail, Path: path})
}

// Info records an evidence-only observation.
func (c *Ctx) Info(rule, key, pos, detail string) {
	c.Obs = append(c.Obs, Obligation{Rule: rule, Key: key, Pos: pos, OK: true, Detail: detail, Info: true})
}

// Fatal records an unresolved anchor / undecidable situation: the check fails
// with exit 2 (never a pass).
func (c *Ctx) Fatal(format string, a ...any) {
	c.Errors = append(c.Errors, fmt.Sprintf(format, a...))
}

func (c *Ctx) Note(format string, a ...any) { c.Notes = append(c.Notes, fmt.Sprintf(format, a...)) }

func (c *Ctx) Count(what string, n int) { c.Analysed[what] += n }

// ---------------------------------------------------------------------------

// KnownFinding is one entry of /verif/known_findings.json.
type KnownFinding struct {
	Property string `json:"property"`
	Rule     string `json:"rule"`
	Key      string `json:"key"`
	Status   string `json:"status"` // "known" | "fixed"
	Commit   string `json:"commit,omitempty"`
	What     string `json:"what"`
}

type KnownFile struct {
	Comment  string         `json:"comment,omitempty"`
	Findings []KnownFinding `json:"findings"`
}

func LoadKnown(path string) (*KnownFile, error) {
	b, err := os.ReadFile(path)
	if err != nil {
		if os.IsNotExist(err) {
			return &KnownFile{}, nil
		}
		return nil, err
	}
	var k KnownFile
	if err := json.Unmarshal(b, &k); err != nil {
		return nil, fmt.Errorf("%s: %w", path, err)
	}
	return &k, nil
}

// Outcome of one property run.
type Outcome struct {
	Violations []Obligation
	Known      []struct {
		Ob Obligation
		KF KnownFinding
	}
	FloorFailures []string
	ExitCode      int
}

// Finish evaluates obligations against floors and known findings, prints the
// contract lines, writes evidence and violation replay files. Returns exit code.
func (c *Ctx) Finish(verifDir string, known *KnownFile, start time.Time, archs []string) int {
	sort.SliceStable(c.Obs, func(i, j int) bool {
		if c.Obs[i].Rule != c.Obs[j].Rule {
			return c.Obs[i].Rule < c.Obs[j].Rule
		}
		return c.Obs[i].Key < c.Obs[j].Key
	})
	kf := map[string]KnownFinding{}
	for _, f := range known.Findings {
		if f.Property == c.Prop && f.Status == "known" {
			kf[f.Rule+"|"+f.Key] = f
		}
	}
	counts := map[string]int{}
	var viol []Obligation
	type knownHit struct {
		ob Obligation
		kf KnownFinding
	}
	var khits []knownHit
	matched := map[string]bool{}
	discharged := 0
	total := 0
	for _, o := range c.Obs {
		if o.Info {
			continue
		}
		counts[o.Rule]++
		total++
		if o.OK {
			discharged++
			continue
		}
		if f, ok := kf[o.Rule+"|"+o.Key]; ok {
			khits = append(khits, knownHit{o, f})
			matched[o.Rule+"|"+o.Key] = true
			continue
		}
		viol = append(viol, o)
	}
	// floors
	for _, r := range c.ruleOrd {
		if counts[r] < c.floors[r] {
			c.Errors = append(c.Errors, fmt.Sprintf("rule %s matched %d instances, below the confirmed floor %d (a rule that silently matches nothing would pass vacuously)", r, counts[r], c.floors[r]))
		}
	}
	var stale []string
	for k, f := range kf {
		if !matched[k] {
			stale = append(stale, fmt.Sprintf("%s %s", f.Rule, f.Key))
		}
	}
	sort.Strings(stale)

	exit := 0
	for _, h := range khits {
		fmt.Printf("KNOWN-FINDING: property=%s %s %s (%s) — %s\n", c.Prop, h.ob.Rule, h.ob.Key, h.ob.Pos, h.kf.What)
	}
	vdir := filepath.Join(verifDir, "evidence", "violations")
	if len(viol) > 0 {
		os.MkdirAll(vdir, 0o755)
	}
	for _, v := range viol {
		h := sha1.Sum([]byte(v.Rule + "|" + v.Key))
		rp := filepath.Join(vdir, fmt.Sprintf("%s-%x.json", c.Prop, h[:5]))
		b, _ := json.MarshalIndent(map[string]any{"property": c.Prop, "rule": v.Rule, "rule_text": c.ruleDoc[v.Rule], "instance_key": v.Key, "site": v.Pos, "detail": v.Detail, "path": v.Path}, "", " ")
		os.WriteFile(rp, b, 0o644)
		fmt.Printf("  %s %s at %s: %s\n", v.Rule, v.Key, v.Pos, v.Detail)
		fmt.Printf("VIOLATION property=%s replay=%s\n", c.Prop, rp)
		exit = 1
	}
	for _, e := range c.Errors {
		fmt.Printf("ERROR property=%s %s\n", c.Prop, e)
	}
	if len(c.Errors) > 0 && exit == 0 {
		exit = 2
	}

	// evidence
	var samples []any
	perRule := map[string]int{}
	for _, o := range c.Obs {
		if perRule[o.Rule] < 3 || !o.OK {
			perRule[o.Rule]++
			v := "discharged"
			if o.Info {
				v = "info"
			} else if !o.OK {
				v = "FAILED"
				if matched[o.Rule+"|"+o.Key] {
					v = "failed (known finding)"
				}
			}
			samples = append(samples, map[string]any{"rule": o.Rule, "instance": o.Key, "site": o.Pos, "verdict": v, "detail": o.Detail})
		}
	}
	if len(samples) > 60 {
		samples = samples[:60]
	}
	distinct := map[string]bool{}
	for _, o := range c.Obs {
		if !o.Info {
			distinct[o.Rule+"|"+o.Key] = true
		}
	}
	var rules []map[string]any
	for _, r := range c.ruleOrd {
		rules = append(rules, map[string]any{"id": r, "text": c.ruleDoc[r], "instances": counts[r], "floor": c.floors[r]})
	}
	var all []map[string]any
	for _, o := range c.Obs {
		all = append(all, map[string]any{"rule": o.Rule, "instance": o.Key, "site": o.Pos, "ok": o.OK, "info": o.Info})
	}
	pkgs := []string{}
	for s := range c.P.Lib {
		pkgs = append(pkgs, s)
	}
	sort.Strings(pkgs)
	ev := map[string]any{
		"property_id": c.Prop,
		"tier":        c.Tier,
		"seed":        0,
		"level":       "other",
		"wall_s":      time.Since(start).Seconds(),
		"violations":  len(viol),
		"assumptions": []string{
			"go/types, go/ssa and the VTA call graph of golang.org/x/tools v0.29.0 resolve the program correctly",
			"the decided clause is a structural necessary condition of the property, not the behavioural property itself (DESIGN.md §4)",
			"mutex identity is per (type, field); call-graph over-approximation may add callers, never lose them",
		},
		"coverage": map[string]any{
			"explanation":           fmt.Sprintf("Static analysis of /repo's working tree (type-checked AST + go/ssa + VTA call graph, no execution). %d obligations over %d distinct rule instances decided; %d discharged, %d failed-and-listed in known_findings.json, %d unlisted violations. Each rule is a structural necessary condition of %s (DESIGN.md §4); the behavioural property itself is not decided.", total, len(distinct), discharged, len(khits), len(viol), c.Prop),
			"evaluations":           total,
			"distinct_nontrivial":   len(distinct),
			"obligations":           total,
			"discharged":            discharged,
			"known_findings_hit":    len(khits),
			"stale_known_findings":  stale,
			"rule":                  "an obligation is one (rule, object-based instance key) pair enumerated from the resolved program; it is non-trivial when the rule's pattern matched a concrete construct in /repo (vacuous matches are excluded by per-rule instance floors)",
			"rules":                 rules,
			"samples":               samples,
			"all_instances":         all,
			"analysed":              c.Analysed,
			"packages":              pkgs,
			"build_configs":         archs,
			"notes":                 c.Notes,
			"errors":                c.Errors,
			"interprocedural_bound": c.Depth,
		},
	}
	b, _ := json.MarshalIndent(ev, "", " ")
	os.MkdirAll(filepath.Join(verifDir, "evidence"), 0o755)
	if err := os.WriteFile(filepath.Join(verifDir, "evidence", c.Prop+".json"), b, 0o644); err != nil {
		fmt.Printf("ERROR property=%s cannot write evidence: %v\n", c.Prop, err)
		if exit == 0 {
			exit = 2
		}
	}
	status := "PASS"
	if exit == 1 {
		status = "FAIL"
	} else if exit == 2 {
		status = "ERROR"
	}
	fmt.Printf("%s property=%s tier=%s obligations=%d discharged=%d known=%d violations=%d rules=[%s] wall=%.1fs\n", status, c.Prop, c.Tier, total, discharged, len(khits), len(viol), strings.Join(c.ruleOrd, ","), time.Since(start).Seconds())
	return exit
}
