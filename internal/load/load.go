// Package load loads gopcua/opcua from /repo's working tree, type-checks it,
// builds SSA and a VTA call graph.
package load

import (
	"fmt"
	"go/ast"
	"go/token"
	"go/types"
	"os"
	"sort"
	"strings"

	"golang.org/x/tools/go/callgraph"
	"golang.org/x/tools/go/callgraph/cha"
	"golang.org/x/tools/go/callgraph/vta"
	"golang.org/x/tools/go/packages"
	"golang.org/x/tools/go/ssa"
	"golang.org/x/tools/go/ssa/ssautil"
)

const ModPath = "github.com/gopcua/opcua"

// Program is the resolved program all rules work on.
type Program struct {
	Dir     string
	GOARCH  string
	Fset    *token.FileSet
	All     []*packages.Package          // every package loaded (incl. deps)
	Lib     map[string]*packages.Package // non-test library packages of the module by short name ("ua", "uasc", "opcua", ...)
	ByPath  map[string]*packages.Package
	SSA     *ssa.Program
	SSAPkg  map[*packages.Package]*ssa.Package
	cg      *callgraph.Graph
	allFns  map[*ssa.Function]bool
	fnByObj map[*types.Func]*ssa.Function
}

// LibShortNames are the library packages rules place obligations on.
var LibShortNames = map[string]string{
	ModPath:                   "opcua",
	ModPath + "/ua":           "ua",
	ModPath + "/uacp":         "uacp",
	ModPath + "/uasc":         "uasc",
	ModPath + "/uapolicy":     "uapolicy",
	ModPath + "/server":       "server",
	ModPath + "/monitor":      "monitor",
	ModPath + "/errors":       "errors",
	ModPath + "/debug":        "debug",
	ModPath + "/stats":        "stats",
	ModPath + "/id":           "id",
	ModPath + "/schema":       "schema",
	ModPath + "/server/attrs": "attrs",
	ModPath + "/server/refs":  "refs",
}

// Load loads the module at dir. It fails on any type error, on a zero
// package count or when a library package is missing.
func Load(dir, goarch string) (*Program, error) {
	env := append(os.Environ(), "GOFLAGS=-mod=mod", "GOPROXY=off", "GOSUMDB=off", "GOTOOLCHAIN=local", "GOWORK=off", "CGO_ENABLED=0")
	if goarch != "" {
		env = append(env, "GOARCH="+goarch)
	}
	fset := token.NewFileSet()
	cfg := &packages.Config{
		Mode:  packages.LoadAllSyntax,
		Dir:   dir,
		Env:   env,
		Fset:  fset,
		Tests: false,
	}
	pkgs, err := packages.Load(cfg, "./...")
	if err != nil {
		return nil, fmt.Errorf("packages.Load: %w", err)
	}
	if len(pkgs) == 0 {
		return nil, fmt.Errorf("no packages loaded from %s", dir)
	}
	var errs []string
	packages.Visit(pkgs, nil, func(p *packages.Package) {
		for _, e := range p.Errors {
			errs = append(errs, e.Error())
		}
	})
	if len(errs) > 0 {
		sort.Strings(errs)
		if len(errs) > 20 {
			errs = errs[:20]
		}
		return nil, fmt.Errorf("load/type errors (%d):\n  %s", len(errs), strings.Join(errs, "\n  "))
	}
	p := &Program{Dir: dir, GOARCH: goarch, Fset: fset, Lib: map[string]*packages.Package{}, ByPath: map[string]*packages.Package{}}
	packages.Visit(pkgs, nil, func(pk *packages.Package) {
		p.All = append(p.All, pk)
		p.ByPath[pk.PkgPath] = pk
		if short, ok := LibShortNames[pk.PkgPath]; ok {
			p.Lib[short] = pk
		}
	})
	for _, need := range []string{"opcua", "ua", "uacp", "uasc", "uapolicy", "server", "monitor"} {
		if p.Lib[need] == nil {
			return nil, fmt.Errorf("library package %q not found in %s", need, dir)
		}
	}
	return p, nil
}

// BuildSSA builds SSA for all packages (once).
func (p *Program) BuildSSA() {
	if p.SSA != nil {
		return
	}
	prog, _ := ssautil.AllPackages(p.All, ssa.InstantiateGenerics)
	prog.Build()
	p.SSA = prog
	p.SSAPkg = map[*packages.Package]*ssa.Package{}
	for _, pk := range p.All {
		if sp := prog.Package(pk.Types); sp != nil {
			p.SSAPkg[pk] = sp
		}
	}
	p.allFns = ssautil.AllFunctions(prog)
	p.fnByObj = map[*types.Func]*ssa.Function{}
	for fn := range p.allFns {
		if o, ok := fn.Object().(*types.Func); ok && o != nil && fn.Synthetic == "" {
			if fn.Origin() == nil || fn.Origin() == fn {
				p.fnByObj[o] = fn
			}
		}
	}
}

// CallGraph returns the VTA call graph (built once).
func (p *Program) CallGraph() *callgraph.Graph {
	p.BuildSSA()
	if p.cg == nil {
		p.cg = vta.CallGraph(p.allFns, cha.CallGraph(p.SSA))
	}
	return p.cg
}

// AllFunctions returns every SSA function of the program.
func (p *Program) AllFunctions() map[*ssa.Function]bool { p.BuildSSA(); return p.allFns }

// IsLib reports whether pkg is one of the module's library packages
// (not examples, cmd, tests).
func (p *Program) IsLib(pkg *types.Package) bool {
	if pkg == nil {
		return false
	}
	_, ok := LibShortNames[pkg.Path()]
	return ok
}

// LibFunctions returns SSA functions (incl. anonymous ones) whose package is
// a library package, sorted by position for determinism.
func (p *Program) LibFunctions(short ...string) []*ssa.Function {
	p.BuildSSA()
	want := map[string]bool{}
	for _, s := range short {
		want[s] = true
	}
	var out []*ssa.Function
	for fn := range p.allFns {
		if fn.Pkg == nil || fn.Blocks == nil {
			continue
		}
		s, ok := LibShortNames[fn.Pkg.Pkg.Path()]
		if !ok {
			continue
		}
		if len(want) > 0 && !want[s] {
			continue
		}
		if fn.Synthetic != "" && fn.Parent() == nil {
			continue
		}
		out = append(out, fn)
	}
	sort.Slice(out, func(i, j int) bool {
		if out[i].Pos() != out[j].Pos() {
			return out[i].Pos() < out[j].Pos()
		}
		return out[i].String() < out[j].String()
	})
	return out
}

// Func resolves "pkgshort.Name" or "pkgshort.(Type).Method" / "pkgshort.Type.Method"
// to the types.Func; nil if absent.
func (p *Program) Func(short, recv, name string) *types.Func {
	pk := p.Lib[short]
	if pk == nil {
		return nil
	}
	if recv == "" {
		f, _ := pk.Types.Scope().Lookup(name).(*types.Func)
		return f
	}
	tn, _ := pk.Types.Scope().Lookup(recv).(*types.TypeName)
	if tn == nil {
		return nil
	}
	obj, _, _ := types.LookupFieldOrMethod(types.NewPointer(tn.Type()), true, pk.Types, name)
	f, _ := obj.(*types.Func)
	return f
}

// SSAFunc returns the SSA function for a types.Func.
func (p *Program) SSAFunc(f *types.Func) *ssa.Function {
	p.BuildSSA()
	if f == nil {
		return nil
	}
	if fn := p.fnByObj[f]; fn != nil {
		return fn
	}
	return p.SSA.FuncValue(f)
}

// Field resolves a struct field object.
func (p *Program) Field(short, typ, field string) *types.Var {
	pk := p.Lib[short]
	if pk == nil {
		return nil
	}
	tn, _ := pk.Types.Scope().Lookup(typ).(*types.TypeName)
	if tn == nil {
		return nil
	}
	st, _ := tn.Type().Underlying().(*types.Struct)
	if st == nil {
		return nil
	}
	for i := 0; i < st.NumFields(); i++ {
		if st.Field(i).Name() == field {
			return st.Field(i)
		}
	}
	// renamed? Some anchors are the only field of their type in a small struct: they are then identified by that
	// type (confirmed by reading the declaration), so that renaming an unexported field does not unhook the rules.
	if want, ok := anchorByType[short+"."+typ+"."+field]; ok {
		var hit *types.Var
		for i := 0; i < st.NumFields(); i++ {
			if types.TypeString(st.Field(i).Type(), nil) == want {
				if hit != nil {
					return nil // no longer unique
				}
				hit = st.Field(i)
			}
		}
		return hit
	}
	return nil
}

// anchorByType: anchor → type of the field, for fields that are the only one of that type in their struct.
var anchorByType = map[string]string{
	"uasc.conditionLocker.bLock":   "bool",
	"uasc.conditionLocker.lockMu":  "sync.Mutex",
	"uasc.conditionLocker.lockCnd": "*sync.Cond",
}

// FieldPath resolves "pkg.Type.field" (as used for mutex names) to the name the field has today.
func (p *Program) FieldPath(path string) string {
	parts := strings.Split(path, ".")
	if len(parts) != 3 {
		return path
	}
	if f := p.Field(parts[0], parts[1], parts[2]); f != nil {
		return parts[0] + "." + parts[1] + "." + f.Name()
	}
	return path
}

// Named resolves a named type.
func (p *Program) Named(short, typ string) *types.Named {
	pk := p.Lib[short]
	if pk == nil {
		return nil
	}
	tn, _ := pk.Types.Scope().Lookup(typ).(*types.TypeName)
	if tn == nil {
		return nil
	}
	n, _ := tn.Type().(*types.Named)
	return n
}

// FuncDecl finds the AST declaration of a function object along with its package.
func (p *Program) FuncDecl(f *types.Func) (*ast.FuncDecl, *packages.Package) {
	if f == nil || f.Pkg() == nil {
		return nil, nil
	}
	pk := p.ByPath[f.Pkg().Path()]
	if pk == nil {
		return nil, nil
	}
	for _, file := range pk.Syntax {
		for _, d := range file.Decls {
			if fd, ok := d.(*ast.FuncDecl); ok && pk.TypesInfo.Defs[fd.Name] == f {
				return fd, pk
			}
		}
	}
	return nil, nil
}

// Pos renders a position relative to the repo dir.
func (p *Program) Pos(pos token.Pos) string {
	if !pos.IsValid() {
		return "-"
	}
	pp := p.Fset.Position(pos)
	f := strings.TrimPrefix(pp.Filename, p.Dir+"/")
	return fmt.Sprintf("%s:%d", f, pp.Line)
}
