// Package lockset computes, for every instruction of the library, the set of
// mutexes that are certainly held when it executes (must-hold, forward
// dataflow over the SSA CFG; `defer Unlock` keeps the lock to function exit;
// callee summaries for wrappers; "entered holding" = intersection over all call
// sites, fixed point over the call graph). Mutex identity is (owner type, field).
package lockset

import (
	"fmt"
	"os"
	"go/token"
	"go/types"
	"sort"
	"strings"

	"golang.org/x/tools/go/callgraph"
	"golang.org/x/tools/go/ssa"

	"verif/internal/ssax"
)

// Set is a set of held mutexes. Key "T.f" = write-locked (or plain Mutex),
// "T.f:r" = read-locked.
type Set map[string]bool

func (s Set) clone() Set {
	o := Set{}
	for k := range s {
		o[k] = true
	}
	return o
}

func (s Set) String() string {
	var ks []string
	for k := range s {
		ks = append(ks, k)
	}
	sort.Strings(ks)
	return "{" + strings.Join(ks, ",") + "}"
}

// Holds reports whether mutex m is held (for writing if write is true).
func (s Set) Holds(m string, write bool) bool {
	if s[m] {
		return true
	}
	if !write && s[m+":r"] {
		return true
	}
	return false
}

func intersect(a, b Set) Set {
	if a == nil {
		return b.clone()
	}
	if b == nil {
		return a.clone()
	}
	o := Set{}
	for k := range a {
		if b[k] {
			o[k] = true
		}
	}
	return o
}

func equal(a, b Set) bool {
	if (a == nil) != (b == nil) || len(a) != len(b) {
		return false
	}
	for k := range a {
		if !b[k] {
			return false
		}
	}
	return true
}

// Op is a lock operation.
type Op struct {
	Mutex   string
	Acquire bool
	Read    bool
	Call    ssa.CallInstruction
}

// MutexOf names the mutex a Lock/Unlock call operates on ("" if unknown).
func MutexOf(recv ssa.Value) string {
	recv = ssax.Strip(recv)
	switch x := recv.(type) {
	case *ssa.FieldAddr:
		return ownerField(x.X.Type(), x.Field)
	case *ssa.UnOp:
		if x.Op == token.MUL {
			if fa, ok := x.X.(*ssa.FieldAddr); ok {
				return ownerField(fa.X.Type(), fa.Field)
			}
			if g, ok := x.X.(*ssa.Global); ok {
				return g.Pkg.Pkg.Name() + "." + g.Name()
			}
		}
	case *ssa.Global:
		return x.Pkg.Pkg.Name() + "." + x.Name()
	}
	return ""
}

func ownerField(t types.Type, i int) string {
	if p, ok := t.Underlying().(*types.Pointer); ok {
		t = p.Elem()
	}
	f := ssax.FieldOf(t, i)
	if f == nil {
		return ""
	}
	if n, ok := t.(*types.Named); ok {
		return n.Obj().Pkg().Name() + "." + n.Obj().Name() + "." + f.Name()
	}
	return f.Name()
}

// LockOp classifies a call as a sync.Mutex / sync.RWMutex operation.
func LockOp(call ssa.CallInstruction) (Op, bool) {
	cal := ssax.Callee(call)
	if cal == nil || cal.Pkg() == nil || cal.Pkg().Path() != "sync" {
		return Op{}, false
	}
	sig := cal.Type().(*types.Signature)
	if sig.Recv() == nil {
		return Op{}, false
	}
	rt := sig.Recv().Type()
	if p, ok := rt.(*types.Pointer); ok {
		rt = p.Elem()
	}
	n, ok := rt.(*types.Named)
	if !ok || (n.Obj().Name() != "Mutex" && n.Obj().Name() != "RWMutex") {
		return Op{}, false
	}
	cc := call.Common()
	if len(cc.Args) == 0 {
		return Op{}, false
	}
	m := MutexOf(cc.Args[0])
	switch cal.Name() {
	case "Lock":
		return Op{m, true, false, call}, true
	case "RLock":
		return Op{m, true, true, call}, true
	case "Unlock":
		return Op{m, false, false, call}, true
	case "RUnlock":
		return Op{m, false, true, call}, true
	}
	return Op{}, false
}

// Analysis holds the result for a set of functions.
type Analysis struct {
	cg      *callgraph.Graph
	fns     map[*ssa.Function]bool
	local   map[*ssa.Function]map[ssa.Instruction]Set // held before the instruction, local part
	exit    map[*ssa.Function]Set                     // net acquired at every return (summary)
	rel     map[*ssa.Function]Set                     // released without local acquire (summary)
	entry   map[*ssa.Function]Set
	isRoot  func(*ssa.Function) bool
	Unknown []ssa.CallInstruction // lock ops on unidentified mutexes
}

// New analyses fns. isRoot marks functions that can be entered with no lock
// held regardless of their internal callers (exported API, goroutine roots).
func New(cg *callgraph.Graph, fns []*ssa.Function, isRoot func(*ssa.Function) bool) *Analysis {
	a := &Analysis{cg: cg, fns: map[*ssa.Function]bool{}, local: map[*ssa.Function]map[ssa.Instruction]Set{}, exit: map[*ssa.Function]Set{}, rel: map[*ssa.Function]Set{}, entry: map[*ssa.Function]Set{}, isRoot: isRoot}
	for _, f := range fns {
		a.fns[f] = true
	}
	// summaries to fixed point (wrappers calling wrappers), a few rounds suffice
	for round := 0; round < 4; round++ {
		changed := false
		for _, f := range fns {
			ex, rl := a.exit[f], a.rel[f]
			a.analyse(f)
			if !equal(ex, a.exit[f]) || !equal(rl, a.rel[f]) {
				changed = true
			}
		}
		if !changed {
			break
		}
	}
	a.computeEntries(fns)
	return a
}

func (a *Analysis) analyse(f *ssa.Function) {
	if len(f.Blocks) == 0 {
		return
	}
	in := map[*ssa.BasicBlock]Set{f.Blocks[0]: {}}
	released := Set{}
	work := []*ssa.BasicBlock{f.Blocks[0]}
	out := map[*ssa.BasicBlock]Set{}
	for len(work) > 0 {
		b := work[0]
		work = work[1:]
		cur := in[b].clone()
		for _, instr := range b.Instrs {
			a.transfer(instr, cur, released)
		}
		if old, ok := out[b]; ok && equal(old, cur) {
			continue
		}
		out[b] = cur
		for _, s := range b.Succs {
			var n Set
			if prev, ok := in[s]; ok {
				n = intersect(prev, cur)
				if equal(n, prev) {
					continue
				}
			} else {
				n = cur.clone()
			}
			in[s] = n
			work = append(work, s)
		}
	}
	// record per instruction
	m := map[ssa.Instruction]Set{}
	var exit Set
	for _, b := range f.Blocks {
		st, ok := in[b]
		if !ok {
			continue
		}
		cur := st.clone()
		for _, instr := range b.Instrs {
			m[instr] = cur.clone()
			a.transfer(instr, cur, released)
			if _, isRet := instr.(*ssa.Return); isRet {
				exit = intersect(exit, cur)
			}
		}
	}
	a.local[f] = m
	if exit == nil {
		exit = Set{}
	}
	// deferred unlocks release at exit
	for _, b := range f.Blocks {
		for _, instr := range b.Instrs {
			if d, ok := instr.(*ssa.Defer); ok {
				if op, ok := LockOp(d); ok && !op.Acquire {
					delete(exit, key(op))
				}
			}
		}
	}
	a.exit[f] = exit
	a.rel[f] = released
}

func key(op Op) string {
	if op.Read {
		return op.Mutex + ":r"
	}
	return op.Mutex
}

func (a *Analysis) transfer(instr ssa.Instruction, cur Set, released Set) {
	call, ok := instr.(ssa.CallInstruction)
	if !ok {
		return
	}
	switch call.(type) {
	case *ssa.Go, *ssa.Defer:
		return
	}
	if op, ok := LockOp(call); ok {
		if op.Mutex == "" {
			return
		}
		if op.Acquire {
			cur[key(op)] = true
		} else {
			if !cur[key(op)] {
				released[key(op)] = true
			}
			delete(cur, key(op))
		}
		return
	}
	if callee := ssax.StaticFn(call); callee != nil && a.fns[callee] {
		for k := range a.rel[callee] {
			delete(cur, k)
		}
		for k := range a.exit[callee] {
			cur[k] = true
		}
	}
}

func (a *Analysis) computeEntries(fns []*ssa.Function) {
	// nil = TOP (not yet constrained)
	for _, f := range fns {
		if a.isRoot(f) {
			a.entry[f] = Set{}
		} else {
			a.entry[f] = nil
		}
	}
	for iter := 0; iter < 50; iter++ {
		changed := false
		for _, f := range fns {
			if a.isRoot(f) {
				continue
			}
			var acc Set
			constrained := false
			n := a.cg.Nodes[f]
			if n != nil {
				for _, e := range n.In {
					caller := e.Caller.Func
					if !a.fns[caller] || e.Site == nil {
						// called from outside the analysed set: no lock held
						if caller != nil && caller.Pkg != nil && e.Site != nil {
							acc = intersect(acc, Set{})
							constrained = true
						}
						continue
					}
					switch e.Site.(type) {
					case *ssa.Go:
						acc = intersect(acc, Set{})
						constrained = true
						continue
					case *ssa.Defer:
						// runs at the exit of the caller, after the defers registered later and before
						// those registered earlier (LIFO)
						ce := a.entry[caller]
						if ce == nil && !a.isRoot(caller) {
							continue // caller still TOP
						}
						acc = intersect(acc, a.heldWhenDeferredRuns(caller, e.Site.(*ssa.Defer), ce))
						constrained = true
						continue
					}
					ce := a.entry[caller]
					if ce == nil && !a.isRoot(caller) {
						continue // caller still TOP
					}
					held := Set{}
					for k := range ce {
						held[k] = true
					}
					if loc := a.local[caller][e.Site.(ssa.Instruction)]; loc != nil {
						for k := range loc {
							held[k] = true
						}
					}
					acc = intersect(acc, held)
					constrained = true
				}
			}
			if !constrained {
				continue
			}
			if !equal(acc, a.entry[f]) {
				a.entry[f] = acc
				changed = true
			}
		}
		if !changed {
			break
		}
	}
	for _, f := range fns {
		if a.entry[f] == nil {
			a.entry[f] = Set{}
		}
	}
}

// heldWhenDeferredRuns computes the mutexes certainly held when the call deferred at d runs: those held at every
// return of the caller (before its defers run), minus every mutex that a defer which may have been registered after d
// (it does not strictly dominate d) releases — such a defer runs before d's call. Deferred unlocks registered before d
// on every path run after it and do not count. Panicking exits are not considered.
func (a *Analysis) heldWhenDeferredRuns(caller *ssa.Function, d *ssa.Defer, callerEntry Set) Set {
	var atRet Set
	for _, b := range caller.Blocks {
		for _, instr := range b.Instrs {
			if _, ok := instr.(*ssa.Return); ok {
				if _, reached := a.local[caller][instr]; !reached || b == caller.Recover {
					continue // the recover block: a panicking exit
				}
				h := Set{}
				for k := range callerEntry {
					h[k] = true
				}
				for k := range a.local[caller][instr] {
					h[k] = true
				}
				atRet = intersect(atRet, h)
			}
		}
	}
	if atRet == nil {
		return Set{}
	}
	out := atRet.clone()
	for _, b := range caller.Blocks {
		for i, instr := range b.Instrs {
			d2, ok := instr.(*ssa.Defer)
			if !ok || d2 == d {
				continue
			}
			earlier := false // d2 is registered before d on every path to d
			if b == d.Block() {
				for _, x := range b.Instrs[:i] {
					if x == d {
						earlier = false
					}
				}
				// same block: earlier iff d2 precedes d
				for _, x := range b.Instrs {
					if x == d2 {
						earlier = true
						break
					}
					if x == d {
						break
					}
				}
			} else {
				earlier = b.Dominates(d.Block())
			}
			if earlier {
				continue
			}
			if op, ok := LockOp(d2); ok {
				if !op.Acquire {
					delete(out, key(op))
				}
				continue
			}
			if callee := ssax.StaticFn(d2); callee != nil && a.fns[callee] {
				for k := range a.rel[callee] {
					delete(out, k)
				}
			} else {
				// unknown deferred code: assume it may release anything
				if os.Getenv("UAVERIF_DEBUG") != "" {
					fmt.Fprintf(os.Stderr, "lockset: unknown deferred code in %s: %s\n", caller, d2)
				}
				return Set{}
			}
		}
	}
	return out
}

// HeldAt returns the mutexes certainly held before instr executes.
func (a *Analysis) HeldAt(instr ssa.Instruction) Set {
	f := instr.Parent()
	out := Set{}
	for k := range a.entry[f] {
		out[k] = true
	}
	if loc := a.local[f][instr]; loc != nil {
		for k := range loc {
			out[k] = true
		}
	}
	return out
}

// Entry returns the mutexes held on entry of f at every call site.
func (a *Analysis) Entry(f *ssa.Function) Set { return a.entry[f] }

// ExitHeld returns the summary of mutexes f returns holding.
func (a *Analysis) ExitHeld(f *ssa.Function) Set { return a.exit[f] }

// HeldAtCtx is HeldAt refined by calling context: call sites whose constant
// arguments contradict an `param == const` fact that dominates instr are
// excluded from the entry intersection (e.g. a store executed only when
// requestType == Renew inherits the locks of the one caller that passes Renew).
func (a *Analysis) HeldAtCtx(instr ssa.Instruction) Set {
	f := instr.Parent()
	base := a.HeldAt(instr)
	if a.isRoot(f) {
		return base
	}
	// param == const facts
	type pc struct {
		idx int
		val string
	}
	var facts []pc
	for _, fact := range ssax.FactsAt(instr) {
		if fact.Op != token.EQL {
			continue
		}
		p, ok := ssax.Strip(fact.X).(*ssa.Parameter)
		k, ok2 := ssax.Strip(fact.Y).(*ssa.Const)
		if !ok || !ok2 || k.Value == nil {
			continue
		}
		for i, fp := range f.Params {
			if fp == p {
				facts = append(facts, pc{i, k.Value.ExactString()})
			}
		}
	}
	if len(facts) == 0 {
		return base
	}
	n := a.cg.Nodes[f]
	if n == nil {
		return base
	}
	var acc Set
	for _, e := range n.In {
		if e.Site == nil {
			continue
		}
		args := e.Site.Common().Args
		contradicts := false
		for _, fc := range facts {
			if fc.idx < len(args) {
				if k, ok := ssax.Strip(args[fc.idx]).(*ssa.Const); ok && k.Value != nil && k.Value.ExactString() != fc.val {
					contradicts = true
				}
			}
		}
		if contradicts {
			continue
		}
		caller := e.Caller.Func
		held := Set{}
		if a.fns[caller] {
			if _, isGo := e.Site.(*ssa.Go); !isGo {
				for k := range a.HeldAt(e.Site.(ssa.Instruction)) {
					held[k] = true
				}
			}
		}
		acc = intersect(acc, held)
	}
	if acc == nil {
		return base
	}
	for k := range a.local[f][instr] {
		acc[k] = true
	}
	return acc
}
