package ssax

import (
	"go/token"
	"go/types"

	"golang.org/x/tools/go/callgraph"
	"golang.org/x/tools/go/ssa"
)

// Interprocedural facts.
//
// A maintainer who extracts a validity check into a helper (`if err := c.checkSize(h); err != nil { return err }`),
// or a checked computation into a helper that receives already-validated arguments, does not change what is known at
// the use site. FactsAt therefore also returns
//
//   (post-conditions) for a dominating `err == nil` edge of a call to a library function H with blocks: the comparisons
//   that hold at every nil-error return of H; likewise for the true/false edge of a boolean result;
//   (pre-conditions)  for an unexported function whose every caller is a static call in the library: the comparisons
//   that hold at every call site;
//
// translated into the vocabulary of the function under analysis by substituting arguments for parameters (or the
// reverse) in the access paths. Translated operands are Synth values: they have an access path, a type and — when the
// original was a field load — the field, but no SSA structure; consumers that match facts by Path / field / constant
// see them, consumers that need SSA structure ignore them.

// Synth is a fact operand translated from another function.
type Synth struct {
	P     string
	T     types.Type
	Field *types.Var // the loaded field, if the original operand was a field load
	Orig  ssa.Value
}

func (s *Synth) Name() string                  { return s.P }
func (s *Synth) String() string                { return s.P }
func (s *Synth) Type() types.Type              { return s.T }
func (s *Synth) Parent() *ssa.Function         { return nil }
func (s *Synth) Referrers() *[]ssa.Instruction { return nil }
func (s *Synth) Pos() token.Pos                { return token.NoPos }

var (
	ipGraph  *callgraph.Graph
	ipIsLib  func(*ssa.Function) bool
	ipDepth  int
	pathHook func(v ssa.Value) (string, bool)
	// IPFacts switches the interprocedural part of FactsAt on (default) or off.
	IPFacts = true
)

// SetProgram hands the call graph and the library predicate to the fact engine.
func SetProgram(cg *callgraph.Graph, isLib func(*ssa.Function) bool) {
	ipGraph, ipIsLib = cg, isLib
	sumCache = map[sumKey][]Fact{}
	entryCache = map[*ssa.Function][]Fact{}
}

type sumKey struct {
	f    *ssa.Function
	kind int // 0: nil error, 1: true, 2: false
	idx  int
}

var sumCache = map[sumKey][]Fact{}
var entryCache = map[*ssa.Function][]Fact{}

// loadedFieldOf: v is a load *(&x.f) or a Field extraction: returns f.
func loadedFieldOf(v ssa.Value) *types.Var {
	v = Strip(v)
	switch x := v.(type) {
	case *Synth:
		return x.Field
	case *ssa.UnOp:
		if x.Op == token.MUL {
			if fa, ok := x.X.(*ssa.FieldAddr); ok {
				return FieldOf(fa.X.Type(), fa.Field)
			}
		}
	case *ssa.Field:
		return FieldOf(x.X.Type(), x.Field)
	}
	return nil
}

// LoadedFieldOf is exported for rule code.
func LoadedFieldOf(v ssa.Value) *types.Var { return loadedFieldOf(v) }

func intersectFacts(a, b []Fact) []Fact {
	var out []Fact
	for _, x := range a {
		for _, y := range b {
			if x.Op == y.Op && Path(x.X) == Path(y.X) && Path(x.Y) == Path(y.Y) {
				out = append(out, x)
				break
			}
		}
	}
	return out
}

// returnFacts: comparisons that hold at every return of f selected by kind/idx, in f's own vocabulary.
func returnFacts(f *ssa.Function, kind, idx int) []Fact {
	k := sumKey{f, kind, idx}
	if r, ok := sumCache[k]; ok {
		return r
	}
	sumCache[k] = nil // recursion guard
	var acc []Fact
	first := true
	giveUp := false
	take := func(fs []Fact) {
		if first {
			acc, first = fs, false
		} else {
			acc = intersectFacts(acc, fs)
		}
	}
	// one returned value at one program point: selected (with the extra fact it implies, if any), not selected, or unknown
	var one func(v ssa.Value, at ssa.Instruction, d int)
	one = func(v ssa.Value, at ssa.Instruction, d int) {
		switch kind {
		case 0:
			if IsNil(v) {
				take(FactsAt(at))
			}
			return
		}
		want := kind == 1
		sv := Strip(v)
		if c, ok := sv.(*ssa.Const); ok && c.Value != nil {
			if (c.Value.String() == "true") == want {
				take(FactsAt(at))
			}
			return
		}
		// `return a == b`: the comparison (its negation) holds where the result is true (false)
		if cmp, neg, ok := AsCmp(sv); ok {
			op := cmp.Op
			if neg != !want {
				op = NegOp(op)
			}
			take(append(FactsAt(at), Fact{op, cmp.X, cmp.Y, nil}))
			return
		}
		// `return a && b` and friends: a phi of constants and comparisons, each judged where it comes from
		if ph, ok := sv.(*ssa.Phi); ok && d < 3 {
			for i, e := range ph.Edges {
				pred := ph.Block().Preds[i]
				if len(pred.Instrs) == 0 {
					giveUp = true
					return
				}
				one(e, pred.Instrs[len(pred.Instrs)-1], d+1)
			}
			return
		}
		// any other boolean may be either: the return constrains nothing we can rely on
		giveUp = true
	}
	for _, r := range Returns(f) {
		if idx >= len(r.Results) {
			continue
		}
		one(RetVal(r, idx), r, 0)
		if giveUp {
			sumCache[k] = nil
			return nil
		}
	}
	sumCache[k] = acc
	return acc
}

func translate(fs []Fact, hook func(v ssa.Value) (string, bool)) []Fact {
	var out []Fact
	old := pathHook
	pathHook = hook
	defer func() { pathHook = old }()
	mk := func(v ssa.Value) ssa.Value {
		if c, ok := Strip(v).(*ssa.Const); ok {
			return c
		}
		return &Synth{P: Path(v), T: v.Type(), Field: loadedFieldOf(v), Orig: v}
	}
	for _, f := range fs {
		out = append(out, Fact{f.Op, mk(f.X), mk(f.Y), nil})
	}
	return out
}

// CalleeFacts: what holds in the caller when call returned a nil error (kind 0), true (1) or false (2) as result idx.
func CalleeFacts(call *ssa.Call, kind, idx int) []Fact { return calleeFacts(call, kind, idx) }

// calleeFacts translates H's return facts to the caller of call.
func calleeFacts(call *ssa.Call, kind, idx int) []Fact {
	h := call.Call.StaticCallee()
	if h == nil || len(h.Blocks) == 0 || ipIsLib == nil || !ipIsLib(h) || h == call.Parent() {
		return nil
	}
	fs := returnFacts(h, kind, idx)
	if len(fs) == 0 {
		return nil
	}
	args := call.Call.Args
	sub := map[ssa.Value]string{}
	old := pathHook
	pathHook = nil
	for i, p := range h.Params {
		if i < len(args) {
			sub[p] = Path(args[i])
		}
	}
	pathHook = old
	return translate(fs, func(v ssa.Value) (string, bool) {
		s, ok := sub[v]
		return s, ok
	})
}

// PrivateCallers: the call sites of f when f is unexported and every incoming edge is a plain static library call.
func PrivateCallers(f *ssa.Function) []*ssa.Call { return privateCallers(f) }

// privateCallers: f is unexported, has blocks, and every incoming edge is a plain static call from library code.
func privateCallers(f *ssa.Function) []*ssa.Call {
	if ipGraph == nil || f.Object() == nil || f.Object().Exported() || f.Parent() != nil {
		return nil
	}
	n := ipGraph.Nodes[f]
	if n == nil || len(n.In) == 0 {
		return nil
	}
	var out []*ssa.Call
	for _, e := range n.In {
		c, ok := e.Site.(*ssa.Call)
		if !ok || c.Call.StaticCallee() != f || e.Caller.Func == f {
			return nil
		}
		out = append(out, c)
	}
	return out
}

// entryFacts: comparisons that hold at every call site of the private function f, in f's vocabulary.
func entryFacts(f *ssa.Function) []Fact {
	if r, ok := entryCache[f]; ok {
		return r
	}
	entryCache[f] = nil
	calls := privateCallers(f)
	if len(calls) == 0 {
		return nil
	}
	var acc []Fact
	for i, c := range calls {
		argPath := map[string]string{}
		for j, p := range f.Params {
			if j < len(c.Call.Args) {
				argPath[Path(c.Call.Args[j])] = p.Name()
			}
		}
		fs := translate(FactsAt(c), func(v ssa.Value) (string, bool) {
			old := pathHook
			pathHook = nil
			p := Path(v)
			pathHook = old
			s, ok := argPath[p]
			return s, ok
		})
		if i == 0 {
			acc = fs
		} else {
			acc = intersectFacts(acc, fs)
		}
	}
	entryCache[f] = acc
	return acc
}

// interprocFacts adds post- and pre-condition facts to the local facts at `at`.
func interprocFacts(at ssa.Instruction, local []Fact) []Fact {
	if !IPFacts || ipGraph == nil || ipDepth >= 2 {
		return nil
	}
	ipDepth++
	defer func() { ipDepth-- }()
	var out []Fact
	fn := at.Parent()
	// post-conditions: err == nil facts on error results of calls
	for _, f := range local {
		if f.Op != token.EQL || !IsNil(f.Y) {
			continue
		}
		v := Strip(f.X)
		var call *ssa.Call
		idx := 0
		switch x := v.(type) {
		case *ssa.Call:
			call = x
		case *ssa.Extract:
			call, _ = x.Tuple.(*ssa.Call)
			idx = x.Index
		}
		if call == nil || !isErrorType(v.Type()) {
			continue
		}
		out = append(out, calleeFacts(call, 0, idx)...)
	}
	// boolean results
	trues, falses := BoolFactsAt(at)
	for k, vs := range [][]ssa.Value{trues, falses} {
		for _, v := range vs {
			v = Strip(v)
			var call *ssa.Call
			idx := 0
			switch x := v.(type) {
			case *ssa.Call:
				call = x
			case *ssa.Extract:
				call, _ = x.Tuple.(*ssa.Call)
				idx = x.Index
			}
			if call == nil {
				continue
			}
			out = append(out, calleeFacts(call, 1+k, idx)...)
		}
	}
	// pre-conditions
	out = append(out, entryFacts(fn)...)
	return out
}

func isErrorType(t types.Type) bool { return t.String() == "error" }

// GuidedReach reports whether target can execute in fn under a partial valuation of boolean conditions: leaf decides
// the truth of a comparison (known=false: undetermined, both branches are explored); constants, negations and boolean
// phis (evaluated for the edge actually taken) are handled here. It answers "is there a path to target that is
// consistent with the valuation" and is insensitive to how the conditions are written (hoisted into variables,
// De Morgan, switch, nested ifs).
func GuidedReach(fn *ssa.Function, target ssa.Instruction, leaf func(v ssa.Value) (val, known bool)) bool {
	return GuidedReachAvoid(fn, target, nil, leaf)
}

// GuidedReachAvoid is GuidedReach restricted to paths on which no instruction satisfying avoid executes before target.
func GuidedReachAvoid(fn *ssa.Function, target ssa.Instruction, avoid func(ssa.Instruction) bool, leaf func(v ssa.Value) (val, known bool)) bool {
	if len(fn.Blocks) == 0 {
		return false
	}
	// boolean phis of the function, numbered
	var phis []*ssa.Phi
	for _, b := range fn.Blocks {
		for _, in := range b.Instrs {
			if p, ok := in.(*ssa.Phi); ok {
				if bt, ok := p.Type().Underlying().(*types.Basic); ok && bt.Kind() == types.Bool {
					phis = append(phis, p)
				}
			}
		}
	}
	phiIdx := map[*ssa.Phi]int{}
	for i, p := range phis {
		phiIdx[p] = i
	}
	// env: per phi 0 unknown, 1 false, 2 true (as a string for memoisation)
	type state struct {
		b, prev *ssa.BasicBlock
		env     string
	}
	var eval func(v ssa.Value, env []byte, d int) (bool, bool)
	eval = func(v ssa.Value, env []byte, d int) (bool, bool) {
		if d > 8 {
			return false, false
		}
		switch x := v.(type) {
		case *ssa.Const:
			if x.Value != nil && (x.Value.String() == "true" || x.Value.String() == "false") {
				return x.Value.String() == "true", true
			}
		case *ssa.UnOp:
			if x.Op == token.NOT {
				r, k := eval(x.X, env, d+1)
				return !r, k
			}
		case *ssa.Phi:
			if i, ok := phiIdx[x]; ok && env[i] != 0 {
				return env[i] == 2, true
			}
			return false, false
		}
		return leaf(v)
	}
	seen := map[state]bool{}
	work := []state{{fn.Blocks[0], nil, string(make([]byte, len(phis)))}}
	for len(work) > 0 {
		s := work[len(work)-1]
		work = work[:len(work)-1]
		if seen[s] {
			continue
		}
		seen[s] = true
		env := []byte(s.env)
		// phis of this block take the value of the edge we came in by
		if s.prev != nil {
			for _, in := range s.b.Instrs {
				p, ok := in.(*ssa.Phi)
				if !ok {
					break
				}
				i, isBool := phiIdx[p]
				if !isBool {
					continue
				}
				env[i] = 0
				for k, pr := range s.b.Preds {
					if pr == s.prev {
						if val, known := eval(p.Edges[k], []byte(s.env), 0); known {
							if val {
								env[i] = 2
							} else {
								env[i] = 1
							}
						}
					}
				}
			}
		}
		stopped := false
		for _, in := range s.b.Instrs {
			if in == target {
				return true
			}
			if avoid != nil && avoid(in) {
				stopped = true
				break
			}
		}
		if stopped {
			continue
		}
		last := s.b.Instrs[len(s.b.Instrs)-1]
		if iff, ok := last.(*ssa.If); ok && len(s.b.Succs) == 2 {
			if val, known := eval(iff.Cond, env, 0); known {
				if val {
					work = append(work, state{s.b.Succs[0], s.b, string(env)})
				} else {
					work = append(work, state{s.b.Succs[1], s.b, string(env)})
				}
				continue
			}
		}
		for _, n := range s.b.Succs {
			work = append(work, state{n, s.b, string(env)})
		}
	}
	return false
}
