package ssax

import (
	"go/token"
	"strings"

	"golang.org/x/tools/go/ssa"
)

// NormExpr renders v like Path but (a) replaces the value `self` (typically the
// receiver) by "$" and (b) inlines calls of trivial getters — functions with a
// single block that only load fields of their parameters and return one
// expression — so that `n.Type() == K` and `n.mask&0xf == K` render alike.
func NormExpr(v ssa.Value, self ssa.Value) string {
	return normExpr(v, map[ssa.Value]string{self: "$"}, 0)
}

func normExpr(v ssa.Value, subst map[ssa.Value]string, d int) string {
	if d > 16 || v == nil {
		return "…"
	}
	if s, ok := subst[v]; ok {
		return s
	}
	switch x := v.(type) {
	case *ssa.Phi:
		// a phi one of whose edges is the substituted value (e = recv or a default): treat as that value
		for _, e := range x.Edges {
			if s, ok := subst[e]; ok {
				return s
			}
		}
		return "φ" + x.Comment
	case *ssa.Const:
		if x.Value == nil {
			return "nil"
		}
		return x.Value.ExactString()
	case *ssa.Convert:
		return normExpr(x.X, subst, d+1)
	case *ssa.ChangeType:
		return normExpr(x.X, subst, d+1)
	case *ssa.MakeInterface:
		return normExpr(x.X, subst, d+1)
	case *ssa.FieldAddr:
		return "&" + derefS(normExpr(x.X, subst, d+1)) + "." + fieldName(x.X.Type(), x.Field)
	case *ssa.Field:
		return normExpr(x.X, subst, d+1) + "." + fieldName(x.X.Type(), x.Field)
	case *ssa.UnOp:
		switch x.Op {
		case token.MUL:
			return derefS(normExpr(x.X, subst, d+1))
		case token.NOT:
			return "!" + normExpr(x.X, subst, d+1)
		}
		return x.Op.String() + normExpr(x.X, subst, d+1)
	case *ssa.BinOp:
		return "(" + normExpr(x.X, subst, d+1) + x.Op.String() + normExpr(x.Y, subst, d+1) + ")"
	case *ssa.Call:
		if sf := x.Call.StaticCallee(); sf != nil && trivialGetter(sf) {
			inner := map[ssa.Value]string{}
			for i, p := range sf.Params {
				if i < len(x.Call.Args) {
					inner[p] = normExpr(x.Call.Args[i], subst, d+1)
				}
			}
			ret := sf.Blocks[0].Instrs[len(sf.Blocks[0].Instrs)-1].(*ssa.Return)
			return normExpr(ret.Results[0], inner, d+1)
		}
		var as []string
		for _, a := range x.Call.Args {
			as = append(as, normExpr(a, subst, d+1))
		}
		name := "call"
		if b, ok := x.Call.Value.(*ssa.Builtin); ok {
			name = b.Name()
		} else if f := Callee(x); f != nil {
			name = f.Name()
		}
		return name + "(" + strings.Join(as, ",") + ")"
	case *ssa.Extract:
		return normExpr(x.Tuple, subst, d+1) + "#" + string(rune('0'+x.Index))
	case *ssa.Parameter:
		return x.Name()
	case *ssa.Global:
		return x.Pkg.Pkg.Name() + "." + x.Name()
	}
	return Path(v)
}

func derefS(p string) string {
	if strings.HasPrefix(p, "&") {
		return p[1:]
	}
	return "*" + p
}

// trivialGetter: one block, no calls, no stores, returns one value.
func trivialGetter(f *ssa.Function) bool {
	if f.Blocks == nil || len(f.Blocks) != 1 || f.Signature.Results().Len() != 1 {
		return false
	}
	for _, in := range f.Blocks[0].Instrs {
		switch in.(type) {
		case *ssa.FieldAddr, *ssa.Field, *ssa.UnOp, *ssa.BinOp, *ssa.Convert, *ssa.ChangeType, *ssa.Return, *ssa.DebugRef:
		default:
			return false
		}
	}
	_, ok := f.Blocks[0].Instrs[len(f.Blocks[0].Instrs)-1].(*ssa.Return)
	return ok
}

// Atom is a normalised boolean atom with its truth value.
type Atom struct {
	Expr  string
	Truth bool
}

// CondAtom renders the condition of an If as an atom (for the true edge).
func CondAtom(cond ssa.Value, self ssa.Value) (Atom, bool) {
	truth := true
	v := cond
	for {
		if u, ok := v.(*ssa.UnOp); ok && u.Op == token.NOT {
			truth = !truth
			v = u.X
			continue
		}
		break
	}
	// inline trivial boolean getters (d.Has(X)) to their comparison
	if call, ok := v.(*ssa.Call); ok {
		if sf := call.Call.StaticCallee(); sf != nil && trivialGetter(sf) {
			s := normExpr(v, map[ssa.Value]string{self: "$"}, 0)
			return canonAtom(s, truth), true
		}
	}
	if bo, ok := v.(*ssa.BinOp); ok {
		switch bo.Op {
		case token.EQL, token.NEQ, token.LSS, token.LEQ, token.GTR, token.GEQ:
			l, r := NormExpr(bo.X, self), NormExpr(bo.Y, self)
			op := bo.Op
			switch op {
			case token.NEQ:
				op, truth = token.EQL, !truth
			case token.GEQ:
				op, truth = token.LSS, !truth
			case token.GTR:
				op, truth = token.LEQ, !truth
			}
			if op == token.EQL && r < l {
				l, r = r, l
			}
			return Atom{"(" + l + op.String() + r + ")", truth}, true
		}
	}
	return Atom{NormExpr(v, self), truth}, true
}

func canonAtom(s string, truth bool) Atom {
	// "(A!=B)" → "(A==B)" negated
	if strings.Contains(s, "!=") && strings.Count(s, "!=") == 1 && !strings.Contains(s[strings.Index(s, "!=")+2:], "==") {
		// only canonicalise a top-level != (last operator)
	}
	return Atom{s, truth}
}

// EdgeAtoms returns the atoms that hold on the true and false edge of the If
// terminating b (ok=false if b does not end in an If).
func EdgeAtoms(b *ssa.BasicBlock, self ssa.Value) (t, f Atom, ok bool) {
	if len(b.Instrs) == 0 {
		return
	}
	ifi, isIf := b.Instrs[len(b.Instrs)-1].(*ssa.If)
	if !isIf {
		return
	}
	a, _ := CondAtom(ifi.Cond, self)
	return a, Atom{a.Expr, !a.Truth}, true
}

// GuardAtoms returns the atoms of all If conditions whose outcome is fixed when
// `at` executes.
func GuardAtoms(at ssa.Instruction, self ssa.Value) []Atom {
	var out []Atom
	fn := at.Parent()
	for _, b := range fn.Blocks {
		if len(b.Instrs) == 0 || len(b.Succs) != 2 || b.Succs[0] == b.Succs[1] {
			continue
		}
		if !b.Dominates(at.Block()) {
			continue
		}
		t, f, ok := EdgeAtoms(b, self)
		if !ok {
			continue
		}
		te := EdgeDominates(b, b.Succs[0], at)
		fe := EdgeDominates(b, b.Succs[1], at)
		if te == fe {
			continue
		}
		if te {
			out = append(out, t)
		} else {
			out = append(out, f)
		}
	}
	return out
}

// EntryDisjunction renders the condition under which control enters block b
// when b has several predecessors that each end in an If (the lowering of
// `if A || B { … }`): the sorted disjunction of the edge atoms. ok is false when
// some predecessor is not a conditional edge.
func EntryDisjunction(b *ssa.BasicBlock, self ssa.Value) (string, bool) {
	if len(b.Preds) == 0 {
		return "", false
	}
	var parts []string
	for _, p := range b.Preds {
		t, f, ok := EdgeAtoms(p, self)
		if !ok || len(p.Succs) != 2 {
			return "", false
		}
		a := f
		if p.Succs[0] == b {
			a = t
		}
		s := a.Expr
		if !a.Truth {
			s = "!" + s
		}
		parts = append(parts, s)
	}
	// sort for a canonical form
	for i := range parts {
		for j := i + 1; j < len(parts); j++ {
			if parts[j] < parts[i] {
				parts[i], parts[j] = parts[j], parts[i]
			}
		}
	}
	return strings.Join(parts, " || "), true
}
