package ssax

import (
	"go/constant"
	"go/token"
	"go/types"

	"golang.org/x/tools/go/ssa"
)

// Prover answers small arithmetic questions from dominating comparisons.
type Prover struct {
	// FieldStores returns every store instruction to the field in the program.
	FieldStores func(f *types.Var) []*ssa.Store
	// Bodies resolves a static callee to its SSA body (nil if unknown).
	seen map[ssa.Value]bool
}

// AtLeastOne reports whether v >= 1 is established when `at` executes:
// constants, dominating comparisons, phis whose every edge qualifies at the end
// of its predecessor, products / conversions of qualifying values, results of
// functions all of whose returns qualify, and struct fields all of whose stores
// qualify.
func (p *Prover) AtLeastOne(v ssa.Value, at ssa.Instruction) bool {
	p.seen = map[ssa.Value]bool{}
	return p.ge1(v, FactsAt(at), 0)
}

func constGE1(c *ssa.Const) bool {
	if c.Value == nil {
		return false
	}
	switch c.Value.Kind() {
	case constant.Int, constant.Float:
		return constant.Compare(c.Value, token.GEQ, constant.MakeInt64(1))
	}
	return false
}

func (p *Prover) ge1(v ssa.Value, facts []Fact, d int) bool {
	if v == nil || d > 10 {
		return false
	}
	if c, ok := v.(*ssa.Const); ok {
		return constGE1(c)
	}
	// dominating facts on this value (or a value with the same access path)
	{
		vp := Path(v)
		for _, f := range facts {
			x, y, op := f.X, f.Y, f.Op
			if _, isConst := x.(*ssa.Const); isConst {
				x, y, op = y, x, SwapOp(op)
			}
			k, ok := y.(*ssa.Const)
			if !ok || k.Value == nil {
				continue
			}
			if x != v && Path(x) != vp {
				continue
			}
			switch op {
			case token.GEQ:
				if constGE1(k) {
					return true
				}
			case token.GTR:
				if constGE1(k) {
					return true
				}
				if isIntegral(v.Type()) && constant.Compare(k.Value, token.GEQ, constant.MakeInt64(0)) {
					return true
				}
			}
		}
	}
	if p.seen[v] {
		return false
	}
	p.seen[v] = true
	defer delete(p.seen, v)
	switch x := v.(type) {
	case *ssa.Phi:
		for i, e := range x.Edges {
			pred := x.Block().Preds[i]
			if !p.ge1(e, FactsOnEdge(pred, x.Block()), d+1) {
				return false
			}
		}
		return len(x.Edges) > 0
	case *ssa.Convert:
		// float→int truncation keeps >= 1; widening keeps it
		return p.ge1(x.X, facts, d+1)
	case *ssa.ChangeType:
		return p.ge1(x.X, facts, d+1)
	case *ssa.BinOp:
		switch x.Op {
		case token.MUL:
			return p.ge1(x.X, facts, d+1) && p.ge1(x.Y, facts, d+1)
		case token.ADD:
			return (p.ge1(x.X, facts, d+1) && nonNeg(x.Y)) || (p.ge1(x.Y, facts, d+1) && nonNeg(x.X))
		}
	case *ssa.UnOp:
		if x.Op == token.MUL {
			switch a := x.X.(type) {
			case *ssa.FieldAddr:
				fl := FieldOf(a.X.Type(), a.Field)
				if fl == nil || p.FieldStores == nil {
					return false
				}
				stores := p.FieldStores(fl)
				if len(stores) == 0 {
					return false
				}
				for _, st := range stores {
					if !p.ge1(st.Val, FactsAt(st), d+1) {
						return false
					}
				}
				return true
			case *ssa.Alloc:
				n := 0
				if refs := a.Referrers(); refs != nil {
					for _, r := range *refs {
						if st, ok := r.(*ssa.Store); ok && st.Addr == a {
							n++
							if !p.ge1(st.Val, FactsAt(st), d+1) {
								return false
							}
						}
					}
				}
				return n > 0
			}
		}
	case *ssa.Call:
		if sf := x.Call.StaticCallee(); sf != nil && sf.Blocks != nil && sf.Signature.Results().Len() == 1 {
			rets := Returns(sf)
			for _, r := range rets {
				if !p.ge1(RetVal(r, 0), FactsAt(r), d+1) {
					return false
				}
			}
			return len(rets) > 0
		}
		if b, ok := x.Call.Value.(*ssa.Builtin); ok && (b.Name() == "max") {
			for _, a := range x.Call.Args {
				if p.ge1(a, facts, d+1) {
					return true
				}
			}
		}
	}
	return false
}

// FactsOnEdge returns the comparisons known to hold when control flows along
// the CFG edge pred→succ: everything that dominates pred's terminator plus the
// outcome of pred's own If.
func FactsOnEdge(pred, succ *ssa.BasicBlock) []Fact {
	last := pred.Instrs[len(pred.Instrs)-1]
	out := FactsAt(last)
	if ifi, ok := last.(*ssa.If); ok && len(pred.Succs) == 2 && pred.Succs[0] != pred.Succs[1] {
		if cmp, neg, ok := AsCmp(ifi.Cond); ok {
			holds := succ == pred.Succs[0]
			if neg {
				holds = !holds
			}
			op := cmp.Op
			if !holds {
				op = NegOp(op)
			}
			out = append(out, Fact{op, cmp.X, cmp.Y, ifi})
		}
	}
	return out
}

func isIntegral(t types.Type) bool {
	b, ok := t.Underlying().(*types.Basic)
	return ok && b.Info()&types.IsInteger != 0
}

func nonNeg(v ssa.Value) bool {
	if c, ok := v.(*ssa.Const); ok && c.Value != nil {
		return constant.Compare(c.Value, token.GEQ, constant.MakeInt64(0))
	}
	if b, ok := v.Type().Underlying().(*types.Basic); ok && b.Info()&types.IsUnsigned != 0 {
		return true
	}
	return false
}
