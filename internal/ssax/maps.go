package ssax

import (
	"go/token"
	"go/types"

	"golang.org/x/tools/go/ssa"
)

type MapSiteKind int

const (
	MapLookup MapSiteKind = iota
	MapStore
	MapDelete
	MapRange
	MapLen
	MapOther
)

func (k MapSiteKind) String() string {
	return [...]string{"lookup", "store", "delete", "range", "len", "other"}[k]
}

// MapSite is one operation on a map (or slice) held in a struct field.
type MapSite struct {
	Kind  MapSiteKind
	Instr ssa.Instruction
	Load  *ssa.UnOp // the load of the field
	Key   ssa.Value
	Val   ssa.Value
	Fn    *ssa.Function
}

// ContainerSites enumerates the operations performed in fn on the map/slice
// stored in `field`.
func ContainerSites(fn *ssa.Function, field *types.Var) []MapSite {
	var out []MapSite
	for _, b := range fn.Blocks {
		for _, in := range b.Instrs {
			fa, ok := in.(*ssa.FieldAddr)
			if !ok || FieldOf(fa.X.Type(), fa.Field) != field {
				continue
			}
			refs := fa.Referrers()
			if refs == nil {
				continue
			}
			for _, r := range *refs {
				switch u := r.(type) {
				case *ssa.Store:
					if u.Addr == fa {
						out = append(out, MapSite{Kind: MapOther, Instr: u, Val: u.Val, Fn: fn})
					}
				case *ssa.UnOp:
					if u.Op != token.MUL {
						continue
					}
					ur := u.Referrers()
					if ur == nil {
						continue
					}
					for _, x := range *ur {
						switch y := x.(type) {
						case *ssa.Lookup:
							if y.X == u {
								out = append(out, MapSite{Kind: MapLookup, Instr: y, Load: u, Key: y.Index, Fn: fn})
							}
						case *ssa.MapUpdate:
							if y.Map == u {
								out = append(out, MapSite{Kind: MapStore, Instr: y, Load: u, Key: y.Key, Val: y.Value, Fn: fn})
							}
						case *ssa.Range:
							out = append(out, MapSite{Kind: MapRange, Instr: y, Load: u, Fn: fn})
						case *ssa.Call:
							if IsBuiltin(y, "delete") && y.Call.Args[0] == u {
								out = append(out, MapSite{Kind: MapDelete, Instr: y, Load: u, Key: y.Call.Args[1], Fn: fn})
							} else if IsBuiltin(y, "len") {
								out = append(out, MapSite{Kind: MapLen, Instr: y, Load: u, Fn: fn})
							} else {
								out = append(out, MapSite{Kind: MapOther, Instr: y, Load: u, Fn: fn})
							}
						case *ssa.DebugRef:
						default:
							out = append(out, MapSite{Kind: MapOther, Instr: x, Load: u, Fn: fn})
						}
					}
				}
			}
		}
	}
	return out
}

// InfeasibleEnumDefault reports whether the false edge of the If terminating
// block b is infeasible because b is the last test of an `x == K` chain that
// covers every declared constant of x's named (enum) type.
func InfeasibleEnumDefault(b *ssa.BasicBlock) bool {
	if len(b.Instrs) == 0 {
		return false
	}
	ifi, ok := b.Instrs[len(b.Instrs)-1].(*ssa.If)
	if !ok {
		return false
	}
	x, k, ok := eqConst(ifi.Cond)
	if !ok {
		return false
	}
	named, ok := x.Type().(*types.Named)
	if !ok || named.Obj().Pkg() == nil {
		return false
	}
	covered := map[string]bool{k.Value.ExactString(): true}
	xp := Path(x)
	cur := b
	for {
		id := cur.Idom()
		if id == nil || len(id.Instrs) == 0 {
			break
		}
		pi, ok := id.Instrs[len(id.Instrs)-1].(*ssa.If)
		if !ok || len(id.Succs) != 2 || id.Succs[1] != cur || len(cur.Preds) != 1 {
			break
		}
		x2, k2, ok := eqConst(pi.Cond)
		if !ok || Path(x2) != xp {
			break
		}
		covered[k2.Value.ExactString()] = true
		cur = id
	}
	// all declared constants of the type
	sc := named.Obj().Pkg().Scope()
	n := 0
	for _, name := range sc.Names() {
		c, ok := sc.Lookup(name).(*types.Const)
		if !ok || !types.Identical(c.Type(), named) {
			continue
		}
		n++
		if !covered[c.Val().ExactString()] {
			return false
		}
	}
	return n > 0
}

func eqConst(v ssa.Value) (ssa.Value, *ssa.Const, bool) {
	bo, ok := v.(*ssa.BinOp)
	if !ok || bo.Op != token.EQL {
		return nil, nil, false
	}
	if c, ok := bo.Y.(*ssa.Const); ok && c.Value != nil {
		return bo.X, c, true
	}
	if c, ok := bo.X.(*ssa.Const); ok && c.Value != nil {
		return bo.Y, c, true
	}
	return nil, nil, false
}
