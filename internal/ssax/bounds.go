package ssax

import (
	"go/token"
	"go/types"

	"golang.org/x/tools/go/ssa"
)

// BoundsIssue is an undischarged obligation on a slice expression or index.
type BoundsIssue struct {
	At   ssa.Instruction
	Kind string // "underflow", "order", "upper", "index"
	Need string // human-readable requirement, e.g. "len(b) >= RemoteSignatureLength(*c.algo)"
	Expr string
}

// BoundsSite is one decided slice/index site.
type BoundsSite struct {
	At     ssa.Instruction
	Expr   string
	Issues []BoundsIssue
}

// isLen returns the argument path if v is len(x).
func isLen(v ssa.Value) (ssa.Value, bool) {
	call, ok := Strip(v).(*ssa.Call)
	if ok && IsBuiltin(call, "len") {
		return call.Call.Args[0], true
	}
	return nil, false
}

// provesGE reports whether the facts establish a >= b (+slack: a >= b+slack),
// comparing operands by access path.
func provesGE(facts []Fact, a, b ssa.Value, slack int64) bool {
	return provesGEPath(facts, Path(a), a, b, slack)
}

// provesGEPath is provesGE with the left operand given as an access path
// (aval may be nil when the operand is synthetic, e.g. "len(x)").
func provesGEPath(facts []Fact, pa string, aval ssa.Value, b ssa.Value, slack int64) bool {
	pb := Path(b)
	if aval != nil {
		if ka, ok := ConstInt(aval); ok {
			if kb, ok := ConstInt(b); ok {
				return ka >= kb+slack
			}
		}
	}
	if pa == pb && slack <= 0 {
		return true
	}
	// a >= (b + c) with c >= 0  ⇒  a >= b ; a >= (x + k) with x >= 0, k >= b+slack ⇒ a >= b+slack
	for _, f := range facts {
		x, y, op := f.X, f.Y, f.Op
		for i := 0; i < 2; i++ {
			if Path(x) == pa && (op == token.GEQ || op == token.GTR) {
				if sum, ok := Strip(y).(*ssa.BinOp); ok && sum.Op == token.ADD {
					for _, pr := range [][2]ssa.Value{{sum.X, sum.Y}, {sum.Y, sum.X}} {
						if Path(pr[0]) == pb && NonNegLen(pr[1]) && slack <= 0 {
							return true
						}
						if kb, okb := ConstInt(b); okb && NonNegLen(pr[0]) {
							if k, ok := ConstInt(pr[1]); ok && k >= kb+slack {
								return true
							}
						}
					}
				}
			}
			x, y, op = y, x, SwapOp(op)
		}
	}
	for _, f := range facts {
		fx, fy := Path(f.X), Path(f.Y)
		op := f.Op
		if fx == pb && fy == pa {
			fx, fy, op = fy, fx, SwapOp(op)
		}
		if fx != pa || fy != pb {
			// a >= const facts when b is const
			if kb, ok := ConstInt(b); ok {
				fxv, fyv, fop := f.X, f.Y, f.Op
				if Path(fyv) == pa {
					fxv, fyv, fop = fyv, fxv, SwapOp(fop)
				}
				if Path(fxv) == pa {
					if kf, ok := ConstInt(fyv); ok {
						switch fop {
						case token.GEQ, token.EQL:
							if kf >= kb+slack {
								return true
							}
						case token.GTR:
							if kf+1 >= kb+slack {
								return true
							}
						}
					}
				}
			}
			continue
		}
		switch op {
		case token.GEQ, token.EQL:
			if slack <= 0 {
				return true
			}
		case token.GTR:
			if slack <= 1 {
				return true
			}
		}
	}
	return false
}

// CheckBounds examines every slice expression and index in fn whose bounds are
// not constants and returns the sites with their undischarged obligations.
// Rules:
//
//	underflow: a bound/index of the form len(X) - K needs len(X) >= K
//	order:     s[lo:hi] with variable lo and hi needs hi >= lo
//	upper:     s[:hi] / s[lo:hi] with hi not derived from len(s) needs hi <= len(s) or cap(s)
//	index:     s[i] with i = len(X)-K handled by underflow; other variable
//	           indexes are left to the callers' own rules
func CheckBounds(fn *ssa.Function, interesting func(slice ssa.Value) bool) []BoundsSite {
	var out []BoundsSite
	for _, b := range fn.Blocks {
		for _, in := range b.Instrs {
			switch x := in.(type) {
			case *ssa.Slice:
				if _, isStr := x.X.Type().Underlying().(*types.Basic); isStr {
					continue
				}
				if interesting != nil && !interesting(x.X) {
					continue
				}
				if x.Low == nil && x.High == nil {
					continue
				}
				_, lowConst := constOrNil(x.Low)
				_, highConst := constOrNil(x.High)
				site := BoundsSite{At: in, Expr: Path(x)}
				facts := FactsAt(in)
				for _, bnd := range []ssa.Value{x.Low, x.High} {
					if bnd == nil {
						continue
					}
					if iss, ok := underflow(facts, bnd, in); ok {
						site.Issues = append(site.Issues, iss...)
					}
				}
				if x.Low != nil && x.High != nil && !(lowConst && highConst) {
					if !provesGE(facts, x.High, x.Low, 0) && !subGE(facts, x.High, x.Low) {
						site.Issues = append(site.Issues, BoundsIssue{in, "order", Path(x.High) + " >= " + Path(x.Low), site.Expr})
					}
				}
				if x.High != nil {
					if !upperOK(facts, x, fn) {
						site.Issues = append(site.Issues, BoundsIssue{in, "upper", Path(x.High) + " <= len/cap(" + Path(x.X) + ")", site.Expr})
					}
				} else if x.Low != nil {
					// s[lo:] needs lo <= len(s)
					if !lowWithinLen(facts, x) {
						site.Issues = append(site.Issues, BoundsIssue{in, "upper", Path(x.Low) + " <= len(" + Path(x.X) + ")", site.Expr})
					}
				}
				out = append(out, site)
			case *ssa.IndexAddr:
				if interesting != nil && !interesting(x.X) {
					continue
				}
				if _, isConst := ConstInt(x.Index); isConst {
					continue
				}
				if iss, ok := underflow(FactsAt(in), x.Index, in); ok {
					out = append(out, BoundsSite{At: in, Expr: Path(x), Issues: iss})
				} else if _, isSub := Strip(x.Index).(*ssa.BinOp); isSub {
					out = append(out, BoundsSite{At: in, Expr: Path(x)})
				}
			}
		}
	}
	return out
}

func constOrNil(v ssa.Value) (int64, bool) {
	if v == nil {
		return 0, true
	}
	return ConstInt(v)
}

// underflow: v = len(X) - K  (possibly converted) → need len(X) >= K.
func underflow(facts []Fact, v ssa.Value, at ssa.Instruction) ([]BoundsIssue, bool) {
	bo, ok := Strip(v).(*ssa.BinOp)
	if !ok || bo.Op != token.SUB {
		return nil, false
	}
	if _, isLen := isLen(bo.X); !isLen {
		// len stored in a local: accept paths that are loads of len
		return nil, false
	}
	if provesGE(facts, bo.X, bo.Y, 0) {
		return nil, true
	}
	return []BoundsIssue{{at, "underflow", Path(bo.X) + " >= " + Path(bo.Y), Path(v)}}, true
}

// subGE: hi = A - B, lo = L: proves A - B >= L from a fact A >= B + L or A - B >= L.
func subGE(facts []Fact, hi, lo ssa.Value) bool {
	bo, ok := Strip(hi).(*ssa.BinOp)
	if !ok || bo.Op != token.SUB {
		return false
	}
	// look for a fact whose one side is (B + L) or (L + B) and the other A, or hi >= lo directly
	pa, pb, pl := Path(bo.X), Path(bo.Y), Path(lo)
	for _, f := range facts {
		x, y, op := f.X, f.Y, f.Op
		for i := 0; i < 2; i++ {
			if sum, ok := Strip(y).(*ssa.BinOp); ok && sum.Op == token.ADD && Path(x) == pa {
				s1, s2 := Path(sum.X), Path(sum.Y)
				if (s1 == pb && s2 == pl) || (s1 == pl && s2 == pb) {
					if op == token.GEQ || op == token.GTR {
						return true
					}
				}
			}
			x, y, op = y, x, SwapOp(op)
		}
	}
	return false
}

// upperOK: x.High <= len(x.X) or cap(x.X) is established.
func upperOK(facts []Fact, x *ssa.Slice, fn *ssa.Function) bool {
	hi := x.High
	if _, ok := ConstInt(hi); ok {
		// constant upper bound: needs len/cap >= const — decided by callers that know the buffer
		return constUpperOK(facts, x)
	}
	// hi = len(s) - K with K >= 0 is <= len(s) (underflow rule covers K <= len)
	if bo, ok := Strip(hi).(*ssa.BinOp); ok && bo.Op == token.SUB {
		if l, ok := isLen(bo.X); ok && Path(l) == Path(x.X) {
			return true
		}
		// the length of s held in a variable: s = y[:n] and hi = n - K
		if Path(bo.X) == lenPathOf(x.X) {
			return true
		}
	}
	if l, ok := isLen(hi); ok && Path(l) == Path(x.X) {
		return true
	}
	if provesGEPath(facts, lenPathOf(x.X), nil, hi, 0) {
		return true
	}
	// fact hi <= len(s) / cap(s) / the make size of s
	ps := Path(x.X)
	for _, f := range facts {
		a, b, op := f.X, f.Y, f.Op
		for i := 0; i < 2; i++ {
			if Path(a) == Path(hi) && (op == token.LEQ || op == token.LSS) {
				if l, ok := isLen(b); ok && Path(l) == ps {
					return true
				}
				if c, ok := Strip(b).(*ssa.Call); ok && IsBuiltin(c, "cap") && Path(c.Call.Args[0]) == ps {
					return true
				}
				// s = make([]T, n): hi <= n
				if mk := makeOf(x.X); mk != nil && Path(mk.Len) == Path(b) {
					return true
				}
			}
			a, b, op = b, a, SwapOp(op)
		}
	}
	return false
}

func constUpperOK(facts []Fact, x *ssa.Slice) bool {
	k, _ := ConstInt(x.High)
	if k <= 0 {
		return true // s[:0] is in bounds for every slice, nil included
	}
	if MinCapHook != nil {
		if n, ok := MinCapHook(x.X, facts); ok && n >= k {
			return true
		}
	}
	if MinLenHook != nil {
		if n, ok := MinLenHook(x.X, facts); ok && n >= k {
			return true
		}
	}
	// array or pointer to array: static length
	t := x.X.Type().Underlying()
	if p, ok := t.(*types.Pointer); ok {
		if a, ok := p.Elem().Underlying().(*types.Array); ok {
			return a.Len() >= k
		}
	}
	// make with a constant or proven size
	if mk := makeOf(x.X); mk != nil {
		if n, ok := ConstInt(mk.Len); ok {
			return n >= k
		}
		if provesGE(facts, mk.Len, x.High, 0) {
			return true
		}
		return false
	}
	// len(s) >= k established
	for _, f := range facts {
		a, b, op := f.X, f.Y, f.Op
		for i := 0; i < 2; i++ {
			if l, ok := isLen(a); ok && Path(l) == Path(x.X) {
				if n, ok := ConstInt(b); ok {
					if (op == token.GEQ && n >= k) || (op == token.GTR && n+1 >= k) || (op == token.EQL && n >= k) {
						return true
					}
				}
			}
			a, b, op = b, a, SwapOp(op)
		}
	}
	return false
}

func lowWithinLen(facts []Fact, x *ssa.Slice) bool {
	lo := x.Low
	if ConsumedHook != nil && ConsumedHook(lo, x.X) {
		return true
	}
	if CursorHook != nil && CursorHook(lo, x.X) {
		return true
	}
	if provesGEPath(facts, lenPathOf(x.X), nil, lo, 0) {
		return true
	}
	if bo, ok := Strip(lo).(*ssa.BinOp); ok && bo.Op == token.SUB {
		if l, ok := isLen(bo.X); ok && Path(l) == Path(x.X) {
			return true // len(s)-K <= len(s); K <= len(s) is the underflow rule
		}
	}
	if k, ok := ConstInt(lo); ok {
		if k == 0 {
			return true
		}
		c := &ssa.Slice{X: x.X, High: lo}
		return constUpperOKk(facts, c.X, k)
	}
	ps := Path(x.X)
	for _, f := range facts {
		a, b, op := f.X, f.Y, f.Op
		for i := 0; i < 2; i++ {
			if Path(a) == Path(lo) && (op == token.LEQ || op == token.LSS) {
				if l, ok := isLen(b); ok && Path(l) == ps {
					return true
				}
			}
			a, b, op = b, a, SwapOp(op)
		}
	}
	return false
}

func constUpperOKk(facts []Fact, s ssa.Value, k int64) bool {
	if MinLenHook != nil {
		if n, ok := MinLenHook(s, facts); ok && n >= k {
			return true
		}
	}
	if mk := makeOf(s); mk != nil {
		if n, ok := ConstInt(mk.Len); ok {
			return n >= k
		}
	}
	for _, f := range facts {
		a, b, op := f.X, f.Y, f.Op
		for i := 0; i < 2; i++ {
			if l, ok := isLen(a); ok && Path(l) == Path(s) {
				if n, ok := ConstInt(b); ok {
					if (op == token.GEQ && n >= k) || (op == token.GTR && n+1 >= k) || (op == token.EQL && n >= k) {
						return true
					}
				}
			}
			a, b, op = b, a, SwapOp(op)
		}
	}
	return false
}

// MinLenHook, when set, supplies a proven lower bound of len(s) (for example
// the post-condition of the function that returned s).
var MinLenHook func(s ssa.Value, facts []Fact) (int64, bool)

// MinCapHook supplies a proven lower bound of cap(s).
var MinCapHook func(s ssa.Value, facts []Fact) (int64, bool)

// ResultMinLen computes the lower bound of the length of the (first) []byte
// result of fn over all returns that return a non-nil slice: for `return
// b[:hi]` the largest constant k with hi >= k established at the return.
func ResultMinLen(fn *ssa.Function) (int64, bool) {
	min := int64(-1)
	for _, r := range Returns(fn) {
		v := RetVal(r, 0)
		if v == nil || IsNil(v) {
			continue
		}
		sl, ok := Strip(v).(*ssa.Slice)
		if !ok || sl.High == nil {
			return 0, false
		}
		best := int64(-1)
		if k, ok := ConstInt(sl.High); ok {
			best = k
		}
		for _, f := range FactsAt(r) {
			a, b, op := f.X, f.Y, f.Op
			for i := 0; i < 2; i++ {
				if Path(a) == Path(sl.High) {
					if n, ok := ConstInt(b); ok {
						switch op {
						case token.GEQ, token.EQL:
							if n > best {
								best = n
							}
						case token.GTR:
							if n+1 > best {
								best = n + 1
							}
						}
					}
				}
				a, b, op = b, a, SwapOp(op)
			}
		}
		if best < 0 {
			return 0, false
		}
		if min < 0 || best < min {
			min = best
		}
	}
	if min < 0 {
		return 0, false
	}
	return min, true
}

// makeOf returns the MakeSlice that defines s (through phis with one source).
func makeOf(s ssa.Value) *ssa.MakeSlice {
	s = Strip(s)
	if mk, ok := s.(*ssa.MakeSlice); ok {
		return mk
	}
	return nil
}

// NonNegLen reports whether v is syntactically a non-negative length-like
// quantity: a non-negative constant, len()/cap(), an unsigned value, a call of
// a method whose name says it returns a length (Len, …Length, …Size), or a sum
// / phi of such values.
func NonNegLen(v ssa.Value) bool { return nonNegLen(v, 0) }

func nonNegLen(v ssa.Value, d int) bool {
	if v == nil || d > 6 {
		return false
	}
	if k, ok := ConstInt(v); ok {
		return k >= 0
	}
	if b, ok := v.Type().Underlying().(*types.Basic); ok && b.Info()&types.IsUnsigned != 0 {
		return true
	}
	switch x := v.(type) {
	case *ssa.Convert:
		return nonNegLen(x.X, d+1)
	case *ssa.Call:
		if IsBuiltin(x, "len") || IsBuiltin(x, "cap") {
			return true
		}
		if f := Callee(x); f != nil {
			n := f.Name()
			if n == "Len" || hasSuffix(n, "Length") || hasSuffix(n, "Size") || n == "Pos" {
				return true
			}
		}
	case *ssa.BinOp:
		if x.Op == token.ADD || x.Op == token.MUL {
			return nonNegLen(x.X, d+1) && nonNegLen(x.Y, d+1)
		}
	case *ssa.Phi:
		for _, e := range x.Edges {
			if !nonNegLen(e, d+1) {
				return false
			}
		}
		return len(x.Edges) > 0
	case *ssa.Parameter:
		// a private helper's parameter: non-negative if the argument is at every call site
		f := x.Parent()
		calls := privateCallers(f)
		if len(calls) == 0 {
			return false
		}
		idx := -1
		for i, p := range f.Params {
			if p == x {
				idx = i
			}
		}
		for _, c := range calls {
			if idx < 0 || idx >= len(c.Call.Args) || !nonNegLen(c.Call.Args[idx], d+1) {
				return false
			}
		}
		return true
	}
	return false
}

func hasSuffix(s, suf string) bool { return len(s) >= len(suf) && s[len(s)-len(suf):] == suf }

// ConsumedHook, when set, reports whether value n is known to satisfy
// 0 <= n <= len(s) (for example the byte count returned by a decoder run on s).
var ConsumedHook func(n, s ssa.Value) bool

// lenPathOf returns the access path that denotes len(s): for s = make([]T, n)
// that is the path of n itself.
func lenPathOf(s ssa.Value) string {
	if mk := makeOf(s); mk != nil {
		return Path(mk.Len)
	}
	// s = x[:h] has length h
	if sl, ok := Strip(s).(*ssa.Slice); ok && sl.Low == nil && sl.High != nil {
		return Path(sl.High)
	}
	return "len(" + Path(s) + ")"
}

// CursorHook, when set, reports whether lo is a cursor into s that provably
// stays within 0..len(s) (accumulated decoder-consumed counts).
var CursorHook func(lo, s ssa.Value) bool
