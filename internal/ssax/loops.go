package ssax

import "golang.org/x/tools/go/ssa"

// Loop is a natural loop.
type Loop struct {
	Header *ssa.BasicBlock
	Blocks map[*ssa.BasicBlock]bool
}

// Loops returns the natural loops of fn (one per header; back edges to the same
// header are merged).
func Loops(fn *ssa.Function) []*Loop {
	byHeader := map[*ssa.BasicBlock]*Loop{}
	var order []*ssa.BasicBlock
	for _, t := range fn.Blocks {
		for _, h := range t.Succs {
			if !h.Dominates(t) {
				continue
			}
			l := byHeader[h]
			if l == nil {
				l = &Loop{Header: h, Blocks: map[*ssa.BasicBlock]bool{h: true}}
				byHeader[h] = l
				order = append(order, h)
			}
			// nodes that reach t without passing h
			work := []*ssa.BasicBlock{t}
			for len(work) > 0 {
				n := work[len(work)-1]
				work = work[:len(work)-1]
				if l.Blocks[n] {
					continue
				}
				l.Blocks[n] = true
				work = append(work, n.Preds...)
			}
		}
	}
	var out []*Loop
	for _, h := range order {
		out = append(out, byHeader[h])
	}
	return out
}

// Exits returns the CFG edges leaving the loop.
func (l *Loop) Exits() [][2]*ssa.BasicBlock {
	var out [][2]*ssa.BasicBlock
	for b := range l.Blocks {
		for _, s := range b.Succs {
			if !l.Blocks[s] {
				out = append(out, [2]*ssa.BasicBlock{b, s})
			}
		}
		// a return or panic inside the loop is an exit too
		if len(b.Succs) == 0 {
			out = append(out, [2]*ssa.BasicBlock{b, nil})
		}
	}
	return out
}

// DefinedInLoop reports whether value v is defined by an instruction inside the loop.
func (l *Loop) DefinedInLoop(v ssa.Value) bool {
	in, ok := v.(ssa.Instruction)
	if !ok {
		return false
	}
	return l.Blocks[in.Block()]
}
