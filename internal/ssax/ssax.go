// Package ssax is the small SSA toolkit shared by the rules: resolved callees,
// access paths, instruction-level reachability with blocked instructions and
// edges (must-pass-through), dominance, condition decomposition, field access
// classification.
package ssax

import (
	"fmt"
	"go/constant"
	"go/token"
	"go/types"
	"strings"

	"golang.org/x/tools/go/ssa"
)

// ---------------------------------------------------------------------------
// callees

// Callee returns the types.Func a call resolves to: the static callee's
// object, or the interface method for an invoke-mode call; nil for closures,
// builtins and dynamic function values.
func Callee(call ssa.CallInstruction) *types.Func {
	cc := call.Common()
	if cc.IsInvoke() {
		return cc.Method
	}
	if sc := cc.StaticCallee(); sc != nil {
		if sc.Origin() != nil {
			sc = sc.Origin()
		}
		if f, ok := sc.Object().(*types.Func); ok {
			return f
		}
	}
	return nil
}

// StaticFn returns the SSA function called statically (incl. closures made by
// MakeClosure and immediately invoked / deferred / go'ed).
func StaticFn(call ssa.CallInstruction) *ssa.Function {
	cc := call.Common()
	if cc.IsInvoke() {
		return nil
	}
	return cc.StaticCallee()
}

// IsBuiltin reports whether call is a call of the named builtin.
func IsBuiltin(call ssa.CallInstruction, name string) bool {
	b, ok := call.Common().Value.(*ssa.Builtin)
	return ok && b.Name() == name
}

// Calls lists all call instructions (call, go, defer) of fn in block order.
func Calls(fn *ssa.Function) []ssa.CallInstruction {
	var out []ssa.CallInstruction
	for _, b := range fn.Blocks {
		for _, in := range b.Instrs {
			if c, ok := in.(ssa.CallInstruction); ok {
				out = append(out, c)
			}
		}
	}
	return out
}

// CallsTo lists the calls in fn that resolve to one of the given functions.
func CallsTo(fn *ssa.Function, fs ...*types.Func) []ssa.CallInstruction {
	var out []ssa.CallInstruction
	for _, c := range Calls(fn) {
		cal := Callee(c)
		if cal == nil {
			continue
		}
		for _, f := range fs {
			if f != nil && cal == f {
				out = append(out, c)
			}
		}
	}
	return out
}

// FuncName renders pkg.(Recv).Name without the module prefix.
func FuncName(fn *ssa.Function) string {
	if fn == nil {
		return "<nil>"
	}
	s := fn.String()
	s = strings.ReplaceAll(s, "github.com/gopcua/opcua/", "")
	s = strings.ReplaceAll(s, "github.com/gopcua/opcua.", "opcua.")
	s = strings.ReplaceAll(s, "(*github.com/gopcua/opcua.", "(*opcua.")
	return s
}

func ObjName(f *types.Func) string {
	if f == nil {
		return "<nil>"
	}
	s := f.FullName()
	s = strings.ReplaceAll(s, "github.com/gopcua/opcua/", "")
	s = strings.ReplaceAll(s, "github.com/gopcua/opcua.", "opcua.")
	return s
}

func TypeName(t types.Type) string {
	s := types.TypeString(t, func(p *types.Package) string {
		if p.Path() == "github.com/gopcua/opcua" {
			return "opcua"
		}
		return p.Name()
	})
	return s
}

// ---------------------------------------------------------------------------
// access paths

// Path renders an SSA value as an access path: a root (parameter, free
// variable, global, allocation, call result) followed by field selections,
// dereferences and indices. Two loads with the same path denote the same
// memory cell (go/ssa does no CSE, so guards and sinks must be matched on
// paths, not on SSA names).
func Path(v ssa.Value) string { return path(v, 0) }

func path(v ssa.Value, d int) string {
	if d > 24 {
		return "…"
	}
	if pathHook != nil && v != nil {
		if s, ok := pathHook(v); ok {
			return s
		}
	}
	switch x := v.(type) {
	case nil:
		return "<nil>"
	case *Synth:
		return x.P
	case *ssa.Parameter:
		return x.Name()
	case *ssa.FreeVar:
		return x.Name()
	case *ssa.Global:
		return x.Pkg.Pkg.Name() + "." + x.Name()
	case *ssa.Const:
		if x.Value == nil {
			return "nil"
		}
		return x.Value.ExactString()
	case *ssa.Alloc:
		if x.Comment != "" {
			return "&" + x.Comment
		}
		return fmt.Sprintf("&alloc@%d", x.Pos())
	case *ssa.FieldAddr:
		return "&" + deref(path(x.X, d+1)) + "." + fieldName(x.X.Type(), x.Field)
	case *ssa.Field:
		return path(x.X, d+1) + "." + fieldName(x.X.Type(), x.Field)
	case *ssa.IndexAddr:
		return "&" + derefIfArrayPtr(x.X, path(x.X, d+1)) + "[" + path(x.Index, d+1) + "]"
	case *ssa.Index:
		return path(x.X, d+1) + "[" + path(x.Index, d+1) + "]"
	case *ssa.Lookup:
		return path(x.X, d+1) + "[" + path(x.Index, d+1) + "]"
	case *ssa.UnOp:
		switch x.Op {
		case token.MUL:
			return deref(path(x.X, d+1))
		case token.NOT:
			return "!" + path(x.X, d+1)
		case token.SUB:
			return "-" + path(x.X, d+1)
		case token.ARROW:
			return "<-" + path(x.X, d+1)
		}
		return x.Op.String() + path(x.X, d+1)
	case *ssa.Convert:
		return path(x.X, d+1)
	case *ssa.ChangeType:
		return path(x.X, d+1)
	case *ssa.ChangeInterface:
		return path(x.X, d+1)
	case *ssa.MakeInterface:
		return path(x.X, d+1)
	case *ssa.Slice:
		lo, hi := "", ""
		if x.Low != nil {
			lo = path(x.Low, d+1)
		}
		if x.High != nil {
			hi = path(x.High, d+1)
		}
		return derefIfArrayPtr(x.X, path(x.X, d+1)) + "[" + lo + ":" + hi + "]"
	case *ssa.BinOp:
		return "(" + path(x.X, d+1) + x.Op.String() + path(x.Y, d+1) + ")"
	case *ssa.Call:
		if b, ok := x.Call.Value.(*ssa.Builtin); ok {
			var as []string
			for _, a := range x.Call.Args {
				as = append(as, path(a, d+1))
			}
			return b.Name() + "(" + strings.Join(as, ",") + ")"
		}
		if f := Callee(x); f != nil {
			var as []string
			if x.Call.IsInvoke() {
				as = append(as, path(x.Call.Value, d+1))
			}
			for _, a := range x.Call.Args {
				as = append(as, path(a, d+1))
			}
			return f.Name() + "(" + strings.Join(as, ",") + ")"
		}
		return fmt.Sprintf("call@%d", x.Pos())
	case *ssa.Extract:
		return fmt.Sprintf("%s#%d", path(x.Tuple, d+1), x.Index)
	case *ssa.TypeAssert:
		return path(x.X, d+1) + ".(" + TypeName(x.AssertedType) + ")"
	case *ssa.Phi:
		if x.Comment != "" {
			return "φ" + x.Comment
		}
		return "φ" + x.Name()
	case *ssa.MakeSlice:
		return "make(" + path(x.Len, d+1) + ")"
	case *ssa.Function:
		return x.Name()
	case *ssa.MakeClosure:
		return "closure:" + x.Fn.Name()
	case *ssa.Range:
		return "range(" + path(x.X, d+1) + ")"
	case *ssa.Next:
		return "next(" + path(x.Iter, d+1) + ")"
	}
	return v.Name()
}

func deref(p string) string {
	if strings.HasPrefix(p, "&") {
		return p[1:]
	}
	return "*" + p
}

func derefIfArrayPtr(x ssa.Value, p string) string {
	if pt, ok := x.Type().Underlying().(*types.Pointer); ok {
		if _, ok := pt.Elem().Underlying().(*types.Array); ok {
			return deref(p)
		}
	}
	return p
}

func fieldName(t types.Type, i int) string {
	if f := FieldOf(t, i); f != nil {
		return f.Name()
	}
	return fmt.Sprintf("f%d", i)
}

// FieldOf returns the i'th field of the struct (or pointer-to-struct) type t.
func FieldOf(t types.Type, i int) *types.Var {
	if p, ok := t.Underlying().(*types.Pointer); ok {
		t = p.Elem()
	}
	st, ok := t.Underlying().(*types.Struct)
	if !ok || i >= st.NumFields() {
		return nil
	}
	return st.Field(i)
}

// Strip removes conversions / interface wrapping.
func Strip(v ssa.Value) ssa.Value {
	for {
		switch x := v.(type) {
		case *ssa.Convert:
			v = x.X
		case *ssa.ChangeType:
			v = x.X
		case *ssa.ChangeInterface:
			v = x.X
		case *ssa.MakeInterface:
			v = x.X
		default:
			return v
		}
	}
}

// ConstInt returns the integer value of a constant SSA value.
func ConstInt(v ssa.Value) (int64, bool) {
	c, ok := Strip(v).(*ssa.Const)
	if !ok || c.Value == nil {
		return 0, false
	}
	if c.Value.Kind() != constant.Int {
		if c.Value.Kind() == constant.Float {
			f, _ := constant.Float64Val(c.Value)
			if f == float64(int64(f)) {
				return int64(f), true
			}
		}
		return 0, false
	}
	i, ok := constant.Int64Val(c.Value)
	if !ok {
		u, ok2 := constant.Uint64Val(c.Value)
		return int64(u), ok2
	}
	return i, true
}

func IsNil(v ssa.Value) bool {
	c, ok := v.(*ssa.Const)
	return ok && c.Value == nil
}

// ---------------------------------------------------------------------------
// positions in the CFG

// Loc is an instruction position.
type Loc struct {
	B *ssa.BasicBlock
	I int
}

func LocOf(in ssa.Instruction) Loc {
	b := in.Block()
	for i, x := range b.Instrs {
		if x == in {
			return Loc{b, i}
		}
	}
	return Loc{b, -1}
}

// Dominates reports whether instruction a dominates instruction b (a executes
// before b on every path from entry).
func Dominates(a, b ssa.Instruction) bool {
	la, lb := LocOf(a), LocOf(b)
	if la.B == lb.B {
		return la.I < lb.I
	}
	return la.B.Dominates(lb.B)
}

// EdgeDominates reports whether every path from entry to target passes the
// CFG edge from→to.
func EdgeDominates(from, to *ssa.BasicBlock, target ssa.Instruction) bool {
	fn := from.Parent()
	if len(fn.Blocks) == 0 {
		return false
	}
	ok, _ := Reach(fn, nil, func(in ssa.Instruction) bool { return in == target }, nil, func(a, b *ssa.BasicBlock) bool { return a == from && b == to })
	return !ok
}

// Reach searches the instruction-level CFG of fn from `from` (exclusive; nil =
// function entry) for an instruction satisfying target, never stepping over an
// instruction for which blockInstr is true (the blocked instruction itself is
// not a target either) and never taking an edge for which blockEdge is true.
// It returns whether a target is reachable and a block trace to it.
func Reach(fn *ssa.Function, from ssa.Instruction, target func(ssa.Instruction) bool, blockInstr func(ssa.Instruction) bool, blockEdge func(a, b *ssa.BasicBlock) bool) (bool, []ssa.Instruction) {
	if len(fn.Blocks) == 0 {
		return false, nil
	}
	type node struct {
		b    *ssa.BasicBlock
		i    int
		prev *node
	}
	var start node
	if from == nil {
		start = node{fn.Blocks[0], 0, nil}
	} else {
		l := LocOf(from)
		start = node{l.B, l.I + 1, nil}
	}
	seen := map[*ssa.BasicBlock]bool{} // blocks entered at index 0
	work := []*node{&start}
	for len(work) > 0 {
		n := work[len(work)-1]
		work = work[:len(work)-1]
		blocked := false
		for i := n.i; i < len(n.b.Instrs); i++ {
			in := n.b.Instrs[i]
			if blockInstr != nil && blockInstr(in) {
				blocked = true
				break
			}
			if target(in) {
				var tr []ssa.Instruction
				tr = append(tr, in)
				for p := n; p != nil; p = p.prev {
					if len(p.b.Instrs) > 0 {
						tr = append(tr, p.b.Instrs[len(p.b.Instrs)-1])
					}
				}
				// reverse
				for l, r := 0, len(tr)-1; l < r; l, r = l+1, r-1 {
					tr[l], tr[r] = tr[r], tr[l]
				}
				return true, tr
			}
		}
		if blocked {
			continue
		}
		for _, s := range n.b.Succs {
			if blockEdge != nil && blockEdge(n.b, s) {
				continue
			}
			if seen[s] {
				continue
			}
			seen[s] = true
			work = append(work, &node{s, 0, n})
		}
	}
	return false, nil
}

// Returns lists the Return instructions of fn.
func Returns(fn *ssa.Function) []*ssa.Return {
	var out []*ssa.Return
	for _, b := range fn.Blocks {
		if len(b.Instrs) == 0 || b == fn.Recover {
			continue // the recover block's synthetic return is not a source-level return
		}
		if r, ok := b.Instrs[len(b.Instrs)-1].(*ssa.Return); ok {
			out = append(out, r)
		}
	}
	return out
}

// ---------------------------------------------------------------------------
// conditions

// Cmp is a normalised comparison `X op Y`.
type Cmp struct {
	Op   token.Token
	X, Y ssa.Value
}

// Atoms decomposes a boolean SSA value into the comparison it denotes with
// polarity: returns (cmp, negated, ok). Handles !x and direct BinOps.
func AsCmp(v ssa.Value) (Cmp, bool, bool) {
	neg := false
	for {
		switch x := v.(type) {
		case *ssa.UnOp:
			if x.Op == token.NOT {
				neg = !neg
				v = x.X
				continue
			}
		case *ssa.BinOp:
			switch x.Op {
			case token.EQL, token.NEQ, token.LSS, token.LEQ, token.GTR, token.GEQ:
				return Cmp{x.Op, x.X, x.Y}, neg, true
			}
		}
		return Cmp{}, neg, false
	}
}

// NegOp returns the negated comparison operator.
func NegOp(op token.Token) token.Token {
	switch op {
	case token.EQL:
		return token.NEQ
	case token.NEQ:
		return token.EQL
	case token.LSS:
		return token.GEQ
	case token.GEQ:
		return token.LSS
	case token.GTR:
		return token.LEQ
	case token.LEQ:
		return token.GTR
	}
	return op
}

// SwapOp mirrors a comparison operator (a op b  ==  b swap(op) a).
func SwapOp(op token.Token) token.Token {
	switch op {
	case token.LSS:
		return token.GTR
	case token.GTR:
		return token.LSS
	case token.LEQ:
		return token.GEQ
	case token.GEQ:
		return token.LEQ
	}
	return op
}

// Fact is a comparison known to hold at some program point.
type Fact struct {
	Op   token.Token
	X, Y ssa.Value
	If   *ssa.If
}

// FactsAt collects the comparisons that hold whenever `at` executes: for every
// If whose true (false) successor edge dominates `at`, the condition (its
// negation). Short-circuit && / || need no special treatment: go/ssa lowers
// them to nested Ifs.
func FactsAt(at ssa.Instruction) []Fact {
	local := localFactsAt(at)
	if extra := interprocFacts(at, local); len(extra) > 0 {
		return append(local, extra...)
	}
	return local
}

// localFactsAt: the intraprocedural part of FactsAt.
func localFactsAt(at ssa.Instruction) []Fact {
	var out []Fact
	fn := at.Parent()
	for _, b := range fn.Blocks {
		if len(b.Instrs) == 0 {
			continue
		}
		ifi, ok := b.Instrs[len(b.Instrs)-1].(*ssa.If)
		if !ok {
			continue
		}
		if !b.Dominates(at.Block()) && b != at.Block() {
			continue
		}
		cmp, neg, ok := AsCmp(ifi.Cond)
		if !ok {
			continue
		}
		tEdge := EdgeDominates(b, b.Succs[0], at)
		fEdge := EdgeDominates(b, b.Succs[1], at)
		if b.Succs[0] == b.Succs[1] {
			continue
		}
		if tEdge == fEdge {
			continue
		}
		holds := tEdge // condition true
		op := cmp.Op
		if neg {
			holds = !holds
		}
		if !holds {
			op = NegOp(op)
		}
		out = append(out, Fact{op, cmp.X, cmp.Y, ifi})
	}
	return out
}

// BoolFactsAt returns the boolean SSA values (non-comparison conditions, e.g.
// call results, comma-ok flags) known true (+) or false (-) at `at`.
func BoolFactsAt(at ssa.Instruction) (trues, falses []ssa.Value) {
	fn := at.Parent()
	for _, b := range fn.Blocks {
		if len(b.Instrs) == 0 {
			continue
		}
		ifi, ok := b.Instrs[len(b.Instrs)-1].(*ssa.If)
		if !ok || b.Succs[0] == b.Succs[1] {
			continue
		}
		if !b.Dominates(at.Block()) && b != at.Block() {
			continue
		}
		tEdge := EdgeDominates(b, b.Succs[0], at)
		fEdge := EdgeDominates(b, b.Succs[1], at)
		if tEdge == fEdge {
			continue
		}
		v := ifi.Cond
		pos := tEdge
		for {
			if u, ok := v.(*ssa.UnOp); ok && u.Op == token.NOT {
				v = u.X
				pos = !pos
				continue
			}
			break
		}
		if pos {
			trues = append(trues, v)
		} else {
			falses = append(falses, v)
		}
	}
	return
}

// ---------------------------------------------------------------------------
// field accesses

type AccessKind int

const (
	Read AccessKind = iota
	Write
	AddrTaken
)

func (k AccessKind) String() string { return [...]string{"read", "write", "addr"}[k] }

// Access is one access to a struct field.
type Access struct {
	Instr ssa.Instruction // the FieldAddr/Field instruction
	Use   ssa.Instruction // the instruction that reads/writes through it
	Kind  AccessKind
	Fn    *ssa.Function
}

// FieldAccesses classifies every access to `field` in fn. Writes include
// stores to the field, map updates / deletes on a map loaded from the field and
// element stores into a slice loaded from the field.
func FieldAccesses(fn *ssa.Function, field *types.Var) []Access {
	var out []Access
	for _, b := range fn.Blocks {
		for _, in := range b.Instrs {
			switch x := in.(type) {
			case *ssa.FieldAddr:
				if FieldOf(x.X.Type(), x.Field) != field {
					continue
				}
				refs := x.Referrers()
				if refs == nil {
					continue
				}
				for _, r := range *refs {
					switch u := r.(type) {
					case *ssa.Store:
						if u.Addr == x {
							out = append(out, Access{x, u, Write, fn})
						} else {
							out = append(out, Access{x, u, AddrTaken, fn})
						}
					case *ssa.UnOp:
						if u.Op == token.MUL {
							k := Read
							wr := containerWrites(u)
							if len(wr) > 0 {
								for _, w := range wr {
									out = append(out, Access{x, w, Write, fn})
								}
							}
							out = append(out, Access{x, u, k, fn})
						}
					case *ssa.DebugRef:
					default:
						out = append(out, Access{x, r, AddrTaken, fn})
					}
				}
			case *ssa.Field:
				if FieldOf(x.X.Type(), x.Field) != field {
					continue
				}
				out = append(out, Access{x, x, Read, fn})
			}
		}
	}
	return out
}

// containerWrites returns the instructions that mutate the map/slice value v
// (MapUpdate, delete, element stores).
func containerWrites(v ssa.Value) []ssa.Instruction {
	var out []ssa.Instruction
	refs := v.Referrers()
	if refs == nil {
		return nil
	}
	for _, r := range *refs {
		switch u := r.(type) {
		case *ssa.MapUpdate:
			if u.Map == v {
				out = append(out, u)
			}
		case *ssa.Call:
			if IsBuiltin(u, "delete") && len(u.Call.Args) > 0 && u.Call.Args[0] == v {
				out = append(out, u)
			}
		case *ssa.IndexAddr:
			if u.X == v {
				if rr := u.Referrers(); rr != nil {
					for _, s := range *rr {
						if st, ok := s.(*ssa.Store); ok && st.Addr == u {
							out = append(out, st)
						}
					}
				}
			}
		}
	}
	return out
}

// LoadsOfField returns the UnOp loads `*(&x.field)` (and Field extracts) in fn.
func LoadsOfField(fn *ssa.Function, field *types.Var) []ssa.Value {
	var out []ssa.Value
	for _, a := range FieldAccesses(fn, field) {
		if a.Kind == Read {
			if v, ok := a.Use.(ssa.Value); ok {
				out = append(out, v)
			}
		}
	}
	return out
}

// ---------------------------------------------------------------------------
// misc

// EnclosingNamed returns the outermost named function of a (possibly
// anonymous) function.
func Outermost(fn *ssa.Function) *ssa.Function {
	for fn.Parent() != nil {
		fn = fn.Parent()
	}
	return fn
}

// AnonChildren returns fn and all functions nested in it.
func WithAnon(fn *ssa.Function) []*ssa.Function {
	out := []*ssa.Function{fn}
	for _, a := range fn.AnonFuncs {
		out = append(out, WithAnon(a)...)
	}
	return out
}

// ReceiverNamed returns the named type of fn's receiver, if any.
func ReceiverNamed(fn *ssa.Function) *types.Named {
	if fn.Signature.Recv() == nil {
		return nil
	}
	t := fn.Signature.Recv().Type()
	if p, ok := t.(*types.Pointer); ok {
		t = p.Elem()
	}
	n, _ := t.(*types.Named)
	return n
}

// UsesValue reports whether instruction in has v among its operands.
func UsesValue(in ssa.Instruction, v ssa.Value) bool {
	for _, op := range in.Operands(nil) {
		if *op == v {
			return true
		}
	}
	return false
}

// RetVal returns the i'th value returned by ret, looking through go/ssa's
// defer-spilled results (in a function with defers the results are stored to
// local cells, `rundefers` runs, and the cells are re-loaded for the return).
func RetVal(ret *ssa.Return, i int) ssa.Value {
	if i >= len(ret.Results) {
		return nil
	}
	v := ret.Results[i]
	u, ok := v.(*ssa.UnOp)
	if !ok || u.Op != token.MUL {
		return v
	}
	al, ok := u.X.(*ssa.Alloc)
	if !ok {
		return v
	}
	// closest preceding store to the cell in the same block
	b := ret.Block()
	var last ssa.Value
	for _, in := range b.Instrs {
		if in == ssa.Instruction(u) {
			break
		}
		if st, ok := in.(*ssa.Store); ok && st.Addr == al {
			last = st.Val
		}
	}
	if last != nil {
		return last
	}
	return v
}
