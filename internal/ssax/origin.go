package ssax

import (
	"go/token"
	"go/types"

	"golang.org/x/tools/go/callgraph"
	"golang.org/x/tools/go/ssa"
)

// Origin describes where a value is loaded from.
type Origin struct {
	Field  *types.Var     // loaded from this struct field
	Base   ssa.Value      // base object of the field load (may be nil)
	Const  *ssa.Const     // a constant
	Call   *types.Func    // result of a call of this function
	CallV  ssa.Value      // the call value
	Global *ssa.Global    // loaded from a package-level variable
	Param  *ssa.Parameter // unresolved parameter (no callers / depth exhausted)
	Other  ssa.Value      // anything else
}

func (o Origin) String() string {
	switch {
	case o.Field != nil:
		return "field " + FieldString(o.Field)
	case o.Const != nil:
		return "const " + o.Const.String()
	case o.Call != nil:
		return "call " + ObjName(o.Call)
	case o.Global != nil:
		return "global " + o.Global.String()
	case o.Param != nil:
		return "param " + o.Param.Name()
	case o.Other != nil:
		return "value " + o.Other.String()
	}
	return "?"
}

// FieldString renders Type.field for a field object.
func FieldString(f *types.Var) string {
	if f == nil {
		return "<nil>"
	}
	owner := fieldOwners[f]
	if owner != "" {
		return owner + "." + f.Name()
	}
	return f.Name()
}

var fieldOwners = map[*types.Var]string{}

// IndexFieldOwners records, for every field of every named struct type of the
// given packages, the owner type name, so that reports can say Type.field.
func IndexFieldOwners(pkgs []*types.Package) {
	for _, p := range pkgs {
		sc := p.Scope()
		for _, n := range sc.Names() {
			tn, ok := sc.Lookup(n).(*types.TypeName)
			if !ok {
				continue
			}
			st, ok := tn.Type().Underlying().(*types.Struct)
			if !ok {
				continue
			}
			for i := 0; i < st.NumFields(); i++ {
				fieldOwners[st.Field(i)] = p.Name() + "." + tn.Name()
			}
		}
	}
}

// Origins resolves where v comes from, following conversions, phis, local
// stores (Alloc cells written once or more), and parameters to the arguments of
// all callers in cg up to depth levels.
func Origins(v ssa.Value, cg *callgraph.Graph, depth int) []Origin {
	var out []Origin
	seen := map[ssa.Value]bool{}
	var walk func(v ssa.Value, d int)
	walk = func(v ssa.Value, d int) {
		v = Strip(v)
		if seen[v] {
			return
		}
		seen[v] = true
		switch x := v.(type) {
		case *ssa.Const:
			out = append(out, Origin{Const: x})
		case *ssa.Phi:
			for _, e := range x.Edges {
				walk(e, d)
			}
		case *ssa.Field:
			out = append(out, Origin{Field: FieldOf(x.X.Type(), x.Field), Base: x.X})
		case *ssa.UnOp:
			if x.Op != token.MUL {
				out = append(out, Origin{Other: x})
				return
			}
			switch a := x.X.(type) {
			case *ssa.FieldAddr:
				out = append(out, Origin{Field: FieldOf(a.X.Type(), a.Field), Base: a.X})
			case *ssa.Global:
				out = append(out, Origin{Global: a})
			case *ssa.Alloc:
				// local cell: union of the values stored into it
				n := 0
				if refs := a.Referrers(); refs != nil {
					for _, r := range *refs {
						if st, ok := r.(*ssa.Store); ok && st.Addr == a {
							walk(st.Val, d)
							n++
						}
					}
				}
				if n == 0 {
					out = append(out, Origin{Other: x})
				}
			case *ssa.FreeVar:
				// captured variable: look at the stores in the enclosing function
				resolved := false
				if fn := a.Parent(); fn != nil && fn.Parent() != nil {
					for i, fv := range fn.FreeVars {
						if fv != a {
							continue
						}
						for _, mc := range closuresOf(fn.Parent(), fn) {
							if i < len(mc.Bindings) {
								if al, ok := mc.Bindings[i].(*ssa.Alloc); ok {
									if refs := al.Referrers(); refs != nil {
										for _, r := range *refs {
											if st, ok := r.(*ssa.Store); ok && st.Addr == al {
												walk(st.Val, d)
												resolved = true
											}
										}
									}
								}
							}
						}
					}
				}
				if !resolved {
					out = append(out, Origin{Other: x})
				}
			default:
				out = append(out, Origin{Other: x})
			}
		case *ssa.FreeVar:
			resolved := false
			if fn := x.Parent(); fn != nil && fn.Parent() != nil {
				for i, fv := range fn.FreeVars {
					if fv != x {
						continue
					}
					for _, mc := range closuresOf(fn.Parent(), fn) {
						if i < len(mc.Bindings) {
							walk(mc.Bindings[i], d)
							resolved = true
						}
					}
				}
			}
			if !resolved {
				out = append(out, Origin{Other: x})
			}
		case *ssa.Parameter:
			fn := x.Parent()
			idx := -1
			for i, p := range fn.Params {
				if p == x {
					idx = i
				}
			}
			if cg == nil || d <= 0 || idx < 0 {
				out = append(out, Origin{Param: x})
				return
			}
			node := cg.Nodes[fn]
			n := 0
			if node != nil {
				for _, e := range node.In {
					if e.Site == nil {
						continue
					}
					cc := e.Site.Common()
					args := cc.Args
					ai := idx
					if cc.IsInvoke() {
						ai = idx - 1 // receiver is Value
						if ai < 0 {
							walk(cc.Value, d-1)
							n++
							continue
						}
					}
					if ai < len(args) {
						walk(args[ai], d-1)
						n++
					}
				}
			}
			if n == 0 {
				out = append(out, Origin{Param: x})
			}
		case *ssa.Call:
			if f := Callee(x); f != nil {
				out = append(out, Origin{Call: f, CallV: x})
			} else {
				out = append(out, Origin{Other: x})
			}
		case *ssa.Extract:
			if c, ok := x.Tuple.(*ssa.Call); ok {
				if f := Callee(c); f != nil {
					out = append(out, Origin{Call: f, CallV: x})
					return
				}
			}
			out = append(out, Origin{Other: x})
		default:
			out = append(out, Origin{Other: v})
		}
	}
	walk(v, depth)
	return out
}

func closuresOf(parent, fn *ssa.Function) []*ssa.MakeClosure {
	var out []*ssa.MakeClosure
	for _, b := range parent.Blocks {
		for _, in := range b.Instrs {
			if mc, ok := in.(*ssa.MakeClosure); ok && mc.Fn == fn {
				out = append(out, mc)
			}
		}
	}
	return out
}
